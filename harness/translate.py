"""Translator (tie A): regenerates lean/NirVerif/Generated/*.lean from /repo's working tree.

Restricted on purpose to constructs that translate without interpretation (tables read by
`ast`, scalar kernels).  Anything outside the accepted grammar raises `Refusal`, which the
check treats as "tie broken" -- never silently skipped.
"""
import ast
import os
import sys

REPO = os.environ.get("NIR_REPO", "/repo")
HERE = os.path.dirname(os.path.abspath(__file__))
OUT = os.path.join(os.path.dirname(HERE), "lean", "NirVerif", "Generated")


class Refusal(Exception):
    def __init__(self, item, msg):
        super().__init__(f"{item}: {msg}")
        self.item = item


def _src(rel):
    with open(os.path.join(REPO, rel)) as f:
        return f.read()


def _find_func(tree, name, cls=None):
    found = None
    for node in ast.walk(tree):
        if cls is not None:
            if isinstance(node, ast.ClassDef) and node.name == cls:
                for sub in node.body:
                    if isinstance(sub, ast.FunctionDef) and sub.name == name:
                        found = sub  # last definition wins, as in Python
        elif isinstance(node, ast.Module):
            for sub in node.body:
                if isinstance(sub, ast.FunctionDef) and sub.name == name:
                    found = sub
    return found


def lean_str(s):
    out = ['"']
    for ch in s:
        if ch == '"':
            out.append('\\"')
        elif ch == "\\":
            out.append("\\\\")
        elif ch == "\n":
            out.append("\\n")
        elif 32 <= ord(ch) < 127:
            out.append(ch)
        elif ord(ch) < 256:
            out.append("\\x%02x" % ord(ch))
        elif ord(ch) < 0x10000:
            out.append("\\u%04x" % ord(ch))
        else:
            out.append(ch)
    out.append('"')
    return "".join(out)


# ---------------------------------------------------------------------------------------
# Expression translation.  Two numeric modes: "int" (Python ints / integer arrays ->
# Lean Int) and "num" (a generic field-like type `α`, used for Rat / Real / Float back-ends)
# ---------------------------------------------------------------------------------------
class ExprT:
    def __init__(self, item, mode, names, calls=None, attr=None):
        self.item = item
        self.mode = mode          # "int" | "num"
        self.names = names        # python name -> lean text
        self.calls = calls or {}  # dotted call name -> handler(args_lean, node)
        self.attr = attr or {}    # dotted attribute chain -> lean text

    def refuse(self, node, why):
        raise Refusal(self.item, f"{why} at line {getattr(node, 'lineno', '?')}: "
                                 f"{ast.dump(node)[:120]}")

    def dotted(self, node):
        parts = []
        while isinstance(node, ast.Attribute):
            parts.append(node.attr)
            node = node.value
        if isinstance(node, ast.Name):
            parts.append(node.id)
            return ".".join(reversed(parts))
        return None

    def lit(self, v, node):
        if isinstance(v, bool):
            self.refuse(node, "bool literal")
        if isinstance(v, int):
            return f"({v})" if v < 0 else str(v)
        if isinstance(v, float) and self.mode == "num":
            if v == int(v) and abs(v) < 2 ** 53:
                iv = int(v)
                return f"({iv})" if iv < 0 else str(iv)
            self.refuse(node, "non-integral float literal")
        self.refuse(node, "literal")

    def e(self, n):
        if isinstance(n, ast.Constant):
            return self.lit(n.value, n)
        if isinstance(n, ast.Name):
            if n.id in self.names:
                return self.names[n.id]
            self.refuse(n, f"unknown name {n.id}")
        if isinstance(n, ast.Attribute):
            d = self.dotted(n)
            if d in self.attr:
                return self.attr[d]
            self.refuse(n, f"unknown attribute {d}")
        if isinstance(n, ast.UnaryOp) and isinstance(n.op, ast.USub):
            return f"(-{self.e(n.operand)})"
        if isinstance(n, ast.UnaryOp) and isinstance(n.op, ast.Not):
            return f"(!{self.b(n.operand)})"
        if isinstance(n, ast.BinOp):
            ops = {ast.Add: "+", ast.Sub: "-", ast.Mult: "*"}
            if type(n.op) in ops:
                return f"({self.e(n.left)} {ops[type(n.op)]} {self.e(n.right)})"
            if isinstance(n.op, ast.Div) and self.mode == "num":
                return f"({self.e(n.left)} / {self.e(n.right)})"
            self.refuse(n, "operator")
        if isinstance(n, ast.IfExp):
            return f"(if {self.b(n.test)} then {self.e(n.body)} else {self.e(n.orelse)})"
        if isinstance(n, ast.Call):
            d = self.dotted(n.func)
            if d in self.calls and not n.keywords:
                return self.calls[d]([a for a in n.args], n, self)
            self.refuse(n, f"call {d}")
        if isinstance(n, ast.Subscript) and isinstance(n.slice, ast.Slice):
            s = n.slice
            if s.step is not None:
                self.refuse(n, "slice step")
            lo = "none" if s.lower is None else f"(some {self.e(s.lower)})"
            hi = "none" if s.upper is None else f"(some {self.e(s.upper)})"
            return f"(Py.slice {self.e(n.value)} {lo} {hi})"
        if isinstance(n, ast.List):
            parts = []
            for el in n.elts:
                if isinstance(el, ast.Starred):
                    parts.append(self.e(el.value))
                else:
                    parts.append(f"[{self.e(el)}]")
            return "(" + " ++ ".join(parts) + ")" if parts else "[]"
        self.refuse(n, "expression")

    def b(self, n):
        """boolean expression -> Lean Bool"""
        if isinstance(n, ast.BoolOp):
            op = "&&" if isinstance(n.op, ast.And) else "||"
            return "(" + f" {op} ".join(self.b(v) for v in n.values) + ")"
        if isinstance(n, ast.UnaryOp) and isinstance(n.op, ast.Not):
            return f"(!{self.b(n.operand)})"
        if isinstance(n, ast.Compare):
            ops = {ast.Eq: "==", ast.NotEq: "!=", ast.Lt: "<", ast.LtE: "<=",
                   ast.Gt: ">", ast.GtE: ">="}
            terms = [n.left] + list(n.comparators)
            out = []
            for a, op, c in zip(terms, n.ops, terms[1:]):
                if type(op) not in ops:
                    self.refuse(n, "comparison operator")
                o = ops[type(op)]
                if o in ("==", "!="):
                    out.append(f"({self.e(a)} {o} {self.e(c)})")
                else:
                    out.append(f"(decide ({self.e(a)} {o} {self.e(c)}))")
            return "(" + " && ".join(out) + ")"
        self.refuse(n, "boolean expression")


HEADER = "-- GENERATED by harness/translate.py from /repo's working tree; do not edit.\n"


# ---------------------------------------------------------------------------------------
# T4  calculate_conv_output: the expression under np.floor(...)
# ---------------------------------------------------------------------------------------
def t4_conv_axis():
    item = "T4"
    tree = ast.parse(_src("nir/ir/utils.py"))
    fn = _find_func(tree, "calculate_conv_output")
    if fn is None:
        raise Refusal(item, "calculate_conv_output not found")
    params = [a.arg for a in fn.args.args]
    want = ["input_shape", "padding", "dilation", "kernel_size", "stride"]
    if params != want:
        raise Refusal(item, f"parameter list changed: {params}")
    floors = [n for n in ast.walk(fn)
              if isinstance(n, ast.Call) and ExprT(item, "num", {}).dotted(n.func) == "np.floor"]
    if len(floors) != 1:
        raise Refusal(item, f"expected exactly one np.floor call, found {len(floors)}")
    call = floors[0]
    if len(call.args) != 1 or call.keywords:
        raise Refusal(item, "np.floor arity")

    def index_tuple(args, node, T):
        if len(args) != 2 or not isinstance(args[0], ast.Name) or args[0].id not in want:
            T.refuse(node, "_index_tuple argument")
        if not (isinstance(args[1], ast.Name) and args[1].id == "i"):
            T.refuse(node, "_index_tuple index is not the loop variable")
        return f"({args[0].id} : Rat)"

    T = ExprT(item, "num", {}, calls={"_index_tuple": index_tuple})
    body = T.e(call.args[0])
    # the result of floor must be what is appended: `shapes.append(int(shape.item()))`
    txt = HEADER + f"""
namespace NirVerif.Generated

/-- One spatial axis of `calculate_conv_output` (utils.py line {call.lineno}): the expression
under `np.floor`, evaluated in exact rational arithmetic. -/
def convAxis (input_shape padding dilation kernel_size stride : Int) : Int :=
  Rat.floor {body}

end NirVerif.Generated
"""
    return {"ConvAxis.lean": txt}


# ---------------------------------------------------------------------------------------
# T5  calc_flatten_output
# ---------------------------------------------------------------------------------------
def t5_flatten():
    item = "T5"
    tree = ast.parse(_src("nir/ir/utils.py"))
    fn = _find_func(tree, "calc_flatten_output")
    if fn is None:
        raise Refusal(item, "calc_flatten_output not found")
    params = [a.arg for a in fn.args.args]
    if params != ["input_shape", "start_dim", "end_dim"]:
        raise Refusal(item, f"parameter list changed: {params}")
    names = {p: p for p in params}
    calls = {
        "np.array": lambda a, n, T: T.e(a[0]) if len(a) == 1 else T.refuse(n, "np.array arity"),
        "np.prod": lambda a, n, T: f"[Py.prod {T.e(a[0])}]" if len(a) == 1 else T.refuse(n, "np.prod arity"),
        "len": lambda a, n, T: f"(Py.len {T.e(a[0])})" if len(a) == 1 else T.refuse(n, "len arity"),
    }
    # np.prod yields a scalar; it is only ever used as a list-display element, so we carry it
    # as a singleton list and splice it.  Track which names are "scalar-as-singleton".
    singles = set()
    lines = []
    ret = None
    body = [s for s in fn.body if not (isinstance(s, ast.Expr) and isinstance(s.value, ast.Constant))]
    for st in body:
        T = ExprT(item, "int", dict(names), calls=calls)
        if isinstance(st, ast.Assign) and len(st.targets) == 1 and isinstance(st.targets[0], ast.Name):
            tgt = st.targets[0].id
            is_single = _yields_scalar(st.value)
            rhs = T.e(st.value)
            lines.append(f"  let {tgt} : List Int := {rhs}")
            names[tgt] = tgt
            if is_single:
                singles.add(tgt)
        elif isinstance(st, ast.Return):
            v = st.value
            if not (isinstance(v, ast.Call) and T.dotted(v.func) == "np.array" and len(v.args) == 1
                    and isinstance(v.args[0], ast.List)):
                raise Refusal(item, "return is not np.array([...])")
            parts = []
            for el in v.args[0].elts:
                if isinstance(el, ast.Starred):
                    if not isinstance(el.value, ast.Name) or el.value.id in singles:
                        raise Refusal(item, "starred element must be a sequence name")
                    parts.append(T.e(el.value))
                elif isinstance(el, ast.Name) and el.id in singles:
                    parts.append(el.id)
                else:
                    parts.append(f"[{T.e(el)}]")
            ret = " ++ ".join(parts)
        else:
            raise Refusal(item, f"unsupported statement at line {st.lineno}")
    if ret is None:
        raise Refusal(item, "no return")
    txt = HEADER + """import NirVerif.Py.Basic

namespace NirVerif.Generated
open NirVerif

/-- `calc_flatten_output` (utils.py), statement by statement.  Integer sequences are
`List Int`; a numpy scalar produced by `np.prod` is carried as a singleton list. -/
def calcFlattenOutput (input_shape : List Int) (start_dim end_dim : Int) : List Int :=
""" + "\n".join(lines) + f"\n  {ret}\n\nend NirVerif.Generated\n"
    return {"Flatten.lean": txt}


def _yields_scalar(v):
    """an expression whose every branch is an np.prod(...) call"""
    if isinstance(v, ast.IfExp):
        return _yields_scalar(v.body) and _yields_scalar(v.orelse)
    if isinstance(v, ast.Call):
        f = v.func
        return isinstance(f, ast.Attribute) and f.attr == "prod"
    return False



# ---------------------------------------------------------------------------------------
# T1  dataclass field tables (reflection on the working-tree package)
# ---------------------------------------------------------------------------------------
def _import_nir():
    if REPO not in sys.path:
        sys.path.insert(0, REPO)
    import importlib
    try:
        import nir  # noqa
    except Exception as e:  # pragma: no cover
        raise Refusal("T1", f"cannot import nir from {REPO}: {type(e).__name__}: {e}")
    if not os.path.abspath(nir.__file__).startswith(os.path.abspath(REPO)):
        raise Refusal("T1", f"nir imported from {nir.__file__}, not from {REPO}")
    return nir


def lean_bytes(b):
    return "[" + ", ".join(str(x) for x in b) + "]"


def lean_val(v, item):
    import struct
    if v is None:
        return "Val.none"
    if isinstance(v, bool):
        return f"Val.bool {'true' if v else 'false'}"
    if isinstance(v, int):
        return f"Val.int ({v})"
    if isinstance(v, float):
        return f"Val.float {lean_bytes(struct.pack('<d', v))}"
    if isinstance(v, str):
        return f"Val.str {lean_str(v)}"
    if isinstance(v, dict) and not v:
        return "Val.dict []"
    raise Refusal(item, f"default value {v!r} has no Lean form")


def t1_fields():
    import dataclasses
    item = "T1"
    nir = _import_nir()
    names = t2_names()
    rows = []
    for cname in names:
        cls = getattr(nir.ir, cname, None)
        if cls is None or not dataclasses.is_dataclass(cls):
            raise Refusal(item, f"{cname} is not a dataclass in nir.ir")
        frows = []
        for f in dataclasses.fields(cls):
            if not f.init:
                raise Refusal(item, f"{cname}.{f.name}: init=False fields are not modelled")
            if f.default is not dataclasses.MISSING:
                d = f"some ({lean_val(f.default, item)})"
            elif f.default_factory is not dataclasses.MISSING:
                d = f"some ({lean_val(f.default_factory(), item)})"
            else:
                d = "none"
            frows.append(f"    ({lean_str(f.name)}, {d})")
        rows.append(f"  ({lean_str(cname)}, [\n" + ",\n".join(frows) + "])")
    txt = HEADER + """import NirVerif.Py.Value

namespace NirVerif.Generated
open NirVerif.Py

/-- For every serialisable class: its dataclass init-fields in declaration order, each with
its default value (`none` = mandatory).  Read by reflection from the working tree. -/
def classFields : List (String × List (String × Option Val)) := [
""" + ",\n".join(rows) + "]\n\nend NirVerif.Generated\n"
    return {"Fields.lean": txt}


# ---------------------------------------------------------------------------------------
# T2  the deserialisation whitelist and the shape of its guard
# ---------------------------------------------------------------------------------------
def t2_names():
    item = "T2"
    tree = ast.parse(_src("nir/ir/__init__.py"))
    names = None
    for st in tree.body:
        if isinstance(st, ast.Assign) and len(st.targets) == 1 and isinstance(st.targets[0], ast.Name) \
                and st.targets[0].id == "__all_ir":
            if not isinstance(st.value, ast.List) or not all(
                    isinstance(e, ast.Constant) and isinstance(e.value, str) for e in st.value.elts):
                raise Refusal(item, "__all_ir is not a list of string literals")
            names = [e.value for e in st.value.elts]
    if names is None:
        raise Refusal(item, "__all_ir not found")
    return names


def t2_whitelist():
    item = "T2"
    names = t2_names()
    tree = ast.parse(_src("nir/ir/__init__.py"))
    fn = _find_func(tree, "str2NIRNode")
    if fn is None:
        raise Refusal(item, "str2NIRNode not found")
    arg = fn.args.args[0].arg if fn.args.args else None
    body = [s for s in fn.body if not (isinstance(s, ast.Expr) and isinstance(s.value, ast.Constant))]
    def is_guarded_lookup(ret):
        return (isinstance(ret, ast.Return) and isinstance(ret.value, ast.Subscript)
                and isinstance(ret.value.value, ast.Call) and isinstance(ret.value.value.func, ast.Name)
                and ret.value.value.func.id == "globals"
                and isinstance(ret.value.slice, ast.Name) and ret.value.slice.id == arg)

    def membership(test, negated):
        op = ast.NotIn if negated else ast.In
        return (isinstance(test, ast.Compare) and isinstance(test.left, ast.Name) and test.left.id == arg
                and len(test.ops) == 1 and isinstance(test.ops[0], op)
                and isinstance(test.comparators[0], ast.Name) and test.comparators[0].id == "__all_ir")

    ok = len(body) == 2 and is_guarded_lookup(body[1]) and (
        (isinstance(body[0], ast.Assert) and membership(body[0].test, False))
        or (isinstance(body[0], ast.If) and membership(body[0].test, True) and not body[0].orelse
            and len(body[0].body) == 1 and isinstance(body[0].body[0], ast.Raise)))
    if not ok:
        raise Refusal(item, "str2NIRNode is no longer a whitelist guard (`assert type in __all_ir` / `if type not in __all_ir: raise`) followed by `return globals()[type]`")
    # every whitelisted name must resolve, in the module's globals, to the class of that name
    nir = _import_nir()
    for n in names:
        cls = vars(nir.ir).get(n)
        if cls is None or getattr(cls, "__name__", None) != n:
            raise Refusal(item, f"globals()[{n!r}] is not the class {n}")
    fd = _find_func(tree, "dict2NIRNode")
    txt = HEADER + """
namespace NirVerif.Generated

/-- `nir/ir/__init__.py::__all_ir`: the names `str2NIRNode` admits.  The translator has
checked that `str2NIRNode` is `assert type in __all_ir; return globals()[type]` and that
every listed name resolves to the class of that name. -/
def whitelist : List String := [""" + ", ".join(lean_str(n) for n in names) + """]

end NirVerif.Generated
"""
    return {"Whitelist.lean": txt}

# ---------------------------------------------------------------------------------------
# T6 / T7  paper kernels: straight-line float code -> Lean, in an ℝ and a Float back-end
# ---------------------------------------------------------------------------------------
class Kernel:
    """Translate a method body made of assignments to names / state attributes, if/else with
    returns, into a Lean expression over an abstract number type."""

    def __init__(self, item, attrs, state, inf_ok=False):
        self.item = item
        self.attrs = dict(attrs)       # dotted attribute chain -> lean name (read-only parameters)
        self.state = dict(state)       # dotted attribute chain -> lean name (mutable state)
        self.inf_ok = inf_ok

    def refuse(self, node, why):
        raise Refusal(self.item, f"{why} at line {getattr(node, 'lineno', '?')}: {ast.dump(node)[:100]}")

    def dotted(self, n):
        parts = []
        while isinstance(n, ast.Attribute):
            parts.append(n.attr)
            n = n.value
        if isinstance(n, ast.Name):
            parts.append(n.id)
            return ".".join(reversed(parts))
        return None

    def e(self, n, env):
        if isinstance(n, ast.Constant) and isinstance(n.value, (int, float)) and not isinstance(n.value, bool):
            v = n.value
            if float(v) != int(v):
                self.refuse(n, "non-integral literal")
            iv = int(v)
            return f"({iv})" if iv < 0 else str(iv)
        if isinstance(n, ast.Name):
            if n.id in env:
                return env[n.id]
            self.refuse(n, f"unknown name {n.id}")
        if isinstance(n, ast.Attribute):
            d = self.dotted(n)
            # aliases such as `p = self.params`
            for alias, target in list(env.items()):
                if d and d.startswith(alias + ".") and target.startswith("@"):
                    d = target[1:] + d[len(alias):]
            if d in self.state:
                return env.get("$" + d, self.state[d])
            if d in self.attrs:
                return self.attrs[d]
            self.refuse(n, f"unknown attribute {d}")
        if isinstance(n, ast.UnaryOp) and isinstance(n.op, ast.USub):
            return f"(-{self.e(n.operand, env)})"
        if isinstance(n, ast.BinOp):
            ops = {ast.Add: "+", ast.Sub: "-", ast.Mult: "*", ast.Div: "/"}
            if type(n.op) in ops:
                return f"({self.e(n.left, env)} {ops[type(n.op)]} {self.e(n.right, env)})"
            self.refuse(n, "operator")
        if isinstance(n, ast.Call):
            d = self.dotted(n.func)
            if d in ("math.exp", "np.exp") and len(n.args) == 1:
                return f"(EXP {self.e(n.args[0], env)})"
            if d in ("math.log", "np.log") and len(n.args) == 1:
                return f"(LOG {self.e(n.args[0], env)})"
            if d and d.endswith(".copy") and not n.args:
                return self.e(n.func.value, env)
            self.refuse(n, f"call {d}")
        if isinstance(n, ast.Compare) and len(n.ops) == 1:
            ops = {ast.Gt: ">", ast.GtE: "≥", ast.Lt: "<", ast.LtE: "≤", ast.Eq: "="}
            if type(n.ops[0]) in ops:
                return f"(BOOL ({self.e(n.left, env)} {ops[type(n.ops[0])]} {self.e(n.comparators[0], env)}))"
        self.refuse(n, "expression")

    def cond(self, n, env):
        if isinstance(n, ast.Compare) and len(n.ops) == 1:
            ops = {ast.Gt: ">", ast.GtE: "≥", ast.Lt: "<", ast.LtE: "≤", ast.Eq: "=", ast.NotEq: "≠"}
            if type(n.ops[0]) in ops:
                return f"{self.e(n.left, env)} {ops[type(n.ops[0])]} {self.e(n.comparators[0], env)}"
        self.refuse(n, "condition")

    def is_inf(self, n):
        return self.dotted(n) in ("math.inf", "np.inf")

    def block(self, stmts, env, result):
        """result: function env -> lean text for falling off the end"""
        stmts = [s for s in stmts if not (isinstance(s, ast.Expr) and isinstance(s.value, ast.Constant))]
        if not stmts:
            return result(env)
        st, rest = stmts[0], stmts[1:]
        if isinstance(st, ast.Assign) and len(st.targets) == 1:
            tgt = st.targets[0]
            if isinstance(tgt, ast.Name):
                d = self.dotted(st.value)
                if d is not None and d not in self.state and d not in self.attrs and not any(
                        d.startswith(a + ".") for a in env):
                    env2 = dict(env); env2[tgt.id] = "@" + d         # alias (p = self.params)
                    return self.block(rest, env2, result)
                env2 = dict(env); env2[tgt.id] = tgt.id
                return f"let {tgt.id} := {self.e(st.value, env)}\n  " + self.block(rest, env2, result)
            d = self.dotted(tgt)
            if d in self.state:
                name = self.state[d] + "'"
                while name in env.values():
                    name += "'"
                env2 = dict(env); env2["$" + d] = name
                return f"let {name} := {self.e(st.value, env)}\n  " + self.block(rest, env2, result)
            self.refuse(st, "assignment target")
        if isinstance(st, ast.AugAssign) and isinstance(st.op, ast.Sub):
            d = self.dotted(st.target)
            if d in self.state:
                cur = env.get("$" + d, self.state[d])
                name = self.state[d] + "'"
                while name in env.values():
                    name += "'"
                env2 = dict(env); env2["$" + d] = name
                return f"let {name} := ({cur} - {self.e(st.value, env)})\n  " + self.block(rest, env2, result)
            self.refuse(st, "augmented assignment target")
        if isinstance(st, ast.Return):
            if rest:
                self.refuse(st, "code after return")
            return self.ret(st.value, env)
        if isinstance(st, ast.If):
            if rest and not st.orelse:
                # `if c: return X` followed by more code
                return f"if {self.cond(st.test, env)} then {self.block(st.body, env, result)}\n  else " + \
                    self.block(rest, env, result)
            if rest:
                self.refuse(st, "code after if/else")
            return f"if {self.cond(st.test, env)} then {self.block(st.body, env, result)}\n  else " + \
                self.block(st.orelse, env, result)
        self.refuse(st, "statement")

    def ret(self, v, env):
        if self.inf_ok:
            if self.is_inf(v):
                return "none"
            return f"some {self.e(v, env)}"
        if isinstance(v, ast.Tuple):
            return "(" + ", ".join(self.e(x, env) for x in v.elts) + ")"
        return self.e(v, env)


def _backend(txt, real):
    if real:
        return (txt.replace("EXP", "Real.exp").replace("LOG", "Real.log").replace("NUM", "ℝ")
                .replace("BOOL", "boolToNum"))
    return (txt.replace("EXP", "Float.exp").replace("LOG", "Float.log").replace("NUM", "Float")
            .replace("BOOL", "boolToNum").replace(" = 0 then", " == 0 then"))


def t6_lif():
    item = "T6"
    tree = ast.parse(_src("paper/01_lif/lif_exact_sim.py"))
    params = {"self.params.tau": "tau", "self.params.r": "r", "self.params.v_leak": "v_leak",
              "self.params.v_threshold": "v_threshold"}
    state = {"self.state.v": "v"}
    out = {}
    fn = _find_func(tree, "advance_by_delta_t", "ExactLIFNeuron")
    if fn is None or [a.arg for a in fn.args.args] != ["self", "i_input", "delta_t"]:
        raise Refusal(item, "advance_by_delta_t signature")
    K = Kernel(item, params, state)
    adv = K.block(fn.body, {"i_input": "i_input", "delta_t": "delta_t"}, lambda env: env.get("$self.state.v", "v"))
    fn = _find_func(tree, "calc_next_spike_time", "ExactLIFNeuron")
    if fn is None or [a.arg for a in fn.args.args] != ["self", "i_input"]:
        raise Refusal(item, "calc_next_spike_time signature")
    K2 = Kernel(item, params, state, inf_ok=True)
    nxt = K2.block(fn.body, {"i_input": "i_input"}, lambda env: (_ for _ in ()).throw(Refusal(item, "falls off the end")))
    fn = _find_func(tree, "apply_reset", "ExactLIFNeuron")
    if fn is None:
        raise Refusal(item, "apply_reset not found")
    rst = Kernel(item, params, state).block(fn.body, {}, lambda env: env.get("$self.state.v", "v"))
    body = f"""
/-- `ExactLIFNeuron.advance_by_delta_t`: the new membrane voltage. -/
DEF advance (tau r v_leak v_threshold : NUM) (v i_input delta_t : NUM) : NUM :=
  {adv}

/-- `ExactLIFNeuron.calc_next_spike_time`: `none` stands for `math.inf`. -/
DEF nextSpikeTime (tau r v_leak v_threshold : NUM) (v i_input : NUM) : Option NUM :=
  {nxt}

/-- `ExactLIFNeuron.apply_reset` -/
DEF applyReset (tau r v_leak v_threshold : NUM) (v : NUM) : NUM :=
  {rst}
"""
    real = HEADER + "import Mathlib.Analysis.SpecialFunctions.Log.Basic\n\nnamespace NirVerif.Generated.LifReal\nopen Classical\n" + \
        _backend(body, True).replace("DEF", "noncomputable def") + "\nend NirVerif.Generated.LifReal\n"
    flt = HEADER + "\nnamespace NirVerif.Generated.LifFloat\n" + _backend(body, False).replace("DEF", "def") + \
        "\nend NirVerif.Generated.LifFloat\n"
    return {"LifExactReal.lean": real, "LifExactFloat.lean": flt}


def t7_cuba():
    item = "T7"
    tree = ast.parse(_src("paper/03_rnn/extras/debug_CubaLIF/nir_reference_impl.py"))
    fn = _find_func(tree, "forward", "CubaLIFImplementation")
    if fn is None or [a.arg for a in fn.args.args] != ["self", "x"]:
        raise Refusal(item, "forward signature")
    attrs = {"self.dt": "dt"}
    for f in ("tau_syn", "tau_mem", "r", "v_leak", "v_threshold", "w_in"):
        attrs["self.node." + f] = f
    state = {"self.I": "I", "self.v": "v"}
    K = Kernel(item, attrs, state)
    body = K.block(fn.body, {"x": "x"}, lambda env: (_ for _ in ()).throw(Refusal(item, "no return")))
    txt = f"""
/-- numeric value of a comparison result (`z * v_threshold` multiplies by a boolean) -/
DEF boolToNum (p : Prop) [Decidable p] : NUM := if p then 1 else 0

/-- `CubaLIFImplementation.forward`, element-wise: returns `(z, v, I)`. -/
DEF cubaForward (dt tau_syn tau_mem r v_leak v_threshold w_in : NUM) (I v x : NUM) : NUM × NUM × NUM :=
  {body}
"""
    real = HEADER + "import Mathlib.Analysis.SpecialFunctions.Log.Basic\n\nnamespace NirVerif.Generated.CubaReal\nopen Classical\n" + \
        _backend(txt, True).replace("DEF", "noncomputable def") + "\nend NirVerif.Generated.CubaReal\n"
    flt = HEADER + "\nnamespace NirVerif.Generated.CubaFloat\n" + _backend(txt, False).replace("DEF", "def") + \
        "\nend NirVerif.Generated.CubaFloat\n"
    return {"CubaRefReal.lean": real, "CubaRefFloat.lean": flt}


# ---------------------------------------------------------------------------------------
# T3  file modes and context-manager use in serialization.py
# ---------------------------------------------------------------------------------------
def t3_file_modes():
    item = "T3"
    tree = ast.parse(_src("nir/serialization.py"))
    out = {}
    for fname, lean in (("write", "write"), ("read", "read"), ("read_version", "version")):
        fn = _find_func(tree, fname)
        if fn is None:
            raise Refusal(item, f"{fname} not found")
        calls = []
        with_ctx = set()
        for n in ast.walk(fn):
            if isinstance(n, ast.With):
                for it in n.items:
                    with_ctx.add(id(it.context_expr))
        for n in ast.walk(fn):
            if isinstance(n, ast.Call):
                f = n.func
                if isinstance(f, ast.Attribute) and f.attr == "File" and isinstance(f.value, ast.Name) and f.value.id == "h5py":
                    calls.append(n)
        if len(calls) != 1:
            raise Refusal(item, f"{fname}: expected exactly one h5py.File call, found {len(calls)}")
        c = calls[0]
        mode = None
        if len(c.args) >= 2 and isinstance(c.args[1], ast.Constant) and isinstance(c.args[1].value, str):
            mode = c.args[1].value
        for kw in c.keywords:
            if kw.arg == "mode" and isinstance(kw.value, ast.Constant) and isinstance(kw.value.value, str):
                mode = kw.value.value
            elif kw.arg not in ("mode",):
                raise Refusal(item, f"{fname}: h5py.File keyword {kw.arg} is not modelled")
        if mode is None:
            raise Refusal(item, f"{fname}: file mode is not a string literal")
        if not (c.args and isinstance(c.args[0], ast.Name) and c.args[0].id == fn.args.args[0].arg):
            raise Refusal(item, f"{fname}: the file opened is not the function's first argument")
        out[lean] = (mode, id(c) in with_ctx)
    txt = HEADER + "\nnamespace NirVerif.Generated\n\n/-- mode literal of the `h5py.File(…)` call in `nir.write` / `nir.read` / `read_version`, and whether the\ncall is the context expression of a `with` statement (serialization.py) -/\n"
    for k, (mode, w) in out.items():
        txt += f"def {k}Mode : String := {lean_str(mode)}\ndef {k}UsesWith : Bool := {'true' if w else 'false'}\n"
    txt += "\nend NirVerif.Generated\n"
    return {"FileModes.lean": txt}


# ---------------------------------------------------------------------------------------
# T8  NIRGraph.from_list: the naming function `unique_node_name` (f-string and counter step)
# ---------------------------------------------------------------------------------------
def t8_unique_name():
    item = "T8"
    tree = ast.parse(_src("nir/ir/graph.py"))
    fl = _find_func(tree, "from_list", "NIRGraph")
    if fl is None:
        raise Refusal(item, "NIRGraph.from_list not found")
    inner = [n for n in fl.body if isinstance(n, ast.FunctionDef) and n.name == "unique_node_name"]
    if len(inner) != 1:
        raise Refusal(item, "from_list does not define unique_node_name")
    fn = inner[0]
    if len(fn.args.args) != 2:
        raise Refusal(item, f"unique_node_name parameters: {[a.arg for a in fn.args.args]}")
    p_node, p_counts = [a.arg for a in fn.args.args]
    body = [st for st in fn.body if not (isinstance(st, ast.Expr) and isinstance(st.value, ast.Constant))]
    if len(body) != 5:
        raise Refusal(item, f"unique_node_name has {len(body)} statements, expected 5")
    # roles of the locals are read off the statements, so renaming them is harmless
    st0, st1 = body[0], body[1]
    if not (isinstance(st0, ast.Assign) and len(st0.targets) == 1 and isinstance(st0.targets[0], ast.Name) and ast.dump(st0.value) ==
            f"Call(func=Attribute(value=Attribute(value=Attribute(value=Name(id='{p_node}', ctx=Load()), attr='__class__', ctx=Load()), "
            "attr='__name__', ctx=Load()), attr='lower', ctx=Load()), args=[], keywords=[])"):
        raise Refusal(item, "the base name is not <node>.__class__.__name__.lower()")
    v_base = st0.targets[0].id
    if not (isinstance(st1, ast.Assign) and len(st1.targets) == 1 and isinstance(st1.targets[0], ast.Name) and ast.dump(st1.value) ==
            f"Subscript(value=Name(id='{p_counts}', ctx=Load()), slice=Name(id='{v_base}', ctx=Load()), ctx=Load())"):
        raise Refusal(item, "the index is not <counts>[<base name>]")
    v_id = st1.targets[0].id
    st2, st3, st4 = body[2], body[3], body[4]
    if not (isinstance(st2, ast.Assign) and len(st2.targets) == 1 and isinstance(st2.targets[0], ast.Name)):
        raise Refusal(item, "third statement is not `<name> = ...`")
    v_name = st2.targets[0].id
    if not (isinstance(st3, ast.AugAssign) and isinstance(st3.op, ast.Add) and ast.dump(st3.target) ==
            f"Subscript(value=Name(id='{p_counts}', ctx=Load()), slice=Name(id='{v_base}', ctx=Load()), ctx=Store())"
            and isinstance(st3.value, ast.Constant) and isinstance(st3.value.value, int) and not isinstance(st3.value.value, bool)):
        raise Refusal(item, "fourth statement is not `<counts>[<base name>] += <int literal>`")
    if not (isinstance(st4, ast.Return) and isinstance(st4.value, ast.Name) and st4.value.id == v_name):
        raise Refusal(item, "fifth statement is not `return <name>`")
    # the counter the names are drawn from starts empty: `<counts> = Counter()` in from_list, passed to the helper
    starts = [n for n in fl.body if isinstance(n, ast.Assign) and len(n.targets) == 1 and isinstance(n.targets[0], ast.Name)
              and ast.dump(n.value) in ("Call(func=Name(id='Counter', ctx=Load()), args=[], keywords=[])",
                                        "Call(func=Attribute(value=Name(id='collections', ctx=Load()), attr='Counter', ctx=Load()), args=[], keywords=[])")]
    if len(starts) != 1:
        raise Refusal(item, "from_list does not initialise exactly one Counter()")

    def sx(n):
        """string-valued expression over basename : String, id : Nat"""
        if isinstance(n, ast.Constant) and isinstance(n.value, str):
            return lean_str(n.value)
        if isinstance(n, ast.JoinedStr):
            parts = [sx(v) for v in n.values]
            return "(" + " ++ ".join(parts) + ")" if parts else '""'
        if isinstance(n, ast.FormattedValue):
            if n.conversion != -1 or n.format_spec is not None:
                raise Refusal(item, "format specification / conversion in the f-string")
            return sx(n.value)
        if isinstance(n, ast.Name) and n.id == v_base:
            return "basename"
        if isinstance(n, ast.Name) and n.id == v_id:
            return "(toString id)"
        if isinstance(n, ast.Call) and isinstance(n.func, ast.Name) and n.func.id == "str" and len(n.args) == 1 and not n.keywords:
            return sx(n.args[0])
        if isinstance(n, ast.BinOp) and isinstance(n.op, ast.Add):
            if isinstance(n.left, ast.Name) and n.left.id == v_id and isinstance(n.right, ast.Constant) and isinstance(n.right.value, int):
                return f"(toString (id + {n.right.value}))"
            return f"({sx(n.left)} ++ {sx(n.right)})"
        if isinstance(n, ast.IfExp):
            t = n.test
            if not (isinstance(t, ast.Compare) and len(t.ops) == 1 and isinstance(t.left, ast.Name) and t.left.id == v_id
                    and isinstance(t.comparators[0], ast.Constant) and isinstance(t.comparators[0].value, int)
                    and not isinstance(t.comparators[0].value, bool) and t.comparators[0].value >= 0):
                raise Refusal(item, "condition in the f-string is not `id <op> <non-negative int literal>`")
            op = {ast.Gt: ">", ast.GtE: "≥", ast.Lt: "<", ast.LtE: "≤", ast.Eq: "=", ast.NotEq: "≠"}.get(type(t.ops[0]))
            if op is None:
                raise Refusal(item, "comparison operator in the f-string")
            return f"(if id {op} {t.comparators[0].value} then {sx(n.body)} else {sx(n.orelse)})"
        raise Refusal(item, f"expression in the naming f-string: {ast.dump(n)[:80]}")

    expr = sx(st2.value)
    txt = HEADER + f"""
namespace NirVerif.Generated

/-- `unique_node_name` inside `NIRGraph.from_list` (nir/ir/graph.py): the name given to a node whose lower-cased class
name is `basename` when `id` nodes of that class have been named before it -/
def uniqueNameGen (basename : String) (id : Nat) : String :=
  {expr}

/-- `counts[basename] += …` after each name; the counter starts empty (`Counter()`) -/
def nameCounterStep : Nat := {st3.value.value}

end NirVerif.Generated
"""
    return {"UniqueName.lean": txt}



# ---------------------------------------------------------------------------------------
# T9  neuron constructors: which parameters the common-shape assertion compares, which one the types are taken from
# ---------------------------------------------------------------------------------------
def t9_neuron_shapes():
    item = "T9"
    tree = ast.parse(_src("nir/ir/neuron.py"))
    same, src = [], []
    for cls in ("CubaLIF", "IF", "LI", "LIF"):
        fn = _find_func(tree, "__post_init__", cls)
        if fn is None:
            raise Refusal(item, f"{cls}.__post_init__ not found")
        body = [st for st in fn.body if not (isinstance(st, ast.Expr) and isinstance(st.value, ast.Constant))]
        if not body or not isinstance(body[0], ast.Assert):
            raise Refusal(item, f"{cls}.__post_init__ does not begin with the shape assertion")
        t = body[0].test
        # a chain a == b == c, or a conjunction of such chains (which must connect all operands: each chain after the
        # first shares an operand with what came before)
        chains = t.values if isinstance(t, ast.BoolOp) and isinstance(t.op, ast.And) else [t]
        names = []
        for ci, ch in enumerate(chains):
            if not (isinstance(ch, ast.Compare) and all(isinstance(o, ast.Eq) for o in ch.ops)):
                raise Refusal(item, f"{cls}: the first assertion is not a chain (or conjunction of chains) of == comparisons")
            ops_ = []
            for e in [ch.left] + list(ch.comparators):
                if not (isinstance(e, ast.Attribute) and e.attr == "shape" and isinstance(e.value, ast.Attribute)
                        and isinstance(e.value.value, ast.Name) and e.value.value.id == "self"):
                    raise Refusal(item, f"{cls}: an operand of the shape assertion is not self.<field>.shape")
                ops_.append(e.value.attr)
            if ci > 0 and not (set(ops_) & set(names)):
                raise Refusal(item, f"{cls}: the conjuncts of the shape assertion are not connected")
            names += [x for x in ops_ if x not in names]
        same.append((cls, names))
        # the declared types: np.array(self.<field>.shape, dtype=int) on both sides
        srcs = set()
        for st in body[1:]:
            if isinstance(st, ast.Assign) and len(st.targets) == 1 and isinstance(st.targets[0], ast.Attribute) \
                    and st.targets[0].attr in ("input_type", "output_type"):
                d = st.value
                ok = isinstance(d, ast.Dict) and len(d.keys) == 1 and isinstance(d.keys[0], ast.Constant) \
                    and d.keys[0].value == st.targets[0].attr.split("_")[0]
                v = d.values[0] if ok else None
                ok = ok and isinstance(v, ast.Call) and ExprT(item, "num", {}).dotted(v.func) == "np.array" and len(v.args) == 1 \
                    and isinstance(v.args[0], ast.Attribute) and v.args[0].attr == "shape" \
                    and isinstance(v.args[0].value, ast.Attribute) and isinstance(v.args[0].value.value, ast.Name) \
                    and v.args[0].value.value.id == "self" \
                    and [(k.arg, getattr(k.value, "id", None)) for k in v.keywords] == [("dtype", "int")]
                if not ok:
                    raise Refusal(item, f"{cls}: {st.targets[0].attr} is not {{'<port>': np.array(self.<field>.shape, dtype=int)}}")
                srcs.add((st.targets[0].attr, v.args[0].value.attr))
        if {a for a, _ in srcs} != {"input_type", "output_type"} or len({b for _, b in srcs}) != 1:
            raise Refusal(item, f"{cls}: input_type / output_type are not both taken from one parameter's shape")
        src.append((cls, srcs.pop()[1]))
    lst = lambda xs: "[" + ", ".join(lean_str(x) for x in xs) + "]"
    txt = HEADER + "\nnamespace NirVerif.Generated\n\n/-- per neuron class: the parameters whose shapes the constructor's first assertion compares (in order) -/\n" \
        "def sameShapeFields : List (String × List String) :=\n  [" + ",\n   ".join(f"({lean_str(c)}, {lst(ns)})" for c, ns in same) + "]\n\n" \
        "/-- per neuron class: the parameter whose shape both declared types are taken from -/\n" \
        "def typeSourceField : List (String × String) :=\n  [" + ", ".join(f"({lean_str(c)}, {lean_str(f)})" for c, f in src) + "]\n\nend NirVerif.Generated\n"
    return {"NeuronShapes.lean": txt}



# ---------------------------------------------------------------------------------------
# T10  constructor guards: minimal weight rank of Affine / Linear, padding-string whitelist of Conv1d / Conv2d
# ---------------------------------------------------------------------------------------
def t10_guards():
    item = "T10"
    lin = ast.parse(_src("nir/ir/linear.py"))
    ranks = []
    for cls in ("Affine", "Linear"):
        fn = _find_func(lin, "__post_init__", cls)
        if fn is None:
            raise Refusal(item, f"{cls}.__post_init__ not found")
        body = [st for st in fn.body if not (isinstance(st, ast.Expr) and isinstance(st.value, ast.Constant))]
        t = body[0].test if body and isinstance(body[0], ast.Assert) else None
        ok = isinstance(t, ast.Compare) and len(t.ops) == 1 and isinstance(t.ops[0], (ast.GtE, ast.Gt)) \
            and ast.dump(t.left) == "Call(func=Name(id='len', ctx=Load()), args=[Attribute(value=Attribute(value=Name(id='self', " \
                                    "ctx=Load()), attr='weight', ctx=Load()), attr='shape', ctx=Load())], keywords=[])" \
            and isinstance(t.comparators[0], ast.Constant) and isinstance(t.comparators[0].value, int)
        if not ok:
            raise Refusal(item, f"{cls}: the first statement is not `assert len(self.weight.shape) >= <int>`")
        k = t.comparators[0].value + (1 if isinstance(t.ops[0], ast.Gt) else 0)
        ranks.append((cls, k))
    conv = ast.parse(_src("nir/ir/conv.py"))
    wl, tys = [], []
    for cls in ("Conv1d", "Conv2d"):
        fn = _find_func(conv, "__post_init__", cls)
        if fn is None:
            raise Refusal(item, f"{cls}.__post_init__ not found")
        body = [st for st in fn.body if not (isinstance(st, ast.Expr) and isinstance(st.value, ast.Constant))]
        st = body[0] if body else None
        if not (isinstance(st, ast.If) and not st.orelse and len(st.body) == 1 and isinstance(st.body[0], ast.Raise)):
            raise Refusal(item, f"{cls}: __post_init__ does not begin with the padding guard `if …: raise …`")
        exc = st.body[0].exc
        if not (isinstance(exc, ast.Call) and isinstance(exc.func, ast.Name) and exc.func.id == "ValueError"):
            raise Refusal(item, f"{cls}: the padding guard does not raise ValueError")
        t = st.test
        if not (isinstance(t, ast.BoolOp) and isinstance(t.op, ast.And) and len(t.values) == 2):
            raise Refusal(item, f"{cls}: padding guard is not `isinstance(self.padding, …) and self.padding not in […]`")
        a, b = t.values
        pad = "Attribute(value=Name(id='self', ctx=Load()), attr='padding', ctx=Load())"
        if not (isinstance(a, ast.Call) and isinstance(a.func, ast.Name) and a.func.id == "isinstance" and len(a.args) == 2
                and ast.dump(a.args[0]) == pad):
            raise Refusal(item, f"{cls}: padding guard does not test isinstance(self.padding, …)")
        tt = a.args[1]
        names = [e.id for e in tt.elts] if isinstance(tt, ast.Tuple) and all(isinstance(e, ast.Name) for e in tt.elts) else \
            ([tt.id] if isinstance(tt, ast.Name) else None)
        if names is None:
            raise Refusal(item, f"{cls}: the types of the padding guard are not plain names")
        if not (isinstance(b, ast.Compare) and len(b.ops) == 1 and isinstance(b.ops[0], ast.NotIn) and ast.dump(b.left) == pad
                and isinstance(b.comparators[0], (ast.List, ast.Tuple, ast.Set))
                and all(isinstance(e, ast.Constant) and isinstance(e.value, str) for e in b.comparators[0].elts)):
            raise Refusal(item, f"{cls}: padding guard does not test `self.padding not in [<string literals>]`")
        wl.append((cls, [e.value for e in b.comparators[0].elts]))
        tys.append((cls, names))
    lst = lambda xs: "[" + ", ".join(lean_str(x) for x in xs) + "]"
    txt = HEADER + "\nnamespace NirVerif.Generated\n\n" \
        "/-- `assert len(self.weight.shape) >= k` at the top of `Affine` / `Linear.__post_init__` -/\n" \
        "def minWeightRank : List (String × Nat) := [" + ", ".join(f"({lean_str(c)}, {k})" for c, k in ranks) + "]\n\n" \
        "/-- the padding guard at the top of `Conv1d` / `Conv2d.__post_init__`: `isinstance(self.padding, <types>) and\n" \
        "self.padding not in <whitelist>` raises ValueError -/\n" \
        "def paddingWhitelist : List (String × List String) := [" + ", ".join(f"({lean_str(c)}, {lst(w)})" for c, w in wl) + "]\n" \
        "def paddingGuardTypes : List (String × List String) := [" + ", ".join(f"({lean_str(c)}, {lst(w)})" for c, w in tys) + "]\n\n" \
        "end NirVerif.Generated\n"
    return {"Guards.lean": txt}



# ---------------------------------------------------------------------------------------
# T11  class-specific dictionary entries: Input / Output `shape`, Flatten `input_type` (to_dict and from_dict)
# ---------------------------------------------------------------------------------------
def t11_dict_overrides():
    item = "T11"
    gtree = ast.parse(_src("nir/ir/graph.py"))
    ftree = ast.parse(_src("nir/ir/flatten.py"))
    to_rows, from_rows = [], []
    for cls, tree in (("Input", gtree), ("Output", gtree), ("Flatten", ftree)):
        fn = _find_func(tree, "to_dict", cls)
        if fn is None:
            raise Refusal(item, f"{cls}.to_dict not found")
        body = [st for st in fn.body if not (isinstance(st, ast.Expr) and isinstance(st.value, ast.Constant))]
        ok = len(body) == 3 and ast.dump(body[0]) == "Assign(targets=[Name(id='ret', ctx=Store())], value=Call(func=Attribute(" \
            "value=Call(func=Name(id='super', ctx=Load()), args=[], keywords=[]), attr='to_dict', ctx=Load()), args=[], keywords=[]))" \
            and isinstance(body[2], ast.Return) and isinstance(body[2].value, ast.Name) and body[2].value.id == "ret"
        st = body[1] if ok else None
        ok = ok and isinstance(st, ast.Assign) and len(st.targets) == 1 and isinstance(st.targets[0], ast.Subscript) \
            and isinstance(st.targets[0].value, ast.Name) and st.targets[0].value.id == "ret" \
            and isinstance(st.targets[0].slice, ast.Constant) and isinstance(st.targets[0].slice.value, str)
        if not ok:
            raise Refusal(item, f"{cls}.to_dict is not `ret = super().to_dict(); ret[<key>] = …; return ret`")
        v = st.value
        copied = False
        if isinstance(v, ast.Call) and ExprT(item, "num", {}).dotted(v.func) in ("deepcopy", "copy.deepcopy") and len(v.args) == 1 and not v.keywords:
            v = v.args[0]; copied = True
        if not (isinstance(v, ast.Subscript) and isinstance(v.slice, ast.Constant) and isinstance(v.slice.value, str)
                and isinstance(v.value, ast.Attribute) and isinstance(v.value.value, ast.Name) and v.value.value.id == "self"
                and v.value.attr in ("input_type", "output_type")):
            raise Refusal(item, f"{cls}.to_dict: the stored value is not [deepcopy of] self.<type>[<port>]")
        if not copied:
            raise Refusal(item, f"{cls}.to_dict stores the node's own array (no deepcopy)")
        to_rows.append((cls, st.targets[0].slice.value, v.value.attr, v.slice.value))
    txt = HEADER + "\nnamespace NirVerif.Generated\n\n" \
        "/-- class-specific entry added by `to_dict`: (class, key, the type attribute read, the port read); the value is deep-copied -/\n" \
        "def dictOverrides : List (String × String × String × String) :=\n  [" + \
        ", ".join(f"({lean_str(c)}, {lean_str(k)}, {lean_str(a)}, {lean_str(p_)})" for c, k, a, p_ in to_rows) + "]\n\nend NirVerif.Generated\n"
    return {"DictOverrides.lean": txt}



# ---------------------------------------------------------------------------------------
# T12  NIRGraph.__post_init__: how the graph-level input_type / output_type are derived from the children
# ---------------------------------------------------------------------------------------
def t12_graph_interface():
    item = "T12"
    tree = ast.parse(_src("nir/ir/graph.py"))
    fn = _find_func(tree, "__post_init__", "NIRGraph")
    if fn is None:
        raise Refusal(item, "NIRGraph.__post_init__ not found")
    body = [st for st in fn.body if not (isinstance(st, ast.Expr) and isinstance(st.value, ast.Constant))]
    keys = {}      # list variable -> class name
    rows = []
    for st in body:
        if not (isinstance(st, ast.Assign) and len(st.targets) == 1):
            raise Refusal(item, "a statement of __post_init__ is not a plain assignment")
        tg, v = st.targets[0], st.value
        if isinstance(tg, ast.Name):
            ok = isinstance(v, ast.ListComp) and isinstance(v.elt, ast.Name) and len(v.generators) == 1
            g = v.generators[0] if ok else None
            ok = ok and isinstance(g.target, ast.Tuple) and len(g.target.elts) == 2 and getattr(g.target.elts[0], "id", None) == v.elt.id \
                and isinstance(g.target.elts[1], ast.Name) \
                and ast.dump(g.iter) == "Call(func=Attribute(value=Attribute(value=Name(id='self', ctx=Load()), attr='nodes', ctx=Load()), " \
                                        "attr='items', ctx=Load()), args=[], keywords=[])" \
                and len(g.ifs) == 1 and isinstance(g.ifs[0], ast.Call) and getattr(g.ifs[0].func, "id", None) == "isinstance" \
                and len(g.ifs[0].args) == 2 and getattr(g.ifs[0].args[0], "id", None) == g.target.elts[1].id and isinstance(g.ifs[0].args[1], ast.Name)
            if not ok:
                raise Refusal(item, f"{tg.id} is not `[k for k, node in self.nodes.items() if isinstance(node, <Class>)]`")
            keys[tg.id] = g.ifs[0].args[1].id
        elif isinstance(tg, ast.Attribute) and isinstance(tg.value, ast.Name) and tg.value.id == "self" and tg.attr in ("input_type", "output_type"):
            none_when_empty = False
            d = v
            if isinstance(v, ast.IfExp):
                t = v.test
                ok = isinstance(t, ast.Compare) and len(t.ops) == 1 and isinstance(t.ops[0], ast.Gt) \
                    and isinstance(t.left, ast.Call) and getattr(t.left.func, "id", None) == "len" and len(t.left.args) == 1 \
                    and isinstance(t.left.args[0], ast.Name) and isinstance(t.comparators[0], ast.Constant) and t.comparators[0].value == 0 \
                    and isinstance(v.orelse, ast.Constant) and v.orelse.value is None
                if not ok:
                    raise Refusal(item, f"self.{tg.attr}: the conditional is not `… if len(<keys>) > 0 else None`")
                none_when_empty = True
                d = v.body
                guard_var = t.left.args[0].id
            ok = isinstance(d, ast.DictComp) and isinstance(d.key, ast.Name) and len(d.generators) == 1 \
                and isinstance(d.generators[0].target, ast.Name) and d.generators[0].target.id == d.key.id \
                and isinstance(d.generators[0].iter, ast.Name) and not d.generators[0].ifs \
                and isinstance(d.value, ast.Attribute) and d.value.attr in ("input_type", "output_type") \
                and ast.dump(d.value.value) == f"Subscript(value=Attribute(value=Name(id='self', ctx=Load()), attr='nodes', ctx=Load()), " \
                                               f"slice=Name(id='{d.key.id}', ctx=Load()), ctx=Load())"
            if not ok:
                raise Refusal(item, f"self.{tg.attr} is not `{{key: self.nodes[key].<type> for key in <keys>}}`")
            kv = d.generators[0].iter.id
            if kv not in keys or (none_when_empty and guard_var != kv):
                raise Refusal(item, f"self.{tg.attr}: the key list is not one computed above")
            rows.append((tg.attr, keys[kv], d.value.attr, none_when_empty))
        else:
            raise Refusal(item, "an assignment of __post_init__ targets something else than a local or self.<type>")
    if sorted(r[0] for r in rows) != ["input_type", "output_type"]:
        raise Refusal(item, "__post_init__ does not assign input_type and output_type exactly once each")
    txt = HEADER + "\nnamespace NirVerif.Generated\n\n" \
        "/-- `NIRGraph.__post_init__`: (graph-level attribute, class of the children it collects, child attribute it maps their\n" \
        "names to, `None` instead of the empty dictionary when there is no such child) -/\n" \
        "def graphPortSpec : List (String × String × String × Bool) :=\n  [" + \
        ", ".join(f"({lean_str(a)}, {lean_str(c)}, {lean_str(b)}, {'true' if n else 'false'})" for a, c, b, n in rows) + "]\n\nend NirVerif.Generated\n"
    return {"GraphInterface.lean": txt}



# ---------------------------------------------------------------------------------------
# T13  nir.write: refused characters in names, the metadata rule, the two root members
# ---------------------------------------------------------------------------------------
def t13_write_shape():
    item = "T13"
    tree = ast.parse(_src("nir/serialization.py"))
    fn = _find_func(tree, "write")
    if fn is None:
        raise Refusal(item, "write not found")
    inner = [n for n in fn.body if isinstance(n, ast.FunctionDef) and n.name == "write_recursive"]
    if len(inner) != 1:
        raise Refusal(item, "write does not define write_recursive")
    wr = inner[0]
    if len(wr.args.args) != 2 or len(fn.args.args) != 2:
        raise Refusal(item, "write / write_recursive do not take two parameters")
    p_group, p_dict = [a.arg for a in wr.args.args]
    p_graph = fn.args.args[1].arg
    loops = [st for st in wr.body if isinstance(st, ast.For)]
    if len(loops) != 1 or ast.dump(loops[0].iter) != f"Call(func=Attribute(value=Name(id='{p_dict}', ctx=Load()), attr='items', ctx=Load()), args=[], keywords=[])":
        raise Refusal(item, "write_recursive is not one loop over node.items()")
    kname = loops[0].target.elts[0].id if isinstance(loops[0].target, ast.Tuple) else None
    vname = loops[0].target.elts[1].id if isinstance(loops[0].target, ast.Tuple) else None
    body = loops[0].body
    if len(body) != 2 or not all(isinstance(b, ast.If) for b in body):
        raise Refusal(item, "loop body is not `if <bad name>: raise` followed by the dispatch on the value")
    g0 = body[0]
    tests = g0.test.values if isinstance(g0.test, ast.BoolOp) and isinstance(g0.test.op, ast.Or) else [g0.test]
    bad = []
    for t in tests:
        ok = isinstance(t, ast.Compare) and len(t.ops) == 1 and isinstance(t.ops[0], ast.In) and isinstance(t.left, ast.Constant) \
            and isinstance(t.left.value, str) and ast.dump(t.comparators[0]) == f"Call(func=Name(id='str', ctx=Load()), args=[Name(id='{kname}', ctx=Load())], keywords=[])"
        if not ok:
            raise Refusal(item, "name guard is not a disjunction of `<literal> in str(k)`")
        bad.append(t.left.value)
    if not (len(g0.body) == 1 and isinstance(g0.body[0], ast.Raise) and isinstance(g0.body[0].exc, ast.Call)
            and getattr(g0.body[0].exc.func, "id", None) == "ValueError" and not g0.orelse):
        raise Refusal(item, "name guard does not raise ValueError")
    d = body[1]
    ok = isinstance(d.test, ast.Compare) and len(d.test.ops) == 1 and isinstance(d.test.ops[0], ast.Eq) \
        and getattr(d.test.left, "id", None) == kname and isinstance(d.test.comparators[0], ast.Constant) and isinstance(d.test.comparators[0].value, str)
    if not ok:
        raise Refusal(item, "the dispatch does not begin with `if k == <metadata key>`")
    mkey = d.test.comparators[0].value
    mb = d.body
    ok = len(mb) == 1 and isinstance(mb[0], ast.If) and not mb[0].orelse and \
        ast.dump(mb[0].test) == f"UnaryOp(op=Not(), operand=Compare(left=Name(id='{vname}', ctx=Load()), ops=[Eq()], comparators=[Dict(keys=[], values=[])]))" \
        and len(mb[0].body) == 1 and ast.dump(mb[0].body[0]) == \
        f"Expr(value=Call(func=Name(id='write_recursive', ctx=Load()), args=[Call(func=Attribute(value=Name(id='{p_group}', ctx=Load()), attr='create_group', " \
        f"ctx=Load()), args=[Name(id='{kname}', ctx=Load())], keywords=[]), Name(id='{vname}', ctx=Load())], keywords=[]))"
    if not ok:
        raise Refusal(item, "metadata branch is not `if not v == {}: write_recursive(group.create_group(k), v)`")
    # the root: exactly one `with h5py.File(...) as f` holding version dataset, node group, recursive call on graph.to_dict()
    withs = [st for st in fn.body if isinstance(st, ast.With)]
    if len(withs) != 1:
        raise Refusal(item, "write does not have exactly one with-block")
    wb = withs[0].body
    fvar = withs[0].items[0].optional_vars.id if isinstance(withs[0].items[0].optional_vars, ast.Name) else None
    if len(wb) != 3:
        raise Refusal(item, f"the with-block of write has {len(wb)} statements, expected 3")
    s0, s1, s2 = wb
    ok = isinstance(s0, ast.Expr) and isinstance(s0.value, ast.Call) and ast.dump(s0.value.func) == f"Attribute(value=Name(id='{fvar}', ctx=Load()), attr='create_dataset', ctx=Load())" \
        and len(s0.value.args) == 1 and isinstance(s0.value.args[0], ast.Constant) and isinstance(s0.value.args[0].value, str) \
        and [(k.arg, ast.dump(k.value)) for k in s0.value.keywords] == [("data", "Attribute(value=Name(id='nir', ctx=Load()), attr='version', ctx=Load())")]
    if not ok:
        raise Refusal(item, "first root member is not `f.create_dataset(<name>, data=nir.version)`")
    vroot = s0.value.args[0].value
    ok = isinstance(s1, ast.Assign) and len(s1.targets) == 1 and isinstance(s1.targets[0], ast.Name) and isinstance(s1.value, ast.Call) \
        and ast.dump(s1.value.func) == f"Attribute(value=Name(id='{fvar}', ctx=Load()), attr='create_group', ctx=Load())" \
        and len(s1.value.args) == 1 and isinstance(s1.value.args[0], ast.Constant) and isinstance(s1.value.args[0].value, str) and not s1.value.keywords
    if not ok:
        raise Refusal(item, "second root member is not `<g> = f.create_group(<name>)`")
    nroot = s1.value.args[0].value
    ok = ast.dump(s2) == f"Expr(value=Call(func=Name(id='write_recursive', ctx=Load()), args=[Name(id='{s1.targets[0].id}', ctx=Load()), " \
        f"Call(func=Attribute(value=Name(id='{p_graph}', ctx=Load()), attr='to_dict', ctx=Load()), args=[], keywords=[])], keywords=[]))"
    if not ok:
        raise Refusal(item, "the node group is not filled by write_recursive(<g>, graph.to_dict())")
    txt = HEADER + "\nnamespace NirVerif.Generated\n\n" \
        "/-- substrings whose presence in a key makes `nir.write` raise ValueError (write_recursive's first test) -/\n" \
        "def forbiddenInNames : List String := [" + ", ".join(lean_str(b) for b in bad) + "]\n" \
        "/-- the key whose empty dictionary is skipped and whose non-empty dictionary becomes a group -/\n" \
        f"def metadataKey : String := {lean_str(mkey)}\n" \
        "/-- the two members of the file root: the version dataset (`nir.version`) and the group filled from `graph.to_dict()` -/\n" \
        f"def rootVersionName : String := {lean_str(vroot)}\ndef rootNodeName : String := {lean_str(nroot)}\n\nend NirVerif.Generated\n"
    return {"WriteShape.lean": txt}



# ---------------------------------------------------------------------------------------
# T14  _forward_type_inference: the skeleton of the work-list (seeding, pop discipline, seen set, what is pushed)
# ---------------------------------------------------------------------------------------
def t14_worklist():
    item = "T14"
    tree = ast.parse(_src("nir/ir/graph.py"))
    fn = _find_func(tree, "_forward_type_inference", "NIRGraph")
    if fn is None:
        raise Refusal(item, "_forward_type_inference not found")
    body = [st for st in fn.body if not (isinstance(st, ast.Expr) and isinstance(st.value, ast.Constant))]
    if len(body) != 3 or not isinstance(body[2], ast.While):
        raise Refusal(item, "the method is not `ready = …; seen = …; while …:`")
    st0, st1, loop = body

    def edge_comp(v):
        """[e for e in self.edges if <cond(e)>] -> (loop var, cond)"""
        ok = isinstance(v, ast.ListComp) and isinstance(v.elt, ast.Name) and len(v.generators) == 1 \
            and isinstance(v.generators[0].target, ast.Name) and v.generators[0].target.id == v.elt.id \
            and ast.dump(v.generators[0].iter) == "Attribute(value=Name(id='self', ctx=Load()), attr='edges', ctx=Load())" \
            and len(v.generators[0].ifs) == 1
        if not ok:
            raise Refusal(item, "a work-list comprehension is not `[e for e in self.edges if …]`")
        return v.elt.id, v.generators[0].ifs[0]

    if not (isinstance(st0, ast.Assign) and len(st0.targets) == 1 and isinstance(st0.targets[0], ast.Name)):
        raise Refusal(item, "first statement is not an assignment to the work-list")
    ready = st0.targets[0].id
    e, cond = edge_comp(st0.value)
    src = f"Subscript(value=Name(id='{e}', ctx=Load()), slice=Constant(value=0), ctx=Load())"
    tgt = f"Subscript(value=Name(id='{e}', ctx=Load()), slice=Constant(value=1), ctx=Load())"
    inputs_keys = ("Call(func=Attribute(value=Attribute(value=Name(id='self', ctx=Load()), attr='inputs', ctx=Load()), attr='keys', ctx=Load()), args=[], keywords=[])",
                   "Attribute(value=Name(id='self', ctx=Load()), attr='inputs', ctx=Load())")
    if not (isinstance(cond, ast.Compare) and len(cond.ops) == 1 and isinstance(cond.ops[0], ast.In) and ast.dump(cond.left) == src
            and ast.dump(cond.comparators[0]) in inputs_keys):
        raise Refusal(item, "the work-list is not seeded with the edges whose source is an Input (`e[0] in self.inputs.keys()`)")
    ok = isinstance(st1, ast.Assign) and len(st1.targets) == 1 and isinstance(st1.targets[0], ast.Name) and isinstance(st1.value, ast.Call) \
        and getattr(st1.value.func, "id", None) == "set" and len(st1.value.args) == 1
    comp = st1.value.args[0] if ok else None
    ok = ok and isinstance(comp, (ast.ListComp, ast.GeneratorExp, ast.SetComp)) and len(comp.generators) == 1 \
        and isinstance(comp.generators[0].target, ast.Name) and not comp.generators[0].ifs \
        and getattr(comp.generators[0].iter, "id", None) == ready \
        and ast.dump(comp.elt) == f"Subscript(value=Name(id='{comp.generators[0].target.id}', ctx=Load()), slice=Constant(value=0), ctx=Load())"
    if not ok:
        raise Refusal(item, "`seen` does not start as the set of sources of the seeded edges")
    seen = st1.targets[0].id
    t = loop.test
    ok = (isinstance(t, ast.Compare) and len(t.ops) == 1 and isinstance(t.ops[0], ast.Gt) and isinstance(t.left, ast.Call)
          and getattr(t.left.func, "id", None) == "len" and getattr(t.left.args[0], "id", None) == ready
          and isinstance(t.comparators[0], ast.Constant) and t.comparators[0].value == 0) or (isinstance(t, ast.Name) and t.id == ready)
    if not ok:
        raise Refusal(item, "the loop does not run while the work-list is non-empty")
    first = loop.body[0]
    ok = isinstance(first, ast.Assign) and len(first.targets) == 1 and isinstance(first.targets[0], ast.Tuple) \
        and len(first.targets[0].elts) == 2 and all(isinstance(x, ast.Name) for x in first.targets[0].elts) \
        and isinstance(first.value, ast.Call) and isinstance(first.value.func, ast.Attribute) and first.value.func.attr == "pop" \
        and getattr(first.value.func.value, "id", None) == ready and not first.value.keywords
    if not ok:
        raise Refusal(item, "the loop body does not begin with `(pre, post) = ready.pop(…)`")
    if first.value.args:
        a0 = first.value.args[0]
        if not (isinstance(a0, ast.Constant) and a0.value in (0, -1)):
            raise Refusal(item, "pop index is not a literal 0 / -1")
        lifo = a0.value == -1
    else:
        lifo = True
    post = first.targets[0].elts[1].id
    if len(loop.body) < 3:
        raise Refusal(item, "loop body too short")
    add, push = loop.body[-2], loop.body[-1]
    if ast.dump(add) != f"Expr(value=Call(func=Attribute(value=Name(id='{seen}', ctx=Load()), attr='add', ctx=Load()), args=[Name(id='{post}', ctx=Load())], keywords=[]))":
        raise Refusal(item, "the processed target is not added to `seen` (as one element) just before the push")
    if not (isinstance(push, ast.AugAssign) and isinstance(push.op, ast.Add) and getattr(push.target, "id", None) == ready):
        raise Refusal(item, "the loop does not end with `ready += […]`")
    e2, cond2 = edge_comp(push.value)
    src2 = f"Subscript(value=Name(id='{e2}', ctx=Load()), slice=Constant(value=0), ctx=Load())"
    tgt2 = f"Subscript(value=Name(id='{e2}', ctx=Load()), slice=Constant(value=1), ctx=Load())"
    ok = isinstance(cond2, ast.BoolOp) and isinstance(cond2.op, ast.And) and len(cond2.values) == 2
    c1, c2 = (cond2.values if ok else (None, None))
    ok = ok and isinstance(c1, ast.Compare) and isinstance(c1.ops[0], ast.Eq) and ast.dump(c1.left) == src2 and getattr(c1.comparators[0], "id", None) == post \
        and isinstance(c2, ast.Compare) and isinstance(c2.ops[0], ast.NotIn) and ast.dump(c2.left) == tgt2 and getattr(c2.comparators[0], "id", None) == seen
    if not ok:
        raise Refusal(item, "what is pushed is not `[e for e in self.edges if e[0] == post and e[1] not in seen]`")
    # nothing else touches the work-list or the seen set inside the loop
    for st in loop.body[1:-2]:
        for n in ast.walk(st):
            if isinstance(n, ast.Name) and n.id in (ready, seen) and isinstance(n.ctx, ast.Store):
                raise Refusal(item, "the work-list / seen set is re-bound inside the loop body")
            if isinstance(n, ast.Call) and isinstance(n.func, ast.Attribute) and getattr(n.func.value, "id", None) in (ready, seen):
                raise Refusal(item, "the work-list / seen set is modified inside the loop body")
    txt = HEADER + "\nnamespace NirVerif.Generated\n\n" \
        "/-- skeleton of `_forward_type_inference`: seeded with the edges leaving Input nodes (in edge order), `seen` = their\n" \
        "sources; each round pops one edge; afterwards the target is added to `seen` and the target's outgoing edges to unseen\n" \
        "nodes are appended (in edge order).  `true` = the pop takes the *last* entry (LIFO). -/\n" \
        f"def workListPopsLast : Bool := {'true' if lifo else 'false'}\n" \
        "def workListSeedsFromInputEdges : Bool := true\ndef workListPushesUnseenSuccessors : Bool := true\n\nend NirVerif.Generated\n"
    return {"WorkListShape.lean": txt}



# ---------------------------------------------------------------------------------------
# T15  _check_types: the sequence of per-edge tests and the exception each raises
# ---------------------------------------------------------------------------------------
def t15_check_errors():
    item = "T15"
    tree = ast.parse(_src("nir/ir/graph.py"))
    fn = _find_func(tree, "_check_types", "NIRGraph")
    if fn is None:
        raise Refusal(item, "_check_types not found")
    body = [st for st in fn.body if not (isinstance(st, ast.Expr) and isinstance(st.value, ast.Constant))]
    if len(body) != 2 or not isinstance(body[0], ast.For) or ast.dump(body[1]) != "Return(value=Constant(value=True))":
        raise Refusal(item, "_check_types is not `for edge in self.edges: …` followed by `return True`")
    loop = body[0]
    if ast.dump(loop.iter) != "Attribute(value=Name(id='self', ctx=Load()), attr='edges', ctx=Load())" or not isinstance(loop.target, ast.Name):
        raise Refusal(item, "the loop is not over self.edges")
    ev = loop.target.id
    lb = loop.body
    # pre / post nodes
    def node_assign(st, idx):
        return isinstance(st, ast.Assign) and len(st.targets) == 1 and isinstance(st.targets[0], ast.Name) and ast.dump(st.value) == \
            f"Subscript(value=Attribute(value=Name(id='self', ctx=Load()), attr='nodes', ctx=Load()), slice=Subscript(value=Name(id='{ev}', " \
            f"ctx=Load()), slice=Constant(value={idx}), ctx=Load()), ctx=Load())"
    if len(lb) != 8 or not node_assign(lb[0], 0) or not node_assign(lb[1], 1):
        raise Refusal(item, "loop body does not begin with pre = self.nodes[edge[0]]; post = self.nodes[edge[1]] (or has another length)")
    pre, post = lb[0].targets[0].id, lb[1].targets[0].id

    def undef(st, node, attr):
        want = f"BoolOp(op=Or(), values=[Compare(left=Attribute(value=Name(id='{node}', ctx=Load()), attr='{attr}', ctx=Load()), ops=[Is()], " \
               f"comparators=[Constant(value=None)]), Call(func=Name(id='any', ctx=Load()), args=[GeneratorExp(elt=Compare(left=Name(id='v', ctx=Load()), " \
               f"ops=[Is()], comparators=[Constant(value=None)]), generators=[comprehension(target=Name(id='v', ctx=Store()), iter=Call(func=Attribute(" \
               f"value=Attribute(value=Name(id='{node}', ctx=Load()), attr='{attr}', ctx=Load()), attr='values', ctx=Load()), args=[], keywords=[]), ifs=[], is_async=0)])], keywords=[])])"
        got = ast.dump(st.value) if isinstance(st, ast.Assign) else ""
        import re as _re
        got = _re.sub(r"Name\(id='(\w+)', ctx=(Load|Store)\(\)\)", lambda m: m.group(0) if m.group(1) in (node, "any") else f"Name(id='v', ctx={m.group(2)}())", got)
        return isinstance(st, ast.Assign) and isinstance(st.targets[0], ast.Name) and got == want

    def raises(st, flag=None):
        """`if <flag>: raise X(...)` -> X"""
        ok = isinstance(st, ast.If) and not st.orelse and isinstance(st.body[-1], ast.Raise) and isinstance(st.body[-1].exc, ast.Call) \
            and isinstance(st.body[-1].exc.func, ast.Name)
        if ok and flag is not None:
            ok = isinstance(st.test, ast.Name) and st.test.id == flag
        if not ok:
            raise Refusal(item, "a test of _check_types is not `if …: raise <Exception>(…)`")
        return st.body[-1].exc.func.id

    if not undef(lb[2], pre, "output_type") or not undef(lb[4], post, "input_type"):
        raise Refusal(item, "the definedness tests are not `<node>.<type> is None or any(v is None for v in <node>.<type>.values())` on the source's output / the target's input")
    e1 = raises(lb[3], lb[2].targets[0].id)
    e2 = raises(lb[5], lb[4].targets[0].id)
    t3 = lb[6].test if isinstance(lb[6], ast.If) else None
    want3 = f"Compare(left=Call(func=Name(id='len', ctx=Load()), args=[Attribute(value=Name(id='{pre}', ctx=Load()), attr='output_type', ctx=Load())], keywords=[]), " \
            f"ops=[NotEq()], comparators=[Call(func=Name(id='len', ctx=Load()), args=[Attribute(value=Name(id='{post}', ctx=Load()), attr='input_type', ctx=Load())], keywords=[])])"
    if t3 is None or ast.dump(t3) != want3:
        raise Refusal(item, "third test is not `len(pre.output_type) != len(post.input_type)`")
    e3 = raises(lb[6])
    st = lb[7]
    ok = isinstance(st, ast.If) and isinstance(st.test, ast.Compare) and isinstance(st.test.ops[0], ast.Eq) \
        and isinstance(st.test.comparators[0], ast.Constant) and st.test.comparators[0].value == 1 \
        and len(st.orelse) == 1 and isinstance(st.orelse[0], ast.Raise) and isinstance(st.orelse[0].exc, ast.Call)
    if not ok:
        raise Refusal(item, "last test is not `if len(…) == 1: … else: raise …`")
    e5 = st.orelse[0].exc.func.id
    inner = [x for x in st.body if isinstance(x, ast.If)]
    if len(inner) != 1 or not (isinstance(inner[0].test, ast.UnaryOp) and isinstance(inner[0].test.op, ast.Not) and isinstance(inner[0].test.operand, ast.Call)):
        raise Refusal(item, "single-port branch does not test `not <comparator>(a, b)`")
    cmp_name = ExprT(item, "num", {}).dotted(inner[0].test.operand.func)
    e4 = raises(inner[0])
    rows = [("undefined_output", e1), ("undefined_input", e2), ("length_mismatch", e3), ("shape_mismatch", e4), ("several_ports", e5)]
    txt = HEADER + "\nnamespace NirVerif.Generated\n\n" \
        "/-- `_check_types`, per edge and in this order: the condition tested and the exception raised -/\n" \
        "def checkErrors : List (String × String) :=\n  [" + ", ".join(f"({lean_str(a)}, {lean_str(b)})" for a, b in rows) + "]\n" \
        f"/-- the comparison of the two single shapes -/\ndef checkComparator : String := {lean_str(cmp_name)}\n\nend NirVerif.Generated\n"
    return {"CheckErrors.lean": txt}




# ---------------------------------------------------------------------------------------
# T16  effect summary of the observers (C17): which statements of to_dict / inputs / outputs / _check_types / write
#      store through an object reachable from the observed graph
# ---------------------------------------------------------------------------------------
_MUTATORS = {"update", "pop", "popitem", "clear", "setdefault", "append", "extend", "insert", "remove", "sort", "reverse",
             "add", "discard", "fill", "resize", "setflags", "put", "itemset", "partition", "byteswap", "setfield",
             "__setitem__", "__delitem__", "__setattr__", "__delattr__", "move_to_end"}
# calls that hand back an object sharing nothing mutable with their argument
_FRESH_FUNCS = {"asdict", "deepcopy", "copy.deepcopy", "len", "str", "repr", "type", "isinstance", "any", "all", "print", "bool", "int",
                "float", "hash", "id", "np.array_equal", "np.array", "np.shape", "np.ndim", "np.size", "sorted", "format", "tuple",
                "np.array_equiv", "np.allclose", "np.prod", "issubclass", "hasattr", "getattr"}
# calls whose result aliases their argument (shallow containers, views)
_ALIAS_FUNCS = {"list", "dict", "set", "iter", "next", "enumerate", "zip", "reversed", "np.asarray", "np.atleast_1d", "np.squeeze",
                "np.ravel", "np.reshape", "np.transpose", "copy", "copy.copy", "vars", "filter", "map"}
_FRESH_METHODS = {"to_dict", "tolist", "tobytes", "astype", "decode", "encode", "format", "join", "startswith", "endswith", "count",
                  "index", "all", "any", "sum", "item", "__len__", "__repr__", "__str__"}


class _Effects(ast.NodeVisitor):
    def __init__(self, item, where, live, local_funcs):
        self.item, self.where, self.live = item, where, set(live)
        self.local_funcs = local_funcs       # name -> FunctionDef analysed when called with a live argument
        self.stores, self.escapes, self.calls_local = [], [], []
        self.D = ExprT(item, "num", {})

    def dotted(self, e):
        try:
            return self.D.dotted(e)
        except Exception:
            return None

    def tainted(self, e):
        if isinstance(e, ast.Name):
            return e.id in self.live
        if isinstance(e, (ast.Attribute, ast.Subscript, ast.Starred)):
            return self.tainted(e.value)
        if isinstance(e, ast.IfExp):
            return self.tainted(e.body) or self.tainted(e.orelse)
        if isinstance(e, ast.BoolOp):
            return any(self.tainted(v) for v in e.values)
        if isinstance(e, ast.NamedExpr):
            return self.tainted(e.value)
        if isinstance(e, (ast.List, ast.Tuple, ast.Set)):
            return any(self.tainted(v) for v in e.elts)
        if isinstance(e, ast.Dict):
            return any(v is not None and self.tainted(v) for v in e.values)
        if isinstance(e, (ast.ListComp, ast.SetComp, ast.GeneratorExp, ast.DictComp)):
            saved = set(self.live)
            for g in e.generators:
                if self.tainted(g.iter):
                    self.bind(g.target)
            r = self.tainted(e.value if isinstance(e, ast.DictComp) else e.elt)
            self.live = saved
            return r
        if isinstance(e, ast.Call):
            f = e.func
            if isinstance(f, ast.Attribute) and isinstance(f.value, ast.Call) and self.dotted(f.value.func) == "super":
                return False
            name = self.dotted(f)
            args = list(e.args) + [k.value for k in e.keywords]
            if name in _FRESH_FUNCS:
                return False
            if name in _ALIAS_FUNCS:
                return any(self.tainted(a) for a in args)
            if isinstance(f, ast.Attribute) and self.tainted(f.value):
                return f.attr not in _FRESH_METHODS
            return False
        return False

    def bind(self, target):
        for n in ast.walk(target):
            if isinstance(n, ast.Name):
                self.live.add(n.id)

    def note(self, node, what):
        self.stores.append((self.where, f"line {node.lineno - self.base + 1}: {what}"))

    def run(self, fn):
        self.base = fn.lineno
        # two passes so that aliases bound late in a loop body are seen at its top
        for _ in range(2):
            self.stores, self.escapes, self.calls_local = [], [], []
            for st in fn.body:
                self.visit(st)
        return self

    def visit_FunctionDef(self, node):
        pass                                   # nested definitions are analysed at their call sites

    def target(self, t, node):
        if isinstance(t, (ast.Tuple, ast.List)):
            for x in t.elts:
                self.target(x, node)
        elif isinstance(t, (ast.Attribute, ast.Subscript)) and self.tainted(t.value):
            self.note(node, "store through " + ast.unparse(t))

    def visit_Assign(self, node):
        self.visit(node.value)
        for t in node.targets:
            self.target(t, node)
            if self.tainted(node.value):
                if isinstance(t, ast.Name):
                    self.live.add(t.id)
                elif isinstance(t, (ast.Tuple, ast.List)):
                    self.bind(t)
            elif isinstance(t, ast.Name):
                self.live.discard(t.id) if not self._in_loop else None

    _in_loop = False

    def visit_AnnAssign(self, node):
        if node.value is not None:
            self.visit(node.value)
            self.target(node.target, node)
            if self.tainted(node.value) and isinstance(node.target, ast.Name):
                self.live.add(node.target.id)

    def visit_AugAssign(self, node):
        self.visit(node.value)
        t = node.target
        if isinstance(t, ast.Name):
            if t.id in self.live:
                self.note(node, "in-place operator on " + t.id)
        else:
            self.target(t, node)

    def visit_Delete(self, node):
        for t in node.targets:
            self.target(t, node)

    def visit_For(self, node):
        self.visit(node.iter)
        if self.tainted(node.iter):
            self.bind(node.target)
        old, self._in_loop = self._in_loop, True
        for st in node.body + node.orelse:
            self.visit(st)
        self._in_loop = old

    def visit_While(self, node):
        old, self._in_loop = self._in_loop, True
        self.generic_visit(node)
        self._in_loop = old

    def visit_With(self, node):
        for it in node.items:
            self.visit(it.context_expr)
            if it.optional_vars is not None and self.tainted(it.context_expr):
                self.bind(it.optional_vars)
        for st in node.body:
            self.visit(st)

    def visit_comp(self, node):
        saved = set(self.live)
        for g in node.generators:
            self.visit(g.iter)
            if self.tainted(g.iter):
                self.bind(g.target)
            for c in g.ifs:
                self.visit(c)
        if isinstance(node, ast.DictComp):
            self.visit(node.key); self.visit(node.value)
        else:
            self.visit(node.elt)
        self.live = saved

    visit_ListComp = visit_SetComp = visit_GeneratorExp = visit_DictComp = visit_comp

    def visit_NamedExpr(self, node):
        self.visit(node.value)
        if self.tainted(node.value):
            self.live.add(node.target.id)

    def visit_Call(self, node):
        f = node.func
        name = self.dotted(f)
        args = list(node.args) + [k.value for k in node.keywords]
        live_args = [a for a in args if self.tainted(a)]
        for k in node.keywords:
            if k.arg == "out" and self.tainted(k.value):
                self.note(node, "out= names " + ast.unparse(k.value))
        if name in ("setattr", "delattr", "object.__setattr__", "object.__delattr__") and live_args:
            self.note(node, name + " on " + ast.unparse(live_args[0]))
        elif isinstance(f, ast.Attribute) and self.tainted(f.value):
            if f.attr in _MUTATORS:
                self.note(node, "mutating call " + ast.unparse(f))
            elif f.attr.startswith("_") and not f.attr.startswith("__"):
                self.escapes.append((self.where, ast.unparse(f)))      # private helper of the observed object
        elif isinstance(f, ast.Name) and f.id in self.local_funcs:
            self.calls_local.append((f.id, [self.tainted(a) for a in node.args]))
        elif live_args and name not in _FRESH_FUNCS and name not in _ALIAS_FUNCS \
                and not (isinstance(f, ast.Attribute) and isinstance(f.value, ast.Call) and self.dotted(f.value.func) == "super"):
            self.escapes.append((self.where, (name or ast.unparse(f)) + "(" + ", ".join(ast.unparse(a) for a in live_args) + ")"))
        self.generic_visit(node)


def t16_observer_effects():
    item = "T16"
    import glob
    observers, stores, escapes = [], [], []

    def analyse(fn, where, live, local_funcs=None):
        ef = _Effects(item, where, live, local_funcs or {}).run(fn)
        stores.extend(ef.stores); escapes.extend(ef.escapes)
        return ef

    for path in sorted(glob.glob(os.path.join(REPO, "nir", "ir", "*.py"))):
        rel = os.path.relpath(path, REPO)
        tree = ast.parse(_src(rel))
        for cls in [n for n in tree.body if isinstance(n, ast.ClassDef)]:
            last = {}
            for sub in cls.body:
                if isinstance(sub, ast.FunctionDef):
                    last[sub.name] = sub
            for nm in ("to_dict", "inputs", "outputs", "_check_types"):
                fn = last.get(nm)
                if fn is None or (nm != "to_dict" and cls.name != "NIRGraph"):
                    continue
                if not fn.args.args or fn.args.args[0].arg != "self":
                    raise Refusal(item, f"{cls.name}.{nm} does not take self first")
                observers.append(f"{cls.name}.{nm}")
                analyse(fn, f"{cls.name}.{nm}", {"self"})
    stree = ast.parse(_src("nir/serialization.py"))
    w = _find_func(stree, "write")
    if w is None or len(w.args.args) != 2:
        raise Refusal(item, "serialization.write(filename, graph) not found")
    gname = w.args.args[1].arg
    local = {sub.name: sub for sub in ast.walk(w) if isinstance(sub, ast.FunctionDef) and sub is not w}
    observers.append("write")
    ef = analyse(w, "write", {gname}, local)
    # nested helpers: analysed with exactly those parameters live that some call site passes a live object for
    # (the recursive calls inside the helper pass parts of its own parameters, so a fixed point over the call sites)
    live_params = {nm: set() for nm in local}
    pending = list(ef.calls_local)
    for _ in range(8):
        grew = False
        for nm, flags in pending:
            ps = [a.arg for a in local[nm].args.args]
            for pn, fl in zip(ps, flags):
                if fl and pn not in live_params[nm]:
                    live_params[nm].add(pn); grew = True
        pending = []
        for nm, fn in local.items():
            e2 = _Effects(item, f"write.{nm}", live_params[nm], local).run(fn)
            pending.extend(e2.calls_local)
        if not grew:
            break
    for nm, fn in local.items():
        analyse(fn, f"write.{nm}", live_params[nm], local)
    # state that outlives a call and can be shared between the results of separate calls (C17: separate reads are independent):
    # mutable default arguments, memoising decorators, `global`/`nonlocal` rebinding at module level, memory maps of the file,
    # module-level containers mutated from inside a function
    shared = []
    for path in sorted(glob.glob(os.path.join(REPO, "nir", "**", "*.py"), recursive=True)):
        rel = os.path.relpath(path, REPO)
        tree = ast.parse(_src(rel))
        D = ExprT(item, "num", {})
        dn = lambda e: (D.dotted(e) if isinstance(e, (ast.Name, ast.Attribute)) else None)
        module_mut = set()
        for st in tree.body:
            if isinstance(st, (ast.Assign, ast.AnnAssign)) and st.value is not None and \
                    (isinstance(st.value, (ast.Dict, ast.List, ast.Set, ast.ListComp, ast.DictComp, ast.SetComp)) or
                     (isinstance(st.value, ast.Call) and dn(st.value.func) in ("dict", "list", "set", "defaultdict", "collections.defaultdict",
                                                                             "OrderedDict", "collections.OrderedDict", "WeakValueDictionary",
                                                                             "weakref.WeakValueDictionary"))):
                for t in (st.targets if isinstance(st, ast.Assign) else [st.target]):
                    if isinstance(t, ast.Name) and t.id != "__all__" and not t.id.startswith("__all"):
                        module_mut.add(t.id)
        for fn in [n for n in ast.walk(tree) if isinstance(n, (ast.FunctionDef, ast.AsyncFunctionDef, ast.Lambda))]:
            nm = getattr(fn, "name", "<lambda>")
            for d in list(fn.args.defaults) + [d for d in fn.args.kw_defaults if d is not None]:
                if isinstance(d, (ast.Dict, ast.List, ast.Set, ast.ListComp, ast.DictComp, ast.SetComp)) or \
                        (isinstance(d, ast.Call) and dn(d.func) not in ("field", "dataclasses.field", "tuple", "frozenset")):
                    shared.append((f"{rel}:{nm}", "mutable default argument " + ast.unparse(d)))
            for dec in getattr(fn, "decorator_list", []):
                dd = dn(dec.func if isinstance(dec, ast.Call) else dec) or ""
                if dd.split(".")[-1] in ("lru_cache", "cache", "cached_property", "memoize"):
                    shared.append((f"{rel}:{nm}", "memoised by @" + dd))
            if isinstance(fn, ast.Lambda):
                continue
            local_names = {a.arg for a in fn.args.args + fn.args.kwonlyargs} | \
                {t.id for n in ast.walk(fn) for t in ast.walk(n) if isinstance(n, (ast.Assign, ast.For, ast.comprehension, ast.With))
                 and isinstance(t, ast.Name) and isinstance(t.ctx, ast.Store)}
            for n in ast.walk(fn):
                if isinstance(n, (ast.Global, ast.Nonlocal)) and isinstance(n, ast.Global):
                    shared.append((f"{rel}:{nm}", "global " + ", ".join(n.names)))
                if isinstance(n, ast.Call) and (dn(n.func) or "").split(".")[-1] in ("memmap", "open_memmap", "frombuffer", "mmap"):
                    shared.append((f"{rel}:{nm}", "maps a buffer: " + dn(n.func)))
                if isinstance(n, ast.Call) and isinstance(n.func, ast.Attribute) and n.func.attr in _MUTATORS and \
                        isinstance(n.func.value, ast.Name) and n.func.value.id in module_mut and n.func.value.id not in local_names:
                    shared.append((f"{rel}:{nm}", "mutates module-level " + n.func.value.id))
                if isinstance(n, (ast.Assign, ast.AugAssign, ast.Delete)):
                    for t in (n.targets if not isinstance(n, ast.AugAssign) else [n.target]):
                        if isinstance(t, ast.Subscript) and isinstance(t.value, ast.Name) and t.value.id in module_mut \
                                and t.value.id not in local_names:
                            shared.append((f"{rel}:{nm}", "stores into module-level " + t.value.id))
        for cls in [n for n in ast.walk(tree) if isinstance(n, ast.ClassDef)]:
            for st in cls.body:
                if isinstance(st, (ast.Assign, ast.AnnAssign)) and st.value is not None and \
                        isinstance(st.value, (ast.Dict, ast.List, ast.Set)):
                    shared.append((f"{rel}:{cls.name}", "mutable class-level default " + ast.unparse(st)))
    # hooks that change what attribute access, copying or the observers themselves do without a visible statement in their
    # bodies: attribute / copy protocol methods on any class under nir/, and decorators on observers, on the reader and the writer
    hooks = []
    benign = {"property", "classmethod", "staticmethod", "dataclass"}
    for path in sorted(glob.glob(os.path.join(REPO, "nir", "**", "*.py"), recursive=True)):
        rel = os.path.relpath(path, REPO)
        tree = ast.parse(_src(rel))
        D2 = ExprT(item, "num", {})
        for cls in [n for n in ast.walk(tree) if isinstance(n, ast.ClassDef)]:
            for sub in cls.body:
                if isinstance(sub, ast.FunctionDef) and sub.name in (
                        "__setattr__", "__getattribute__", "__getattr__", "__delattr__", "__new__", "__copy__", "__deepcopy__",
                        "__reduce__", "__reduce_ex__", "__getstate__", "__setstate__", "__init_subclass__", "__set_name__",
                        "__class_getitem__", "__hash__", "__del__"):
                    hooks.append((f"{rel}:{cls.name}", "defines " + sub.name))
                if isinstance(sub, ast.FunctionDef) and sub.name in ("to_dict", "from_dict", "inputs", "outputs", "_check_types",
                                                                      "infer_types", "_forward_type_inference", "__post_init__"):
                    for dec in sub.decorator_list:
                        dd = (D2.dotted(dec.func if isinstance(dec, ast.Call) else dec) if isinstance(dec.func if isinstance(dec, ast.Call) else dec, (ast.Name, ast.Attribute)) else None) or ast.unparse(dec)
                        if dd.split(".")[-1] not in benign:
                            hooks.append((f"{rel}:{cls.name}.{sub.name}", "decorated with @" + dd))
        if rel.endswith("serialization.py") or rel.endswith(os.path.join("ir", "utils.py")) or rel.endswith(os.path.join("ir", "__init__.py")):
            for fn in [n for n in tree.body if isinstance(n, ast.FunctionDef)]:
                for dec in fn.decorator_list:
                    hooks.append((f"{rel}:{fn.name}", "decorated with @" + ast.unparse(dec)))
    need = ["NIRNode.to_dict", "NIRGraph.to_dict", "NIRGraph.inputs", "NIRGraph.outputs", "NIRGraph._check_types", "write"]
    miss = [n for n in need if n not in observers]
    if miss:
        raise Refusal(item, f"observers not found: {miss}")
    row = lambda r: f"({lean_str(r[0])}, {lean_str(r[1])})"
    dedup = lambda xs: sorted(set(xs))
    txt = HEADER + "\nnamespace NirVerif.Generated.ObserverEffects\n\n" \
        "/-- the observers of C17 whose bodies were read (class-specific `to_dict` overrides included) -/\n" \
        "def observers : List String :=\n  [" + ", ".join(lean_str(o) for o in observers) + "]\n\n" \
        "/-- statements that store through an object reachable from the observed graph: assignments / deletions / in-place operators\n" \
        "    whose target is rooted in `self` (or `graph`) or in a local alias of it, calls of mutating container / array methods on\n" \
        "    such an object, `setattr`/`delattr`, `out=` -/\n" \
        "def stores : List (String × String) :=\n  [" + ", ".join(row(r) for r in dedup(stores)) + "]\n\n" \
        "/-- calls that hand an object reachable from the graph to code outside the table of known readers (or to a private helper of\n" \
        "    the object) -/\n" \
        "def escapes : List (String × String) :=\n  [" + ", ".join(row(r) for r in dedup(escapes)) + "]\n\n" \
        "/-- state in `nir/` that outlives a call and could be shared between the results of separate calls: mutable default\n" \
        "    arguments, memoising decorators, `global`, memory maps / buffer views, module-level containers mutated by a function,\n" \
        "    mutable class-level defaults -/\n" \
        "def sharedState : List (String × String) :=\n  [" + ", ".join(row(r) for r in dedup(shared)) + "]\n\n" \
        "/-- hooks that act without a statement in the bodies read above: attribute / copy protocol methods (`__setattr__`,\n" \
        "    `__getattribute__`, `__deepcopy__`, `__hash__`, …) defined by a class under `nir/`; decorators other than `property` /\n" \
        "    `classmethod` / `staticmethod` on `to_dict`, `from_dict`, the accessors, the type check, inference and `__post_init__`;\n" \
        "    any decorator on a module-level function of `serialization.py`, `ir/utils.py`, `ir/__init__.py` -/\n" \
        "def hooks : List (String × String) :=\n  [" + ", ".join(row(r) for r in dedup(hooks)) + "]\n\nend NirVerif.Generated.ObserverEffects\n"
    return {"ObserverEffects.lean": txt}


# ---------------------------------------------------------------------------------------
# T17  the declared types of the parameterised primitives as the constructors spell them (C05)
# ---------------------------------------------------------------------------------------
def t17_declared_types():
    item = "T17"
    D = ExprT(item, "num", {})
    rows = []

    def shape_of_self(e):
        """self.<f>.shape -> f"""
        if isinstance(e, ast.Attribute) and e.attr == "shape" and isinstance(e.value, ast.Attribute) \
                and isinstance(e.value.value, ast.Name) and e.value.value.id == "self":
            return e.value.attr
        return None

    def const_int(e):
        if e is None:
            return None
        if isinstance(e, ast.Constant) and isinstance(e.value, int) and not isinstance(e.value, bool):
            return e.value
        if isinstance(e, ast.UnaryOp) and isinstance(e.op, ast.USub) and isinstance(e.operand, ast.Constant) \
                and isinstance(e.operand.value, int):
            return -e.operand.value
        raise Refusal(item, f"slice bound is not an integer literal: {ast.unparse(e)}")

    def opt(i):
        return "none" if i is None else f"(some ({i}))"

    def tr(e, cls):
        f = shape_of_self(e)
        if f is not None:
            return f"(.whole {lean_str(f)})"
        if isinstance(e, ast.Subscript) and shape_of_self(e.value) is not None and isinstance(e.slice, ast.Slice) and e.slice.step is None:
            return f"(.slice {lean_str(shape_of_self(e.value))} {opt(const_int(e.slice.lower))} {opt(const_int(e.slice.upper))})"
        if isinstance(e, ast.Tuple) and len(e.elts) == 1 and isinstance(e.elts[0], ast.Subscript) \
                and shape_of_self(e.elts[0].value) is not None and not isinstance(e.elts[0].slice, ast.Slice):
            return f"(.item {lean_str(shape_of_self(e.elts[0].value))} ({const_int(e.elts[0].slice)}))"
        if isinstance(e, ast.BinOp) and isinstance(e.op, ast.Add):
            return f"(.cat {tr(e.left, cls)} {tr(e.right, cls)})"
        # tuple(np.array(X).T): the transpose of a rank-1 array is itself, tuple() of it the same integers
        if isinstance(e, ast.Call) and D.dotted(e.func) == "tuple" and len(e.args) == 1 and not e.keywords:
            a = e.args[0]
            if isinstance(a, ast.Attribute) and a.attr == "T":
                a = a.value
            if isinstance(a, ast.Call) and D.dotted(a.func) in ("np.array", "np.asarray") and len(a.args) == 1 and not a.keywords:
                a = a.args[0]
            return tr(a, cls)
        raise Refusal(item, f"{cls}: declared type outside the shape-expression grammar: {ast.unparse(e)}")

    def declared(st, attr, key, cls):
        if not (isinstance(st.value, ast.Dict) and len(st.value.keys) == 1 and isinstance(st.value.keys[0], ast.Constant)
                and st.value.keys[0].value == key):
            raise Refusal(item, f"{cls}: self.{attr} is not a dictionary with the single key {key!r}")
        v = st.value.values[0]
        if not (isinstance(v, ast.Call) and D.dotted(v.func) == "np.array" and len(v.args) == 1):
            raise Refusal(item, f"{cls}: self.{attr}[{key!r}] is not np.array(…): {ast.unparse(v)}")
        as_int = False
        for k in v.keywords:
            if k.arg == "dtype" and ((isinstance(k.value, ast.Name) and k.value.id == "int") or D.dotted(k.value) in ("np.int64", "np.int_")):
                as_int = True
            else:
                raise Refusal(item, f"{cls}: unexpected keyword in np.array: {ast.unparse(k)}")
        return tr(v.args[0], cls), as_int

    for rel, classes in (("nir/ir/linear.py", ["Affine", "Linear", "Scale"]), ("nir/ir/threshold.py", ["Threshold"]),
                         ("nir/ir/delay.py", ["Delay"]), ("nir/ir/neuron.py", ["CubaLIF", "I", "IF", "LI", "LIF"])):
        tree = ast.parse(_src(rel))
        for cls in classes:
            fn = _find_func(tree, "__post_init__", cls)
            if fn is None:
                raise Refusal(item, f"{cls}.__post_init__ not found")
            got = {}
            for st in fn.body:
                # only top-level statements: a declaration under a condition is outside the grammar
                for sub in ast.walk(st):
                    if isinstance(sub, ast.Assign) and len(sub.targets) == 1 and isinstance(sub.targets[0], ast.Attribute) \
                            and isinstance(sub.targets[0].value, ast.Name) and sub.targets[0].value.id == "self" \
                            and sub.targets[0].attr in ("input_type", "output_type"):
                        if sub is not st:
                            raise Refusal(item, f"{cls}: self.{sub.targets[0].attr} assigned inside a compound statement")
                        if sub.targets[0].attr in got:
                            raise Refusal(item, f"{cls}: self.{sub.targets[0].attr} assigned twice")
                        got[sub.targets[0].attr] = declared(sub, sub.targets[0].attr,
                                                            "input" if sub.targets[0].attr == "input_type" else "output", cls)
                    elif isinstance(sub, (ast.Attribute,)) and isinstance(sub.ctx, (ast.Store, ast.Del)) and isinstance(sub.value, ast.Attribute) \
                            and sub.value.attr in ("input_type", "output_type"):
                        raise Refusal(item, f"{cls}: a declared type is modified after assignment")
                    elif isinstance(sub, ast.Subscript) and isinstance(sub.ctx, (ast.Store, ast.Del)) and isinstance(sub.value, ast.Attribute) \
                            and sub.value.attr in ("input_type", "output_type"):
                        raise Refusal(item, f"{cls}: a declared type is modified after assignment")
            if set(got) != {"input_type", "output_type"}:
                raise Refusal(item, f"{cls}.__post_init__ does not assign both declared types")
            rows.append((cls, got["input_type"], got["output_type"]))
    b = lambda x: "true" if x else "false"
    txt = HEADER + "import NirVerif.Spec.ShapeExpr\n\nnamespace NirVerif.Generated\nopen NirVerif.Spec\n\n" \
        "/-- per parameterised primitive: the expression `np.array(…)` wraps in `self.input_type = {\"input\": …}`, whether\n" \
        "    `dtype=int` is given, and the same for the output -/\n" \
        "def declaredTypes : List (String × (ShapeE × Bool) × (ShapeE × Bool)) :=\n  [" + \
        ",\n   ".join(f"({lean_str(c)}, ({i[0]}, {b(i[1])}), ({o[0]}, {b(o[1])}))" for c, i, o in rows) + "]\n\nend NirVerif.Generated\n"
    return {"DeclaredTypes.lean": txt}


# ---------------------------------------------------------------------------------------
# T18  write_recursive: the dispatch on the value after the metadata branch (C02)
# ---------------------------------------------------------------------------------------
def t18_write_dispatch():
    item = "T18"
    tree = ast.parse(_src("nir/serialization.py"))
    fn = _find_func(tree, "write")
    inner = [n for n in (fn.body if fn else []) if isinstance(n, ast.FunctionDef) and n.name == "write_recursive"]
    if len(inner) != 1 or len(inner[0].args.args) != 2:
        raise Refusal(item, "write does not define write_recursive(group, node)")
    wr = inner[0]
    p_group = wr.args.args[0].arg
    loops = [st for st in wr.body if isinstance(st, ast.For)]
    if len(loops) != 1 or not (isinstance(loops[0].target, ast.Tuple) and len(loops[0].target.elts) == 2
                               and all(isinstance(e, ast.Name) for e in loops[0].target.elts)):
        raise Refusal(item, "write_recursive is not one loop `for k, v in …`")
    k, v = [e.id for e in loops[0].target.elts]
    ifs = [st for st in loops[0].body if isinstance(st, ast.If)]
    if not ifs:
        raise Refusal(item, "no dispatch in the loop body")
    node = ifs[-1]
    if not node.orelse:
        raise Refusal(item, "the dispatch has no branches after the metadata branch")
    D = ExprT(item, "num", {})
    rows = []

    def action(body):
        if len(body) != 1 or not isinstance(body[0], ast.Expr) or not isinstance(body[0].value, ast.Call):
            raise Refusal(item, "a dispatch branch is not a single call")
        c = body[0].value
        if isinstance(c.func, ast.Attribute) and c.func.attr == "create_dataset" and isinstance(c.func.value, ast.Name) \
                and c.func.value.id == p_group:
            if len(c.args) != 1 or ast.unparse(c.args[0]) != k:
                raise Refusal(item, f"create_dataset is not given the key itself: {ast.unparse(c)}")
            kw = {x.arg: x.value for x in c.keywords}
            if set(kw) - {"data", "dtype"} or "data" not in kw or ast.unparse(kw["data"]) != v:
                raise Refusal(item, f"create_dataset is not given the value itself as data: {ast.unparse(c)}")
            if "dtype" not in kw:
                return "default"
            dt = ast.unparse(kw["dtype"])
            if dt == f"{v}.dtype":
                return "own_dtype"
            if dt == "h5py.string_dtype()":
                return "string"
            raise Refusal(item, f"unexpected dtype argument: {dt}")
        if isinstance(c.func, ast.Name) and c.func.id == "write_recursive" and len(c.args) == 2 and not c.keywords \
                and ast.unparse(c.args[1]) == v and ast.unparse(c.args[0]) in (f"{p_group}.create_group(str({k}))", f"{p_group}.create_group({k})"):
            return "group"
        raise Refusal(item, f"unexpected action in the dispatch: {ast.unparse(c)}")

    cur = node.orelse
    while True:
        if len(cur) == 1 and isinstance(cur[0], ast.If):
            t = cur[0].test
            if not (isinstance(t, ast.Call) and D.dotted(t.func) == "isinstance" and len(t.args) == 2
                    and isinstance(t.args[0], ast.Name) and t.args[0].id == v):
                raise Refusal(item, f"a dispatch test is not isinstance(v, …): {ast.unparse(t)}")
            rows.append((D.dotted(t.args[1]) or ast.unparse(t.args[1]), action(cur[0].body)))
            if not cur[0].orelse:
                raise Refusal(item, "the dispatch has no final else")
            cur = cur[0].orelse
        else:
            rows.append(("else", action(cur)))
            break
    txt = HEADER + "\nnamespace NirVerif.Generated\n\n" \
        "/-- the dispatch of `write_recursive` on a value that is not the metadata entry, in source order: the class tested with\n" \
        "    `isinstance` (`else` for the final branch) and what is created — `string`: `create_dataset(k, data=v,\n" \
        "    dtype=h5py.string_dtype())`; `own_dtype`: `create_dataset(k, data=v, dtype=v.dtype)`; `group`: a group filled\n" \
        "    recursively; `default`: `create_dataset(k, data=v)` -/\n" \
        "def writeDispatch : List (String × String) :=\n  [" + ", ".join(f"({lean_str(a)}, {lean_str(b)})" for a, b in rows) + "]\n\nend NirVerif.Generated\n"
    return {"WriteDispatch.lean": txt}


# ---------------------------------------------------------------------------------------
# T19  the reader's skeleton: read, hdf2dict, try_byte_to_str, read_version (C04, C01)
# ---------------------------------------------------------------------------------------
def t19_read_shape():
    item = "T19"
    tree = ast.parse(_src("nir/serialization.py"))
    D = ExprT(item, "num", {})
    # try_byte_to_str(a): a.decode(<codec>) if isinstance(a, bytes) else a
    tb = _find_func(tree, "try_byte_to_str")
    if tb is None or len(tb.args.args) != 1 or tb.args.defaults:
        raise Refusal(item, "try_byte_to_str(a) not found")
    a = tb.args.args[0].arg
    body = [st for st in tb.body if not (isinstance(st, ast.Expr) and isinstance(st.value, ast.Constant))]
    ok = len(body) == 1 and isinstance(body[0], ast.Return) and isinstance(body[0].value, ast.IfExp)
    if ok:
        e = body[0].value
        ok = ast.unparse(e.test) == f"isinstance({a}, bytes)" and ast.unparse(e.orelse) == a and isinstance(e.body, ast.Call) \
            and isinstance(e.body.func, ast.Attribute) and e.body.func.attr == "decode" and ast.unparse(e.body.func.value) == a \
            and len(e.body.args) == 1 and isinstance(e.body.args[0], ast.Constant) and isinstance(e.body.args[0].value, str) \
            and not e.body.keywords
    if not ok:
        raise Refusal(item, "try_byte_to_str is not `return a.decode(<codec>) if isinstance(a, bytes) else a`")
    codec = body[0].value.body.args[0].value
    if tb.decorator_list:
        raise Refusal(item, "try_byte_to_str is decorated")
    # hdf2dict(node): ret = {}; nested walker; walker(node, ret); return ret
    hd = _find_func(tree, "hdf2dict")
    if hd is None or len(hd.args.args) != 1 or hd.args.defaults or hd.args.kwonlyargs or hd.args.vararg or hd.args.kwarg:
        raise Refusal(item, "hdf2dict does not take exactly one parameter without default")
    hp = hd.args.args[0].arg
    hb = [st for st in hd.body if not (isinstance(st, ast.Expr) and isinstance(st.value, ast.Constant))]
    ok = len(hb) == 4 and isinstance(hb[0], ast.Assign) and len(hb[0].targets) == 1 and isinstance(hb[0].targets[0], ast.Name) \
        and isinstance(hb[0].value, ast.Dict) and not hb[0].value.keys and isinstance(hb[1], ast.FunctionDef) \
        and isinstance(hb[3], ast.Return) and isinstance(hb[3].value, ast.Name) and hb[3].value.id == hb[0].targets[0].id
    if not ok:
        raise Refusal(item, "hdf2dict is not `ret = {}; def walker…; walker(node, ret); return ret`")
    ret = hb[0].targets[0].id
    wk = hb[1]
    if ast.unparse(hb[2]) != f"{wk.name}({hp}, {ret})":
        raise Refusal(item, "hdf2dict does not call its walker on (node, ret)")
    if len(wk.args.args) != 2 or wk.args.defaults or wk.decorator_list:
        raise Refusal(item, "the walker does not take (node, data_dict) without defaults")
    wn, wd = [x.arg for x in wk.args.args]
    wbody = [st for st in wk.body if not (isinstance(st, ast.Expr) and isinstance(st.value, ast.Constant))]
    ok = len(wbody) == 1 and isinstance(wbody[0], ast.For) and ast.unparse(wbody[0].iter) == f"{wn}.items()" \
        and isinstance(wbody[0].target, ast.Tuple) and len(wbody[0].target.elts) == 2 and not wbody[0].orelse
    if not ok:
        raise Refusal(item, "the walker is not one loop over node.items()")
    key, it = [e.id for e in wbody[0].target.elts]
    lb = wbody[0].body
    ok = len(lb) == 2 and ast.unparse(lb[0]) == f"{key} = try_byte_to_str({key})" and isinstance(lb[1], ast.If)
    if not ok:
        raise Refusal(item, "the loop body is not `key = try_byte_to_str(key)` followed by the Group / Dataset dispatch")
    g = lb[1]
    ok = ast.unparse(g.test) == f"isinstance({it}, h5py.Group)" and [ast.unparse(x) for x in g.body] == \
        [f"{wd}[{key}] = {{}}", f"{wk.name}({it}, {wd}[{key}])"] and len(g.orelse) == 1 and isinstance(g.orelse[0], ast.If)
    if not ok:
        raise Refusal(item, "the Group branch is not `data_dict[key] = {}; walker(item, data_dict[key])`")
    d = g.orelse[0]
    ok = ast.unparse(d.test) == f"isinstance({it}, h5py.Dataset)" and not d.orelse and \
        [ast.unparse(x) for x in d.body] in ([f"{it} = try_byte_to_str({it}[()])", f"{wd}[{key}] = {it}"],
                                              [f"{wd}[{key}] = try_byte_to_str({it}[()])"])
    if not ok:
        raise Refusal(item, "the Dataset branch is not `data_dict[key] = try_byte_to_str(item[()])`")
    # read(filename): with h5py.File(filename, "r") as f: data_dict = hdf2dict(f[<root>]); return nir.dict2NIRNode(data_dict)
    rd = _find_func(tree, "read")
    if rd is None or len(rd.args.args) != 1 or rd.args.defaults or rd.decorator_list:
        raise Refusal(item, "read(filename) not found")
    rb = [st for st in rd.body if not (isinstance(st, ast.Expr) and isinstance(st.value, ast.Constant))]
    if len(rb) != 1 or not isinstance(rb[0], ast.With) or not isinstance(rb[0].items[0].optional_vars, ast.Name):
        raise Refusal(item, "read is not a single with-block")
    fv = rb[0].items[0].optional_vars.id
    wb = rb[0].body
    root = None
    if len(wb) == 2 and isinstance(wb[0], ast.Assign) and isinstance(wb[1], ast.Return):
        tgt = ast.unparse(wb[0].targets[0])
        call = wb[0].value
        if isinstance(call, ast.Call) and D.dotted(call.func) == "hdf2dict" and len(call.args) == 1 and not call.keywords \
                and isinstance(call.args[0], ast.Subscript) and ast.unparse(call.args[0].value) == fv \
                and isinstance(call.args[0].slice, ast.Constant) and ast.unparse(wb[1].value) == f"nir.dict2NIRNode({tgt})":
            root = call.args[0].slice.value
    elif len(wb) == 1 and isinstance(wb[0], ast.Return):
        c = wb[0].value
        if isinstance(c, ast.Call) and D.dotted(c.func) == "nir.dict2NIRNode" and len(c.args) == 1 and isinstance(c.args[0], ast.Call) \
                and D.dotted(c.args[0].func) == "hdf2dict" and isinstance(c.args[0].args[0], ast.Subscript) \
                and ast.unparse(c.args[0].args[0].value) == fv and isinstance(c.args[0].args[0].slice, ast.Constant):
            root = c.args[0].args[0].slice.value
    if not isinstance(root, str):
        raise Refusal(item, "read is not `nir.dict2NIRNode(hdf2dict(f[<root>]))`")
    # read_version: f[<name>][()].decode(<codec>)
    rv = _find_func(tree, "read_version")
    vname = vcodec = None
    if rv is not None:
        for n in ast.walk(rv):
            if isinstance(n, ast.Return) and isinstance(n.value, ast.Call) and isinstance(n.value.func, ast.Attribute) \
                    and n.value.func.attr == "decode" and len(n.value.args) == 1 and isinstance(n.value.args[0], ast.Constant):
                inner = n.value.func.value
                if isinstance(inner, ast.Subscript) and ast.unparse(inner.slice) == "()" and isinstance(inner.value, ast.Subscript) \
                        and isinstance(inner.value.slice, ast.Constant):
                    vname, vcodec = inner.value.slice.value, n.value.args[0].value
    if not isinstance(vname, str):
        raise Refusal(item, "read_version is not `return f[<name>][()].decode(<codec>)`")
    txt = HEADER + "\nnamespace NirVerif.Generated\n\n" \
        "/-- the reader as the source states it: `read` hands `hdf2dict(f[readRootName])` to `dict2NIRNode`; `hdf2dict` starts from a\n" \
        "    fresh dictionary on every call and walks `items()`: every key through `try_byte_to_str`, a group into a fresh\n" \
        "    dictionary filled recursively, a dataset as `try_byte_to_str(item[()])`; `try_byte_to_str` decodes `bytes` with\n" \
        "    `readCodec` and returns everything else unchanged; `read_version` decodes `f[versionName][()]` with `versionCodec` -/\n" \
        f"def readRootName : String := {lean_str(root)}\ndef readCodec : String := {lean_str(codec)}\n" \
        f"def versionName : String := {lean_str(vname)}\ndef versionCodec : String := {lean_str(vcodec)}\n" \
        "/-- the structural facts checked by the translator (it refuses otherwise) -/\n" \
        "def readerFreshDictPerCall : Bool := true\ndef readerDecodesKeys : Bool := true\ndef readerLoadsWholeDataset : Bool := true\n\nend NirVerif.Generated\n"
    return {"ReadShape.lean": txt}


# ---------------------------------------------------------------------------------------
# T20  from_dict: the generic classmethod, dict2NIRNode, and which classes override it doing what to which keys (C18)
# ---------------------------------------------------------------------------------------
def t20_from_dict_shape():
    item = "T20"
    import glob
    nt = ast.parse(_src("nir/ir/node.py"))
    fn = _find_func(nt, "from_dict", "NIRNode")
    if fn is None or len(fn.args.args) != 2 or fn.args.defaults or fn.args.kwarg or fn.args.vararg:
        raise Refusal(item, "NIRNode.from_dict(cls, node) not found")
    if [ast.unparse(d) for d in fn.decorator_list] != ["classmethod"]:
        raise Refusal(item, "NIRNode.from_dict is not a plain classmethod")
    c, n = [a.arg for a in fn.args.args]
    body = [ast.unparse(st) for st in fn.body if not (isinstance(st, ast.Expr) and isinstance(st.value, ast.Constant))]
    if body != [f"assert {n}['type'] == {c}.__name__", f"del {n}['type']", f"return {c}(**{n})"]:
        raise Refusal(item, "NIRNode.from_dict is not `assert node['type'] == cls.__name__; del node['type']; return cls(**node)`")
    it = ast.parse(_src("nir/ir/__init__.py"))
    d2 = _find_func(it, "dict2NIRNode")
    if d2 is None or len(d2.args.args) != 1 or d2.args.defaults or d2.decorator_list:
        raise Refusal(item, "dict2NIRNode(data_dict) not found")
    dp = d2.args.args[0].arg
    body = [ast.unparse(st) for st in d2.body if not (isinstance(st, ast.Expr) and isinstance(st.value, ast.Constant))]
    if body != [f"return str2NIRNode({dp}['type']).from_dict({dp})"]:
        raise Refusal(item, "dict2NIRNode is not `return str2NIRNode(data_dict['type']).from_dict(data_dict)`")
    rows = []
    for path in sorted(glob.glob(os.path.join(REPO, "nir", "ir", "*.py"))):
        rel = os.path.relpath(path, REPO)
        tree = ast.parse(_src(rel))
        for cls in [x for x in tree.body if isinstance(x, ast.ClassDef)]:
            if cls.name == "NIRNode":
                continue
            f = None
            for sub in cls.body:
                if isinstance(sub, ast.FunctionDef) and sub.name == "from_dict":
                    f = sub
            if f is None:
                continue
            if [ast.unparse(d) for d in f.decorator_list] != ["classmethod"] or len(f.args.args) != 2 or f.args.defaults:
                raise Refusal(item, f"{cls.name}.from_dict is not a classmethod (cls, node)")
            npar = f.args.args[1].arg
            sets, dels = [], []
            stmts = [st for st in f.body if not (isinstance(st, ast.Expr) and isinstance(st.value, ast.Constant))]
            if not stmts or ast.unparse(stmts[-1]) != f"return super().from_dict({npar})":
                raise Refusal(item, f"{cls.name}.from_dict does not end with `return super().from_dict(node)`")
            for st in stmts[:-1]:
                if isinstance(st, (ast.Import, ast.ImportFrom)):
                    continue
                if isinstance(st, ast.Assign) and len(st.targets) == 1 and isinstance(st.targets[0], ast.Subscript) \
                        and isinstance(st.targets[0].value, ast.Name) and st.targets[0].value.id == npar \
                        and isinstance(st.targets[0].slice, ast.Constant) and isinstance(st.targets[0].slice.value, str):
                    sets.append(st.targets[0].slice.value)
                elif isinstance(st, ast.Delete) and len(st.targets) == 1 and isinstance(st.targets[0], ast.Subscript) \
                        and isinstance(st.targets[0].value, ast.Name) and st.targets[0].value.id == npar \
                        and isinstance(st.targets[0].slice, ast.Constant) and isinstance(st.targets[0].slice.value, str):
                    dels.append(st.targets[0].slice.value)
                else:
                    raise Refusal(item, f"{cls.name}.from_dict: statement outside `node[<key>] = …` / `del node[<key>]`: {ast.unparse(st)[:80]}")
            rows.append((cls.name, sets, dels))
    ls = lambda xs: "[" + ", ".join(lean_str(x) for x in xs) + "]"
    txt = HEADER + "\nnamespace NirVerif.Generated\n\n" \
        "/-- the generic `NIRNode.from_dict` is `assert node[\"type\"] == cls.__name__; del node[\"type\"]; return cls(**node)` and\n" \
        "    `dict2NIRNode` is `str2NIRNode(data_dict[\"type\"]).from_dict(data_dict)` (the translator refuses otherwise) -/\n" \
        "def genericFromDictStrict : Bool := true\n\n" \
        "/-- the classes that override `from_dict`: the keys they assign and the keys they delete before handing the dictionary to\n" \
        "    the generic classmethod (nothing else is done to it) -/\n" \
        "def fromDictOverrides : List (String × List String × List String) :=\n  [" + \
        ",\n   ".join(f"({lean_str(c)}, {ls(a)}, {ls(b)})" for c, a, b in rows) + "]\n\nend NirVerif.Generated\n"
    return {"FromDictShape.lean": txt}


# ---------------------------------------------------------------------------------------
# T21  every call of calculate_conv_output in the constructors and in the active inference loop: which expression is bound
#      to which parameter, and how the declared output is assembled from the result (C06)
# ---------------------------------------------------------------------------------------
def t21_conv_call_sites():
    item = "T21"
    import re
    ut = ast.parse(_src("nir/ir/utils.py"))
    cf = _find_func(ut, "calculate_conv_output")
    if cf is None or cf.args.defaults or cf.args.vararg or cf.args.kwarg or cf.args.kwonlyargs:
        raise Refusal(item, "calculate_conv_output with plain positional parameters not found")
    params = [a.arg for a in cf.args.args]
    D = ExprT(item, "num", {})

    def norm(e, me, pre=None):
        t = ast.unparse(e)
        t = re.sub(rf"\b{me}\b", "node", t)
        if pre:
            t = re.sub(rf"\b{pre}\b", "pre", t)
        return t

    def bind(call, me, pre=None):
        if len(call.args) + len(call.keywords) != len(params):
            raise Refusal(item, f"call with {len(call.args) + len(call.keywords)} arguments: {ast.unparse(call)[:80]}")
        got = {}
        for i, a in enumerate(call.args):
            if isinstance(a, ast.Starred):
                raise Refusal(item, "starred argument")
            got[params[i]] = norm(a, me, pre)
        for k in call.keywords:
            if k.arg not in params or k.arg in got:
                raise Refusal(item, f"unexpected keyword {k.arg}")
            got[k.arg] = norm(k.value, me, pre)
        return [got[p_] for p_ in params]

    def assembled(stmts, result_name, me, pre=None):
        """the channel expression c in np.array([c, *result]) of the first later use of the result"""
        for st in stmts:
            for n in ast.walk(st):
                if isinstance(n, ast.Call) and D.dotted(n.func) == "np.array" and len(n.args) == 1 and isinstance(n.args[0], ast.List) \
                        and len(n.args[0].elts) == 2 and isinstance(n.args[0].elts[1], ast.Starred) \
                        and isinstance(n.args[0].elts[1].value, ast.Name) and n.args[0].elts[1].value.id == result_name:
                    if n.keywords:
                        raise Refusal(item, "np.array with keywords where the declared output is assembled")
                    return norm(n.args[0].elts[0], me, pre)
        raise Refusal(item, "the result of calculate_conv_output is not assembled as np.array([channels, *result])")

    def calls_in(stmts):
        out = []
        for i, st in enumerate(stmts):
            if isinstance(st, ast.Assign) and isinstance(st.value, ast.Call) and D.dotted(st.value.func) == "calculate_conv_output" \
                    and len(st.targets) == 1 and isinstance(st.targets[0], ast.Name):
                out.append((st.value, st.targets[0].id, stmts[i + 1:]))
        return out

    rows = []
    ct = ast.parse(_src("nir/ir/conv.py"))
    for cls in ("Conv1d", "Conv2d"):
        fn = _find_func(ct, "__post_init__", cls)
        if fn is None:
            raise Refusal(item, f"{cls}.__post_init__ not found")
        found = []
        for n in ast.walk(fn):
            if isinstance(n, (ast.If, ast.FunctionDef)):
                for blk in (n.body, getattr(n, "orelse", [])):
                    found += calls_in(blk)
        if len(found) != 1:
            raise Refusal(item, f"{cls}.__post_init__ has {len(found)} assignments from calculate_conv_output, expected 1")
        call, res, rest = found[0]
        rows.append((f"{cls}.__post_init__", bind(call, "self"), assembled(rest, res, "self")))
    n_total = sum(1 for n in ast.walk(ct) if isinstance(n, ast.Call) and D.dotted(n.func) == "calculate_conv_output")
    if n_total != 2:
        raise Refusal(item, f"conv.py calls calculate_conv_output {n_total} times, expected 2")
    gt = ast.parse(_src("nir/ir/graph.py"))
    inf = _find_func(gt, "_forward_type_inference", "NIRGraph")
    if inf is None:
        raise Refusal(item, "_forward_type_inference not found")

    def walk_ifs(stmts, tests):
        for st in stmts:
            if isinstance(st, ast.If):
                t = st.test
                names = []
                parts = t.values if isinstance(t, ast.BoolOp) and isinstance(t.op, ast.Or) else [t]
                for p_ in parts:
                    if isinstance(p_, ast.Call) and D.dotted(p_.func) == "isinstance" and len(p_.args) == 2 \
                            and isinstance(p_.args[0], ast.Name) and p_.args[0].id == "post_node":
                        names.append(ast.unparse(p_.args[1]))
                here = tests + ["|".join(names)] if names and len(names) == len(parts) else tests
                for call, res, rest in calls_in(st.body):
                    rows.append(("infer:" + (here[-1] if here else "?"), bind(call, "post_node", "pre_node"),
                                 assembled(rest, res, "post_node", "pre_node")))
                walk_ifs(st.body, here)
                walk_ifs(st.orelse, tests)
            elif isinstance(st, (ast.While, ast.For, ast.With, ast.Try)):
                walk_ifs(st.body, tests)
    before = len(rows)
    walk_ifs(inf.body, [])
    n_inf = sum(1 for n in ast.walk(inf) if isinstance(n, ast.Call) and D.dotted(n.func) == "calculate_conv_output")
    if n_inf != len(rows) - before:
        raise Refusal(item, f"_forward_type_inference calls calculate_conv_output {n_inf} times, {len(rows) - before} of them in the accepted form")
    ls = lambda xs: "[" + ", ".join(lean_str(x) for x in xs) + "]"
    txt = HEADER + "\nnamespace NirVerif.Generated\n\n" \
        "/-- the parameters of `calculate_conv_output`, in order -/\n" \
        f"def convOutputParams : List String := {ls(params)}\n\n" \
        "/-- every call of `calculate_conv_output` in the conv constructors and in the active inference loop: the site, the\n" \
        "    expression bound to each parameter (in parameter order; `node` is `self` / `post_node`, `pre` is `pre_node`), and\n" \
        "    the channel entry `c` of the declared output `np.array([c, *result])` -/\n" \
        "def convCallSites : List (String × List String × String) :=\n  [" + \
        ",\n   ".join(f"({lean_str(a)}, {ls(b)}, {lean_str(c)})" for a, b, c in rows) + "]\n\nend NirVerif.Generated\n"
    return {"ConvCallSites.lean": txt}

ITEMS = {"T1": t1_fields, "T2": t2_whitelist, "T3": t3_file_modes, "T4": t4_conv_axis, "T5": t5_flatten, "T6": t6_lif, "T7": t7_cuba, "T8": t8_unique_name, "T9": t9_neuron_shapes, "T10": t10_guards, "T11": t11_dict_overrides, "T12": t12_graph_interface, "T13": t13_write_shape, "T14": t14_worklist, "T15": t15_check_errors, "T16": t16_observer_effects, "T17": t17_declared_types, "T18": t18_write_dispatch, "T19": t19_read_shape, "T20": t20_from_dict_shape, "T21": t21_conv_call_sites}


def regenerate(out_dir=OUT, items=None):
    """Returns (changed_files, refusals)."""
    os.makedirs(out_dir, exist_ok=True)
    changed, refusals = [], []
    for name, fn in ITEMS.items():
        if items and name not in items:
            continue
        try:
            files = fn()
        except Refusal as r:
            refusals.append((name, str(r)))
            continue
        except SyntaxError as r:
            refusals.append((name, f"syntax error in source: {r}"))
            continue
        for fname, txt in files.items():
            lines = txt.split("\n")
            for i, l in enumerate(lines):
                if l.startswith("namespace "):
                    lines.insert(i, "set_option linter.unusedVariables false")
                    break
            txt = "\n".join(lines)
            path = os.path.join(out_dir, fname)
            old = None
            if os.path.exists(path):
                with open(path) as f:
                    old = f.read()
            if old != txt:
                with open(path, "w") as f:
                    f.write(txt)
                changed.append(fname)
    return changed, refusals


if __name__ == "__main__":
    ch, ref = regenerate()
    print("changed:", ch)
    for r in ref:
        print("REFUSAL", r)
    sys.exit(1 if ref else 0)
