"""Seeded generators of construction recipes (canonical JSON, see canon.py).

Every random choice comes from the `random.Random` passed in, so a case replays exactly.
"""
import itertools
import struct

import numpy as np

from canon import canon

FLOAT_DTYPES = ["<f8", "<f4", "<f2"]
INT_DTYPES = ["<i8", "<i4", "<i2", "|i1", "<u4", "<u2", "|u1"]
ALL_DTYPES = ["<f8", "<f4", "<f2", "<i8", "<i4", "<i2", "|i1", "<u8", "<u4", "<u2", "|u1", "|b1",
              "<c8", "<c16", ">f8", ">i4"]
LAYOUTS = [None, None, None, "F", "neg", "step", "T", "ro"]

SPECIAL_F8 = [0.0, -0.0, float("inf"), float("-inf"), 5e-324, 2.2250738585072014e-308, 1.0, -1.5]


def arr(rng, shape, dtype="<f8", special=False, layout=None):
    """JSON recipe of an ndarray with random bit content."""
    dt = np.dtype(dtype)
    n = int(np.prod(shape)) if len(shape) else 1
    if dt.kind == "b":
        raw = bytes(rng.randrange(2) for _ in range(n))
    elif dt.kind in "iu" and not special:
        # small magnitudes mostly; extremes sometimes
        info = np.iinfo(dt)
        vals = []
        for _ in range(n):
            r = rng.random()
            if r < 0.1:
                vals.append(info.max)
            elif r < 0.2:
                vals.append(info.min)
            else:
                vals.append(rng.randrange(max(info.min, -100), min(info.max, 100) + 1))
        raw = np.array(vals, dtype=dt).tobytes()
    elif dt.kind == "f" and not special:
        vals = [rng.choice([rng.uniform(-2, 2), rng.choice(SPECIAL_F8)]) if rng.random() < 0.2
                else rng.uniform(-2, 2) for _ in range(n)]
        raw = np.array(vals, dtype=dt).tobytes()
    else:
        raw = bytes(rng.randrange(256) for _ in range(n * dt.itemsize))
    j = {"a": dtype if dtype != "=f8" else "<f8", "sh": list(shape), "x": raw.hex()}
    if layout:
        j["layout"] = layout
    return j


def shape(rng, rank=None, lo=1, hi=3, maxrank=3):
    if rank is None:
        rank = rng.randrange(0, maxrank + 1)
    return [rng.randrange(lo, hi + 1) for _ in range(rank)]


def pyint(i):
    return {"i": int(i)}


def npint(i, dtype="<i8"):
    return {"n": dtype, "x": np.array(i, dtype=np.dtype(dtype)).tobytes().hex()}


def pyfloat(x):
    return {"f": struct.pack("<d", x).hex()}


def int_dtype_for(rng, values):
    """an integer dtype that holds all the values (with margin for the conv arithmetic)"""
    ok = []
    for d in INT_DTYPES:
        info = np.iinfo(np.dtype(d))
        if all(info.min // 4 <= v <= info.max // 4 for v in values):
            ok.append(d)
    return rng.choice(ok) if ok else "<i8"


def hp_forms(values):
    """all container forms of a per-axis hyper-parameter (values: list of ints)"""
    forms = {
        "tuple": {"t": [pyint(v) for v in values]},
        "list": {"l": [pyint(v) for v in values]},
        "ndarray": {"a": "<i8", "sh": [len(values)], "x": np.array(values, dtype="<i8").tobytes().hex()},
    }
    if len(set(values)) == 1:
        forms["int"] = pyint(values[0])
        forms["npint"] = npint(values[0])
    return forms


def hp(rng, values, allow_scalar=True):
    """one random container form of a per-axis hyper-parameter"""
    choices = ["tuple", "list", "ndarray", "ndarray_narrow", "tuple_np"]
    if allow_scalar and len(set(values)) == 1:
        choices += ["int", "int", "npint", "npint_narrow"]
    c = rng.choice(choices)
    if c == "tuple":
        return {"t": [pyint(v) for v in values]}
    if c == "list":
        return {"l": [pyint(v) for v in values]}
    if c == "tuple_np":
        d = int_dtype_for(rng, values)
        return {"t": [npint(v, d) for v in values]}
    if c == "ndarray":
        return {"a": "<i8", "sh": [len(values)], "x": np.array(values, dtype="<i8").tobytes().hex()}
    if c == "ndarray_narrow":
        d = int_dtype_for(rng, values)
        return {"a": d, "sh": [len(values)], "x": np.array(values, dtype=np.dtype(d)).tobytes().hex()}
    if c == "int":
        return pyint(values[0])
    if c == "npint":
        return npint(values[0])
    d = int_dtype_for(rng, values)
    return npint(values[0], d)


def metadata(rng, depth=0, maxdepth=3):
    """a metadata tree over the recommended value kinds"""
    n = rng.randrange(0, 4)
    out = []
    used = set()
    for _ in range(n):
        k = rng.choice(["a", "b", "note", "k%d" % rng.randrange(100), "é", "键", "x y", "type", "nodes",
                        "edges", "😀", "a.b", "input_type", "output_type", "shape", "weight", "version"])
        if k in used or k == "metadata":
            continue
        used.add(k)
        r = rng.random()
        if r < 0.2:
            # (strings that look like other values or like library tags must stay strings)
            v = {"s": rng.choice(["", "hello", "ünï", "多", "a\nb", " lead", "None", "none", "null", "nan", "True", "0",
                                  "[]", "{}", "NIRGraph", "LIF", "metadata", "trail ", "x" * 300, "\ufeffbom first", "mid\ufeffbom",
                                  "cafe\u0301", "\u212bngstrom"])}
        elif r < 0.31:
            v = pyint(rng.randrange(-5, 1000))
        elif r < 0.35:
            # integers at the edges of the 64-bit ranges (a Python int up to 2^64-1 is storable: uint64)
            v = pyint(rng.choice([2 ** 63, 2 ** 63 + 5, 2 ** 64 - 1, 2 ** 63 - 1, -2 ** 63, 2 ** 62, 2 ** 31, -2 ** 31 - 1]))
        elif r < 0.5:
            v = pyfloat(rng.choice([0.5, -1.25, 3.0, 1e-3]))
        elif r < 0.6:
            v = {"b": rng.random() < 0.5}
        elif r < 0.8:
            v = arr(rng, shape(rng, maxrank=2) if rng.random() < 0.8 else [],
                    rng.choice(["<f8", "<i8", "<f4", "|b1", "<i4", ">f4", ">i8", ">f8", "<u2"]))
        elif depth < maxdepth:
            v = metadata(rng, depth + 1, maxdepth)
        else:
            v = pyint(1)
        out.append([k, v])
    return {"d": out}


NAMES = ["a", "b", "c", "n0", "n1", "lif", "in", "out", "é", "键盘", "😀", "x y", " lead", "tab\t", "A",
         "metadata", "type", "nodes", "edges", "a.b", "..", "a..b", ".a", "input", "output", "0", "-",
         "é", "shape", "version", "node"]

# ---------------------------------------------------------------------------------------
# node recipes
# ---------------------------------------------------------------------------------------
ELEMENTWISE = {"Scale": ["scale"], "Threshold": ["threshold"], "Delay": ["delay"], "I": ["r"],
               "IF": ["r", "v_threshold"], "LI": ["tau", "r", "v_leak"],
               "LIF": ["tau", "r", "v_leak", "v_threshold"]}
CUBA = ["tau_syn", "tau_mem", "r", "v_leak", "v_threshold"]
LEAF_KINDS = ["Affine", "Linear", "Scale", "Threshold", "Delay", "I", "IF", "LI", "LIF", "CubaLIF",
              "Conv1d", "Conv2d", "SumPool2d", "AvgPool2d", "Flatten", "Input", "Output"]


def maybe_meta(rng, kwargs, p=0.25):
    if rng.random() < p:
        kwargs.append(["metadata", metadata(rng)])
    return kwargs


def conv_axis_params(rng, big=False):
    """(n, p, d, k, s) for which the kernel fits at least once"""
    while True:
        if big and rng.random() < 0.2:
            n = rng.randrange(1, 2 ** 20)
        else:
            n = rng.randrange(1, 15)
        k = rng.randrange(1, 6)
        s = rng.randrange(1, 5)
        p = rng.randrange(0, 4)
        d = rng.randrange(1, 4)
        if d * (k - 1) + 1 <= n + 2 * p:
            return n, p, d, k, s


def conv2d_params(rng, ns=None):
    """per-axis (n, p, d, k, s) lists and a padding mode, kernel fitting at least once"""
    def two(lo, hi, tie=0.4):
        a, b = rng.randrange(lo, hi), rng.randrange(lo, hi)
        return [a, a] if rng.random() < tie else [a, b]
    for _ in range(1000):
        n = ns or two(1, 15, 0.3)
        k, s, p, d = two(1, 6), two(1, 5), two(0, 4), two(1, 4, 0.6)
        mode = rng.choice(["explicit"] * 5 + ["valid", "same"])
        if mode == "same":
            s = [1, 1]
            return n, p, d, k, s, mode
        pe = [0, 0] if mode == "valid" else p
        if all(dd * (kk - 1) + 1 <= nn + 2 * pp for nn, pp, dd, kk in zip(n, pe, d, k)):
            return n, p, d, k, s, mode
    return n, [0, 0], [1, 1], [1, 1], [1, 1], "explicit"


def node_recipe(rng, kind, sh=None, dtype=None, meta_p=0.25):
    """A *valid* recipe for a leaf primitive (shape `sh` = the node's input shape where that
    makes sense)."""
    dt = dtype or rng.choice(FLOAT_DTYPES + ["<f8", "<f8"])
    lay = lambda: rng.choice(LAYOUTS)
    if kind in ELEMENTWISE:
        s = shape(rng, maxrank=4) if sh is None else sh
        if sh is None and dtype is None and rng.random() < 0.08:
            # a one-element integer parameter (its *shape* [1] is what types the node)
            s = [1] * rng.randrange(1, 3)
            dtype = rng.choice(["<i8", "<i4", "|u1"])
        kw = [[f, arr(rng, s, dtype or rng.choice(ALL_DTYPES), layout=lay())] for f in ELEMENTWISE[kind]]
    elif kind == "CubaLIF":
        s = shape(rng, maxrank=3) if sh is None else sh
        d = rng.choice(["<f8", "<f8", "<f4"])
        kw = [[f, arr(rng, s, d)] for f in CUBA]
        r = rng.random()
        if r < 0.3:
            pass
        elif r < 0.38:
            # an input weight *close to* the default 1.0 but not equal to it
            n = int(np.prod(s)) if s else 1
            near = (1.0 + np.array([rng.choice([0.0, 2e-6, -3e-6, 1e-7]) for _ in range(n)])).astype(np.dtype(d))
            if np.all(near == 1):
                near.reshape(-1)[0] = np.nextafter(np.dtype(d).type(1), np.dtype(d).type(2))
            kw.append(["w_in", {"a": d, "sh": list(s), "x": near.tobytes().hex()}])
        elif r < 0.52:
            kw.append(["w_in", arr(rng, s, d)])
        elif r < 0.6:
            # an input weight in a dtype of its own, wider than the parameters', holding values a cast would destroy
            n = int(np.prod(s)) if s else 1
            wd = "<f8" if d != "<f8" else rng.choice(["<c16", "<f8"])
            vals = np.array([rng.choice([0.1, 0.5, 1.5, -0.3, 1.0 / 3]) for _ in range(n)]).astype(np.dtype(wd))
            kw.append(["w_in", {"a": wd, "sh": list(s), "x": vals.tobytes().hex()}])
        elif r < 0.75 and d == "<f8":
            kw.append(["w_in", pyfloat(rng.choice([1.0, 0.5, -2.0, 0.1]))])
        elif r < 0.85:
            kw.append(["w_in", arr(rng, [], d)])
        elif len(s) >= 1:
            kw.append(["w_in", arr(rng, s[-1:], d)])
    elif kind in ("Affine", "Linear"):
        if sh is None:
            batch = shape(rng, maxrank=2) if rng.random() < 0.4 else []
            n = rng.randrange(1, 4)
        else:
            batch, n = list(sh[:-1]), sh[-1]
        m = rng.randrange(1, 4)
        kw = [["weight", arr(rng, batch + [m, n], dt, layout=lay())]]
        if kind == "Affine":
            kw.append(["bias", arr(rng, batch + [m], dt)])
    elif kind == "Conv1d":
        n, p, d, k, s = conv_axis_params(rng)
        cin = rng.randrange(1, 3) if sh is None else sh[0]
        if sh is not None:
            n = sh[1]
            while d * (k - 1) + 1 > n + 2 * p:
                k, d = max(1, k - 1), 1
        cout = rng.randrange(1, 4)
        pad = rng.choice([pyint(p), pyint(p), npint(p, "<i4"), {"s": "valid"}, {"s": "same"}])
        if pad.get("s") == "same":
            s = 1
        kw = [["input_shape", rng.choice([pyint(n), npint(n), npint(n, "<i4")])],
              ["weight", arr(rng, [cout, cin, k], dt)],
              ["stride", rng.choice([pyint(s), npint(s, "<i2")])], ["padding", pad],
              ["dilation", rng.choice([pyint(d), npint(d)])], ["groups", pyint(1)],
              ["bias", arr(rng, [cout], dt)]]
    elif kind == "Conv2d":
        cin = rng.randrange(1, 3) if sh is None else sh[0]
        cout = rng.randrange(1, 4)
        ns, ps, ds, ks, ss, mode = conv2d_params(rng, None if sh is None else list(sh[1:]))
        pad = {"s": mode} if mode in ("same", "valid") else hp(rng, ps)
        kw = [["input_shape", hp(rng, ns, allow_scalar=False)],
              ["weight", arr(rng, [cout, cin] + ks, dt)],
              ["stride", hp(rng, ss)], ["padding", pad], ["dilation", hp(rng, ds)],
              ["groups", pyint(1)], ["bias", arr(rng, [cout], dt)]]
    elif kind in ("SumPool2d", "AvgPool2d"):
        k = [rng.randrange(1, 4), rng.randrange(1, 4)]
        s = [rng.randrange(1, 3), rng.randrange(1, 3)]
        p = [rng.randrange(0, 2), rng.randrange(0, 2)]
        if rng.random() < 0.5:
            k, s, p = [k[0]] * 2, [s[0]] * 2, [p[0]] * 2
        kw = [["kernel_size", hp(rng, k)], ["stride", hp(rng, s)], ["padding", hp(rng, p)]]
    elif kind == "Flatten":
        s = shape(rng, rank=rng.randrange(1, 6), hi=(3 if rng.random() < 0.6 else 20)) if sh is None else sh
        rank = len(s)
        a = rng.randrange(0, rank)
        b = rng.randrange(a, rank)
        sd = a if rng.random() < 0.6 else a - rank
        ed = b if rng.random() < 0.5 else b - rank
        kw = [["input_type", shape_arg(rng, s, "input")], ["start_dim", pyint(sd)], ["end_dim", pyint(ed)]]
    elif kind == "Input":
        s = shape(rng, rank=rng.randrange(1, 5)) if sh is None else sh
        kw = [["input_type", shape_arg(rng, s, "input")]]
    elif kind == "Output":
        s = shape(rng, rank=rng.randrange(1, 5)) if sh is None else sh
        kw = [["output_type", shape_arg(rng, s, "output")]]
    else:
        raise ValueError(kind)
    if kind not in ("AvgPool2d",) or True:
        maybe_meta(rng, kw, meta_p)
    if kind not in ("Input", "Output") and rng.random() < 0.12:
        # explicitly passed (stale / arbitrary) derived types: every constructor recomputes them
        given = {k for k, _ in kw}
        for fld, port in (("input_type", "input"), ("output_type", "output")):
            if fld in _init_fields(kind) and fld not in given and rng.random() < 0.7:
                bogus = [rng.randrange(1, 9) for _ in range(rng.randrange(1, 4))]
                kw.append([fld, {"d": [[port, {"a": "<i8", "sh": [len(bogus)],
                                               "x": np.array(bogus, dtype="<i8").tobytes().hex()}]]}])
    return {"type": kind, "kwargs": kw}


_FIELDS_CACHE = {}


def _init_fields(kind):
    if kind not in _FIELDS_CACHE:
        import dataclasses
        import nir
        _FIELDS_CACHE[kind] = {f.name for f in dataclasses.fields(getattr(nir, kind)) if f.init}
    return _FIELDS_CACHE[kind]


def shape_arg(rng, s, key):
    """a shape given as ndarray, list, tuple or dict"""
    c = rng.choice(["ndarray", "ndarray32", "ndarray_narrow", "ndarray_be", "list", "tuple", "dict", "dict_seq"])
    a = {"a": "<i8", "sh": [len(s)], "x": np.array(s, dtype="<i8").tobytes().hex()}
    if c == "ndarray":
        return a
    if c == "ndarray_be":
        # a shape array in the other byte order (what a big-endian exporter, or `astype('>i8')`, hands over)
        for d in rng.sample([">i8", ">i4", ">u2", ">u4"], 4):
            info = np.iinfo(np.dtype(d))
            if all(info.min <= v <= info.max for v in s):
                r = {"a": d, "sh": [len(s)], "x": np.array(s, dtype=np.dtype(d)).tobytes().hex()}
                return r if rng.random() < 0.6 else {"d": [[key, r]]}
        return a
    if c == "ndarray_narrow":
        # the narrowest integer dtype that holds the entries (their *product* need not fit)
        for d in ["|u1", "|i1", "<u2", "<i2", "<i4"]:
            info = np.iinfo(np.dtype(d))
            if all(info.min <= v <= info.max for v in s):
                return {"a": d, "sh": [len(s)], "x": np.array(s, dtype=np.dtype(d)).tobytes().hex()}
        return a
    if c == "ndarray32":
        if any(not (-2 ** 31 <= v < 2 ** 31) for v in s):
            return a
        return {"a": "<i4", "sh": [len(s)], "x": np.array(s, dtype="<i4").tobytes().hex()}
    if c == "list":
        return {"l": [pyint(v) for v in s]}
    if c == "tuple":
        return {"t": [pyint(v) for v in s]}
    if c == "dict_seq":
        # a dictionary passes through parse_shape_argument unconverted: plain sequences stay plain
        seq = [pyint(v) for v in s]
        return {"d": [[key, {"t": seq} if rng.random() < 0.5 else {"l": seq}]]}
    return {"d": [[key, a]]}


# ---------------------------------------------------------------------------------------
# graphs
# ---------------------------------------------------------------------------------------
def out_shape_of(kind, recipe, in_shape):
    """ground-truth output shape of a node recipe given its input shape (forward oracle)"""
    kw = dict((k, v) for k, v in recipe["kwargs"])
    from canon import build
    if kind in ELEMENTWISE or kind == "CubaLIF" or kind in ("Input", "Output"):
        return list(in_shape)
    if kind in ("Affine", "Linear"):
        w = kw["weight"]["sh"]
        return list(w[:-2]) + [w[-2]]
    if kind == "Flatten":
        s, e = kw["start_dim"]["i"], kw["end_dim"]["i"]
        r = len(in_shape)
        s2 = s + r if s < 0 else s
        e2 = e + r if e < 0 else e
        return list(in_shape[:s2]) + [int(np.prod(in_shape[s2:e2 + 1]))] + list(in_shape[e2 + 1:])

    def per_axis(name, naxes):
        v = build(kw[name])
        if isinstance(v, str):
            return v
        a = np.asarray(v).ravel()
        return [int(a[0])] * naxes if a.size == 1 else [int(x) for x in a]

    def sl(n, p, d, k, s):
        span, off, c = d * (k - 1) + 1, 0, 0
        while off + span <= n + 2 * p:
            c += 1
            off += s
        return c
    if kind == "Conv1d":
        w = kw["weight"]["sh"]
        pad = per_axis("padding", 1)
        if pad == "same":
            return [w[0], in_shape[1]]
        p = [0] if pad == "valid" else pad
        return [w[0], sl(in_shape[1], p[0], per_axis("dilation", 1)[0], w[2], per_axis("stride", 1)[0])]
    if kind == "Conv2d":
        w = kw["weight"]["sh"]
        pad = per_axis("padding", 2)
        if pad == "same":
            return [w[0]] + list(in_shape[1:])
        p = [0, 0] if pad == "valid" else pad
        d, s = per_axis("dilation", 2), per_axis("stride", 2)
        return [w[0]] + [sl(in_shape[1 + i], p[i], d[i], w[2 + i], s[i]) for i in range(2)]
    if kind in ("SumPool2d", "AvgPool2d"):
        k, s, p = per_axis("kernel_size", 2), per_axis("stride", 2), per_axis("padding", 2)
        return [in_shape[0]] + [sl(in_shape[1 + i], p[i], 1, k[i], s[i]) for i in range(2)]
    raise ValueError(kind)


def node_for_input(rng, in_shape, allow=None):
    """a valid node recipe consuming `in_shape`; returns (kind, recipe)"""
    rank = len(in_shape)
    kinds = ["Scale", "Threshold", "Delay", "I", "IF", "LI", "LIF", "CubaLIF"]
    if rank >= 1:
        kinds += ["Affine", "Linear", "Flatten", "Flatten"]
    if rank == 2:
        kinds += ["Conv1d"] * 3
    if rank == 3:
        kinds += ["Conv2d"] * 4 + ["SumPool2d", "AvgPool2d"] * 2
    if allow:
        kinds = [k for k in kinds if k in allow] or kinds
    for _ in range(50):
        kind = rng.choice(kinds)
        if kind in ("SumPool2d", "AvgPool2d"):
            rec = node_recipe(rng, kind, meta_p=0.1)
            try:
                o = out_shape_of(kind, rec, in_shape)
            except Exception:
                continue
            if min(o) < 1:
                continue
            return kind, rec
        if kind == "Conv1d" and in_shape[1] < 1:
            continue
        rec = node_recipe(rng, kind, sh=list(in_shape), meta_p=0.1,
                          dtype=(rng.choice(["<f8", "<f8", "<f8", "<i8", "<i4"]) if kind in ELEMENTWISE else None))
        o = out_shape_of(kind, rec, in_shape)
        if min(o + [1]) < 1:
            continue
        return kind, rec
    rec = node_recipe(rng, "Scale", sh=list(in_shape), meta_p=0.0, dtype="<f8")
    return "Scale", rec


def consistent_graph(rng, max_nodes=8, erase=True, wrong_output=True):
    """A type-consistent graph built forwards from an Input, with fan-out, fan-in,
    residual/recurrent/self/parallel edges between nodes of equal shape; returns
    (recipe, truth) where truth maps node name -> (in_shape, out_shape) and the recipe may
    have erasable annotations erased."""
    n_in = 1 if rng.random() < 0.8 else 2
    nodes, edges, truth = [], [], {}
    frontier = []   # (name, out_shape)
    for i in range(n_in):
        s = shape(rng, rank=rng.randrange(1, 4), lo=1, hi=6)
        if rng.random() < 0.5:
            s = [rng.randrange(1, 3), rng.randrange(4, 12), rng.randrange(4, 12)]
        elif rng.random() < 0.15:
            s = [1] * rng.randrange(1, 3)             # one-element signals
        name = f"in{i}" if rng.random() < 0.7 else rng.choice(["input", "é", "x y"]) + str(i)
        nodes.append([name, {"type": "Input", "kwargs": [["input_type", shape_arg(rng, s, "input")]]}])
        truth[name] = (list(s), list(s))
        frontier.append((name, list(s)))
    n_mid = rng.randrange(1, max_nodes)
    for i in range(n_mid):
        src, s = rng.choice(frontier)
        kind, rec = node_for_input(rng, s)
        name = f"n{i}"
        o = out_shape_of(kind, rec, s)
        nodes.append([name, rec])
        truth[name] = (list(s), o)
        edges.append([src, name])
        frontier.append((name, o))
    # outputs on some sinks / random nodes
    outs = rng.sample(frontier[n_in:], k=min(len(frontier) - n_in, rng.randrange(1, 3)))
    for i, (src, s) in enumerate(outs):
        name = f"out{i}"
        nodes.append([name, {"type": "Output", "kwargs": [["output_type", shape_arg(rng, s, "output")]]}])
        truth[name] = (list(s), list(s))
        edges.append([src, name])
    # extra edges between shape-compatible nodes (fan-in, residual, recurrent, self, parallel)
    names = [n for n, _ in nodes]
    for _ in range(rng.randrange(0, 4)):
        a = rng.choice(names)
        cands = [b for b in names if truth[b][0] == truth[a][1]
                 and dict(nodes)[b]["type"] != "Input"]
        if cands:
            edges.append([a, rng.choice(cands)])
    if rng.random() < 0.3 and edges:
        edges.append(list(rng.choice(edges)))
    rng.shuffle(edges)
    if rng.random() < 0.5:
        rng.shuffle(nodes)
    erased = []
    if erase:
        for name, rec in nodes:
            t = rec["type"]
            if rng.random() < 0.6:
                if t in ("Conv1d", "Conv2d"):
                    rec["kwargs"] = [[k, (None if k == "input_shape" else v)] for k, v in rec["kwargs"]]
                    erased.append(name)
                elif t == "Flatten":
                    rec["kwargs"] = [[k, (None if k == "input_type" else v)] for k, v in rec["kwargs"]]
                    erased.append(name)
                elif t == "Output":
                    if wrong_output and rng.random() < 0.4:
                        t = truth[name][0]
                        how = rng.random()
                        if how < 0.4:
                            wrong = [x + 1 for x in t] + ([2] if rng.random() < 0.3 else [])
                        elif how < 0.6 and len(t) >= 2:
                            wrong = t[1:]                       # same trailing entries, lower rank (broadcastable)
                        elif how < 0.8:
                            wrong = [t[-1]] + list(t)            # same entries, higher rank
                        else:
                            wrong = [1] * len(t) if any(x != 1 for x in t) else list(t) + [3]
                        rec["kwargs"] = [["output_type", shape_arg(rng, wrong, "output")]]
                    else:
                        rec["kwargs"] = [["output_type", None]]
                    erased.append(name)
                if name in erased and rng.random() < 0.35 and not any(k == "metadata" for k, _ in rec["kwargs"]):
                    rec["kwargs"].append(["metadata", metadata(rng)])     # an undefined annotation *and* metadata
    g = {"type": "NIRGraph", "nodes": nodes, "edges": edges, "meta": None}
    if rng.random() < 0.35:
        g, truth, erased = rename_nodes(rng, g, truth, erased)
    return g, truth, erased


def rename_nodes(rng, g, truth, erased):
    """names that collide with nothing but *look* like other names: single characters taken from an Input's name,
    a name extended by a dotted suffix, prefixes of one another, reserved words"""
    names = [n for n, _ in g["nodes"]]
    inputs = [n for n, r in g["nodes"] if r["type"] == "Input"]
    mapping = {}
    taken = set(names)
    for n in rng.sample(names, min(len(names), rng.randrange(1, 4))):
        style = rng.random()
        if style < 0.4 and inputs:
            cand = rng.choice(list(rng.choice(inputs)))                 # one character of an Input's name
        elif style < 0.7:
            cand = rng.choice(names) + rng.choice([".x", ".1", ".input", ".output"])   # other name + dotted suffix
        elif style < 0.85:
            cand = rng.choice(names)[:max(1, len(rng.choice(names)) - 1)]               # a prefix of another name
        else:
            cand = rng.choice(["nodes", "edges", "type", "metadata", "input", "output", "shape"])
        if cand in taken or not cand or "/" in cand:
            continue
        taken.add(cand)
        mapping[n] = cand
    if not mapping:
        return g, truth, erased
    m = lambda x: mapping.get(x, x)
    g = dict(g)
    g["nodes"] = [[m(n), r] for n, r in g["nodes"]]
    g["edges"] = [[m(a), m(b)] for a, b in g["edges"]]
    return g, {m(k): v for k, v in truth.items()}, [m(x) for x in erased]


NAMES += ["a\x00b", "\x00x", "nul\x00"]
# names that look like escape sequences of the characters a link name cannot hold (a writer that escapes '/' must
# escape its own escape character too)
NAMES += ["enc%2Ffc1", "%2F", "a%25b", "a%2fb", "x%00y", "a\\b", "a&#47;b", "a%b"]
# names that look like numbers to some predicates and not to others (digits that int() refuses, non-ASCII decimals),
# and the numeric labels of legacy sequential graphs, whose alphabetical and numerical orders differ
NAMES += ["²", "①", "٣", "10", "2", "007", "1e3", "-1", "½"]
# trailing blanks are part of a name (padding of fixed-width strings is not)
NAMES += ["relay ", "trail  ", "tab\t"]
# names that are not in Unicode normal form C (a decomposed accent, a compatibility character) stay as they are
NAMES += ["cafe\u0301", "\u212b", "\ufeffn"]


def rand_name(rng, slash=False):
    r = rng.random()
    if r < 0.6:
        n = rng.choice(NAMES)
    elif r < 0.8:
        n = "".join(rng.choice("abcxyz01_- .éß键😀µ") for _ in range(rng.randrange(1, 8)))
    else:
        n = "n%d" % rng.randrange(1000)
    if slash and rng.random() < 0.5:
        n = n + "/" + rng.choice(["b", "x", ""])
    if n in (".", ""):
        n = "dot"
    return n


def random_graph(rng, depth=0, maxdepth=3, max_nodes=8, slash=False, meta_p=0.3, share_p=0.0):
    """Any graph of the C01 domain: all primitives, nesting, arbitrary names, arbitrary edge
    multiset (cyclic, self-loops, parallel, dangling, dotted), metadata anywhere.  Not
    necessarily type-consistent."""
    n = rng.randrange(0, max_nodes + 1)
    nodes, used = [], set()
    for _ in range(n):
        name = rand_name(rng, slash=slash)
        if name in used:
            continue
        used.add(name)
        if depth < maxdepth and rng.random() < 0.15:
            nodes.append([name, random_graph(rng, depth + 1, maxdepth, max_nodes=4, slash=slash, meta_p=meta_p, share_p=share_p)])
        else:
            kind = rng.choice(LEAF_KINDS)
            nodes.append([name, node_recipe(rng, kind, meta_p=meta_p)])
    share = []
    leafs = [(x, r) for x, r in nodes if r["type"] != "NIRGraph"]
    if leafs and rng.random() < share_p:
        # the same node *object* registered under a second name (shared layer): in the value world it is simply an
        # equal node; on real objects every observer must still treat the two names independently
        import copy
        x, r = rng.choice(leafs)
        if rng.random() < 0.7 and not any(k == "metadata" for k, _ in r["kwargs"]):
            r["kwargs"].append(["metadata", metadata(rng)])
        twin = x + rng.choice(["_twin", "2", ".b", " copy"])
        if twin not in used and "/" not in twin:
            used.add(twin)
            nodes.insert(rng.randrange(0, len(nodes) + 1), [twin, copy.deepcopy(r)])
            share.append([x, twin])
    names = [x for x, _ in nodes]
    edges = []
    for _ in range(rng.randrange(0, 2 * max(1, len(names)))):
        def endpoint():
            r = rng.random()
            if names and r < 0.75:
                return rng.choice(names)
            if names and r < 0.9:
                x = rng.choice(names)
                inner = [n for n, _ in dict(nodes)[x].get("nodes", [])] if dict(nodes)[x]["type"] == "NIRGraph" else []
                if inner and rng.random() < 0.7:
                    return x + "." + rng.choice(inner)            # a port of the nested graph, by its real name
                return x + "." + rng.choice(["input", "output", "x", "a.b"])
            return rng.choice(["ghost", "nowhere.x", "é"])
        edges.append([endpoint(), endpoint()])
    if edges and rng.random() < 0.3:
        edges.append(list(rng.choice(edges)))
    if names and rng.random() < 0.3:
        x = rng.choice(names)
        edges.append([x, x])
    meta = metadata(rng) if rng.random() < meta_p else None
    g = {"type": "NIRGraph", "nodes": nodes, "edges": edges, "meta": meta}
    if share:
        g["share"] = share
    return g


def dtype_twins(g):
    """two copies of a recipe that are equal as numbers everywhere but differ in the dtype of every float64 array
    (float64 holding float32-representable values / float32): what a re-export at another precision looks like"""
    import copy

    def walk(x, to32):
        if isinstance(x, dict):
            if set(x) >= {"a", "sh", "x"} and x["a"] == "<f8":
                a = np.frombuffer(bytes.fromhex(x["x"]), dtype="<f8")
                with np.errstate(all="ignore"):
                    a32 = np.nan_to_num(a, nan=0.5, posinf=2.0, neginf=-2.0).astype("<f4")
                    a32 = np.nan_to_num(a32, nan=0.5, posinf=2.0, neginf=-2.0)
                out = dict(x)
                out["a"] = "<f4" if to32 else "<f8"
                out["x"] = (a32 if to32 else a32.astype("<f8")).tobytes().hex()
                out.pop("layout", None)
                return out
            return {k: walk(v, to32) for k, v in x.items()}
        if isinstance(x, list):
            return [walk(v, to32) for v in x]
        return x
    return walk(copy.deepcopy(g), False), walk(copy.deepcopy(g), True)
