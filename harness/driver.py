"""Runs the compiled Lean driver over a batch of requests."""
import json
import os
import subprocess

HERE = os.path.dirname(os.path.abspath(__file__))
LEAN_DIR = os.path.join(os.path.dirname(HERE), "lean")
DRIVER = os.path.join(LEAN_DIR, ".lake", "build", "bin", "driver")


class DriverError(Exception):
    pass


def run(requests, timeout=600):
    if not requests:
        return []
    data = "\n".join(json.dumps(r, separators=(",", ":")) for r in requests) + "\n"
    try:
        p = subprocess.run([DRIVER], input=data.encode("utf-8"), stdout=subprocess.PIPE,
                           stderr=subprocess.PIPE, timeout=timeout)
    except FileNotFoundError as e:
        raise DriverError(f"driver not built: {e}")
    if p.returncode != 0:
        raise DriverError(f"driver exit {p.returncode}: {p.stderr.decode()[:500]}")
    lines = p.stdout.decode("utf-8").splitlines()
    if len(lines) != len(requests):
        raise DriverError(f"driver answered {len(lines)} of {len(requests)} lines")
    return [json.loads(l) for l in lines]
