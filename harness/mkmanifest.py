"""Writes MANIFEST.json from the registry (so the two never drift)."""
import json
import os
import sys

HERE = os.path.dirname(os.path.abspath(__file__))
sys.path.insert(0, HERE)
sys.path.insert(0, "/repo")
import registry  # noqa

VERIF = os.path.dirname(HERE)
ALL = [f"C{i:02d}" for i in range(1, 21)]

checks = []
for pid in ALL:
    if pid not in registry.REG or not registry.REG[pid]['theorems']:
        continue
    r = registry.REG[pid]
    checks.append({
        "property_id": pid,
        "quick_cmd": f"./check {pid} --tier quick",
        "thorough_cmd": f"./check {pid} --tier thorough",
        "evidence_file": f"evidence/{pid}.json",
        "replay_cmd_template": f"./check {pid} --replay {{path}}",
        "engine": "lean4-model+correspondence",
        "level_claimed": {"category": "proof", "text": r["level_text"], "design_ref": r.get("design_ref", "DESIGN.md section 3, " + pid)},
        "level_note": r["level_note"],
        "technique": r["technique"],
    })
na = [{"property_id": pid, "reason": registry.NOT_APPLICABLE.get(pid, "check not built yet; no claim is made for this property")}
      for pid in ALL if pid not in registry.REG or not registry.REG[pid]['theorems']]
m = {
    "version": 1,
    "setup_cmd": "cd lean && lake build driver NirVerif",
    "hooks": {"guard": "NIR_VERIF", "enable": "no source hooks: every observation is at the public API; checks set NIR_VERIF=1 for symmetry only",
              "baseline_off_cmd": "cd /repo && /venv/bin/python -m pytest -ra -q -p no:cacheprovider --timeout=900 --continue-on-collection-errors",
              "source_commits": [], "add_only": True},
    "engines": [{"name": "lean4-model+correspondence", "path": "lean/", "serves_properties": [c["property_id"] for c in checks],
                 "kind_free_text": "Lean 4 model + theorems (lake), translator harness/translate.py, compiled line-protocol driver, Python correspondence harness and independent oracles"}],
    "checks": checks,
    "not_applicable": na,
    "notes": "All checks: ./check <id> [--tier quick|thorough]; VERIF_SEED seeds every generator. See DESIGN.md.",
}
with open(os.path.join(VERIF, "MANIFEST.json"), "w") as f:
    json.dump(m, f, indent=1)
print("checks:", [c["property_id"] for c in checks], "not_applicable:", len(na))
