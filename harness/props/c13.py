"""C13 — dictionary form is a faithful, independent copy."""
import copy

import numpy as np

import compare
import gen
from canon import canon, err_name
from core import impl_construct

DOC_FIELDS = None


def plain_defects(d, path="d"):
    """only plain dicts, strings, numbers, tuples/lists and arrays"""
    bad = []
    if isinstance(d, dict):
        if type(d) is not dict:
            bad.append(f"{path}: dict subclass {type(d).__name__}")
        for k, v in d.items():
            if not isinstance(k, str):
                bad.append(f"{path}: non-string key {k!r}")
            bad += plain_defects(v, f"{path}/{k}")
    elif isinstance(d, (list, tuple)):
        for i, v in enumerate(d):
            bad += plain_defects(v, f"{path}[{i}]")
    elif d is None or isinstance(d, (str, bytes, int, float, bool, np.ndarray, np.generic)):
        pass
    else:
        bad.append(f"{path}: {type(d).__name__} is not a plain value")
    return bad


def key_defects(node, d, path="d"):
    """keys are the documented field names (dataclass fields minus derived types) plus 'type',
    with the documented overrides (Input/Output 'shape', Flatten 'input_type')"""
    import dataclasses
    import nir
    bad = []
    want = {f.name for f in dataclasses.fields(node)} - {"input_type", "output_type"} | {"type"}
    if isinstance(node, (nir.Input, nir.Output)):
        want |= {"shape"}
    if isinstance(node, nir.Flatten):
        want |= {"input_type"}
    if set(d.keys()) != want:
        bad.append(f"{path}: keys {sorted(set(d.keys()) ^ want)} unexpected/missing")
    if d.get("type") != type(node).__name__:
        bad.append(f"{path}: type tag {d.get('type')!r}")
    if isinstance(node, nir.NIRGraph):
        if list(d["nodes"].keys()) != list(node.nodes.keys()):
            bad.append(f"{path}: nodes keys differ")
        for k, c in node.nodes.items():
            if k in d["nodes"]:
                bad += key_defects(c, d["nodes"][k], f"{path}/nodes/{k}")
    return bad


def _run_main(ctx):
    import nir
    from core import run_graph_ops
    rng = ctx.rng
    cases, obs, reqs = [], [], []
    cases2, obs2, reqs2 = [], [], []
    for i in range(ctx.n(250)):
        if i % 3 == 0:
            g, _, _ = gen.consistent_graph(rng, max_nodes=6)    # carries None annotations
        else:
            g = gen.random_graph(rng, share_p=0.2)
        case = {"op": "dict", "graph": g}
        ctx.case(case); ctx.count("graphs")
        try:
            graph = impl_construct(g)
        except Exception as e:  # noqa
            ctx.count("construct_rejected")
            continue
        if i % 4 == 1:
            # byte strings as metadata values (the dictionary form carries any plain value as it is)
            try:
                import nir as _n
                cands = [n for n in graph.nodes.values() if not isinstance(n, _n.NIRGraph)] + [graph]
                for t in rng.sample(cands, min(len(cands), 2)):
                    t.metadata = dict(t.metadata or {})
                    t.metadata["raw"] = rng.choice([b"abc", b"caf\xc3\xa9", b"\xff\xfe", b""])
                    t.metadata.setdefault("deep", {})
                    if isinstance(t.metadata["deep"], dict):
                        t.metadata["deep"]["raw"] = b"nested bytes"
                case["bytes_metadata"] = True; ctx.count("bytes_metadata")
            except Exception:
                pass
        inferred = False
        if i % 3 == 0 and rng.random() < 0.5:
            # the dictionary form of a graph as inference left it (annotations written by infer_types, in whatever
            # value types it writes them, are part of the graph now)
            try:
                from core import quiet
                with quiet():
                    graph.infer_types()
                inferred = True; case["inferred_first"] = True; ctx.count("inferred_first")
            except Exception:
                ctx.count("inference_raised"); continue
        before = compare.snapshot(graph)
        try:
            d = graph.to_dict()
            if not inferred and not case.get("bytes_metadata"):
                c1 = {"op": "to_dict", "graph": g}
                cases.append(c1); obs.append({"d": canon(d)}); reqs.append(c1)
            ops = ["infer", "dict_rt"] if inferred else ["dict_rt"]
            c2 = {"op": "graph", "graph": g, "ops": ops}
            steps, _ = run_graph_ops(g, ops)
            cases2.append(c2); obs2.append({"steps": steps}); reqs2.append(c2)
        except Exception as e:  # noqa
            ctx.violate(case, "to_dict raised", {"site": "to_dict", "what": "raised"}, observed=err_name(e))
            continue
        if compare.snapshot(graph) != before:
            ctx.violate(case, "to_dict changed the graph", {"site": "to_dict", "what": "mutated"})
        bad = plain_defects(d) + key_defects(graph, d)
        if bad:
            ctx.violate(case, "to_dict output is not plain / not keyed by documented fields",
                        {"site": "to_dict", "what": "plain"}, observed=bad[:5])
        # independence: no shared mutable objects, no shared memory
        A, B = compare.mutable_ids(graph), compare.mutable_ids(d)
        shared = set(A) & set(B)
        mem = compare.shares_memory(A, B)
        if shared or mem:
            kinds = sorted({type(A[i]).__name__ for i in shared})
            where = _where_shared(graph, d)
            ctx.violate(case, "to_dict output shares mutable state with the graph",
                        {"site": "to_dict", "what": "alias", "where": where}, observed={"objects": kinds, "memory": mem[:3]})
        # round trip: strict equivalence
        try:
            d_in = copy.deepcopy(d)
            g2 = nir.NIRGraph.from_dict(d_in)
        except Exception as e:  # noqa
            ctx.violate(case, "from_dict(to_dict(g)) raised", {"site": "from_dict", "what": "raised"}, observed=err_name(e))
            continue
        # (derived types are compared for graphs as constructed; after inference they hold what inference derived, which
        # the dictionary form deliberately does not carry - the property compares types with fresh construction)
        diff = compare.graph_diff(graph, g2, strict=True, types=not inferred)
        if diff:
            ctx.violate(case, "from_dict(to_dict(g)) is not strictly equivalent to g",
                        {"site": "from_dict", "what": "diff", "first": diff[0].split(":")[-1].strip()[:40]}, observed=diff[:5])
        # mutate the dictionary afterwards: the graph must not change
        d2 = graph.to_dict()
        _scribble(d2)
        if compare.snapshot(graph) != before:
            ctx.violate(case, "mutating the dictionary changed the graph",
                        {"site": "to_dict", "what": "alias", "where": "mutation"})
    ctx.compare("dicts", cases, obs, reqs)
    ctx.compare("dicts", cases2, obs2, reqs2)


def _where_shared(graph, d, path=""):
    import nir
    out = []
    for k, n in graph.nodes.items():
        sub = d["nodes"].get(k) if isinstance(d.get("nodes"), dict) else None
        if sub is None:
            continue
        if isinstance(n, nir.NIRGraph):
            out += [_where_shared(n, sub)]
        else:
            A, B = compare.mutable_ids(n), compare.mutable_ids(sub)
            if set(A) & set(B) or compare.shares_memory(A, B):
                out.append(type(n).__name__)
    flat = sorted({x for x in out if isinstance(x, str)} | {y for x in out if isinstance(x, list) for y in x})
    return flat[:4]


def _scribble(d):
    if isinstance(d, dict):
        for k in list(d.keys()):
            v = d[k]
            if isinstance(v, np.ndarray) and v.size and v.dtype.kind in "fiu" and v.flags.writeable:
                v.flat[0] = v.flat[0] + 1
            elif isinstance(v, (dict, list)):
                _scribble(v)
        d["__scribble__"] = 1
    elif isinstance(d, list):
        for v in d:
            _scribble(v)
        d.append("scribble")


def run(ctx):
    _run_main(ctx)
    # history independence: the same call on a live graph object with a history of edits / calls and on a twin rebuilt
    # from its public state (harness/history.py)
    import history
    history.run(ctx, ["to_dict", "dict_rt"], {"to_dict": "to_dict of a graph object with a history", "dict_rt": "from_dict(to_dict(g)) of a graph object with a history"})
