"""C03 — written files follow the published on-disk layout."""
import io
import os
import tempfile

import numpy as np

import gen
import h5raw
from canon import err_name
from core import impl_construct, jdiff


def run(ctx):
    import nir
    from nir.serialization import read_version
    rng = ctx.rng
    cases, obs, reqs = [], [], []
    tmpdir = tempfile.mkdtemp(prefix="nirverif-c03-", dir="/var/tmp")
    try:
        for i in range(ctx.n(300)):
            g = gen.random_graph(rng, meta_p=0.35, share_p=0.25) if i % 4 else gen.consistent_graph(rng, erase=False)[0]
            if rng.random() < 0.25:
                # an Input / Output whose own type was re-assigned after construction (e.g. a widened last layer),
                # the mirrored side left alone
                shared = {x for pair in g.get("share", []) for x in pair}
                ports = [r for n, r in g["nodes"] if r["type"] in ("Input", "Output") and "types" not in r and n not in shared]
                if ports:
                    r = rng.choice(ports)
                    a = gen.shape(rng, rank=rng.randrange(1, 3), hi=7)
                    b = [x + 2 for x in a]
                    mk = lambda key, sh: {"d": [[key, {"a": "<i8", "sh": [len(sh)], "x": np.array(sh, dtype="<i8").tobytes().hex()}]]}
                    r["types"] = [mk("input", b if r["type"] == "Input" else a), mk("output", a if r["type"] == "Input" else b)]
                    ctx.count("reassigned_port_type")
            case = {"op": "write_layout", "graph": g}
            ctx.case(case); ctx.count("graphs")
            try:
                graph = impl_construct(g)
            except Exception:
                ctx.count("construct_rejected"); continue
            path = os.path.join(tmpdir, "f.nir")
            if os.path.exists(path):
                os.remove(path)
            try:
                nir.write(path, graph)
            except Exception as e:  # noqa
                ctx.count("write_rejected"); continue
            got = h5raw.traverse_file(path)
            from props.c01 import model_tree
            c1 = {"op": "write", "graph": g, "version": nir.version}
            cases.append(c1); obs.append({"file": model_tree(got)}); reqs.append(c1)
            try:
                want = h5raw.ref_file(g, nir.version)
            except Exception as e:  # noqa
                ctx.count("reference_declined"); continue
            if got != want:
                d = jdiff(want, got)
                ctx.violate(case, "written file differs from the published layout",
                            {"site": "write", "what": "layout", "first": _where(d[0][0], want, got)},
                            observed=[list(x) for x in d[:4]])
            try:
                v = read_version(path)
                if v != nir.version:
                    ctx.violate(case, "read_version does not return the library version", {"site": "read_version"},
                                observed=v, required=nir.version)
            except Exception as e:  # noqa
                ctx.violate(case, "read_version raised", {"site": "read_version", "what": "raised"}, observed=err_name(e))
            ctx.count("n_edges_0" if not g["edges"] else "n_edges_pos")
        ctx.compare("files", cases, obs, reqs)
    finally:
        import shutil
        shutil.rmtree(tmpdir, ignore_errors=True)


def _where(path, want, got):
    """name the dataset/group at which the first difference sits (for known-finding matching)"""
    parts = [p for p in path.split("/") if p]
    node, names = want, []
    try:
        for p in parts:
            if isinstance(node, dict):
                node = node[p]
            else:
                node = node[int(p)]
                if isinstance(node, list) and node and isinstance(node[0], str):
                    names.append(node[0])
    except Exception:
        pass
    return "/".join(names[-2:]) + ":" + (parts[-1] if parts else "")
