"""C05 — declared node types equal the shapes the primitive's mathematics implies."""
import itertools

import numpy as np

import gen
from canon import build, canon
from core import file_roundtrip, observe_construct


def check_type_dict(d, key, want, seq_ok=False):
    """single-entry dict keyed `key` whose value is an integer ndarray equal to `want`
    (`seq_ok`: the caller itself supplied a type dictionary holding a plain sequence, which
    parse_shape_argument passes through as given; the property's quantifier lists the dict form without saying
    what it holds, so only the *content* is required then)"""
    if not isinstance(d, dict) or list(d.keys()) != [key]:
        return f"not a single-entry dict keyed {key!r}"
    v = d[key]
    if seq_ok and isinstance(v, (list, tuple)):
        return None if [int(x) for x in v] == list(want) else f"value {list(v)} != {list(want)}"
    if not isinstance(v, np.ndarray):
        return f"value is {type(v).__name__}, not ndarray"
    if v.dtype.kind not in "iu":
        return f"dtype {v.dtype} is not an integer dtype"
    if v.ndim != 1 or [int(x) for x in v] != list(want):
        return f"value {v.tolist()} != {list(want)}"
    return None


def implied_shapes(kind, kwargs):
    """numpy as the executable reference: evaluate the documented equation on a real
    operand and read off operand / result shapes"""
    kw = {k: build(v) for k, v in kwargs}
    if kind in ("Affine", "Linear"):
        w = np.ones(kw["weight"].shape)
        batch, n = w.shape[:-2], w.shape[-1]
        x = np.ones(batch + (n,))
        y = np.matmul(w, x[..., None])[..., 0]
        if kind == "Affine":
            y = y + np.ones(kw["bias"].shape)
        return x.shape, y.shape
    name = {"Scale": "scale", "Threshold": "threshold", "Delay": "delay", "CubaLIF": "v_threshold"}.get(kind, "r")
    p = np.ones(np.shape(kw[name]))
    x = np.ones(p.shape)
    y = (x > p) if kind == "Threshold" else x * p
    return x.shape, y.shape


def run(ctx):
    rng = ctx.rng
    cases, obs, reqs = [], [], []

    def one(rec, want_in, want_out, label):
        o, node = observe_construct(rec)
        case = {"op": "construct", **rec}
        ctx.case(case); ctx.count(label)
        if node is None:
            ctx.violate(case, "valid primitive rejected", {"site": rec["type"], "what": "rejected"}, observed=o)
        else:
            seq_ok = any(isinstance(v, dict) and "d" in v and any(isinstance(x[1], dict) and ("t" in x[1] or "l" in x[1])
                                                                    for x in v["d"]) for _, v in rec["kwargs"])
            e1 = check_type_dict(node.input_type, "input", want_in, seq_ok)
            e2 = check_type_dict(node.output_type, "output", want_out, seq_ok)
            rank0 = len(want_in) == 0
            if e1 or e2:
                ctx.violate(case, f"{rec['type']} declared types are not the implied shapes: "
                            f"input: {e1}; output: {e2}",
                            {"site": rec["type"], "rank0": rank0, "what": "types",
                             "detail": (e1 or e2).split(",")[0].split(" ")[0:3]},
                            observed={"in": canon(node.input_type), "out": canon(node.output_type)},
                            required={"in": list(want_in), "out": list(want_out)})
            else:
                # stability under dict and file round trips
                import nir
                for how in ("dict", "file", "dict-in-context"):
                    try:
                        if how == "dict-in-context":
                            # the node inside a graph whose neighbours have other shapes and an open Output:
                            # a round trip must not re-type it from its surroundings
                            other = np.array([7, 1, 2][: max(1, len(want_in) % 3 + 1)])
                            g = nir.NIRGraph(nodes={"i": nir.Input(other), "n": node, "o": nir.Output(None)},
                                             edges=[("i", "n"), ("n", "o")])
                            g2 = nir.NIRGraph.from_dict(g.to_dict())
                        else:
                            g = nir.NIRGraph(nodes={"n": node}, edges=[])
                            g2 = nir.NIRGraph.from_dict(g.to_dict()) if how == "dict" else file_roundtrip(g)
                        n2 = g2.nodes["n"]
                        e1 = check_type_dict(n2.input_type, "input", want_in, seq_ok)
                        e2 = check_type_dict(n2.output_type, "output", want_out, seq_ok)
                    except Exception as ex:  # noqa
                        e1 = f"{how} round trip raised {type(ex).__name__}"
                    if e1 or e2:
                        ctx.violate(case, f"types after {how} round trip are not the implied shapes: {e1}; {e2}",
                                    {"site": rec["type"], "what": f"{how}-roundtrip", "rank0": rank0},
                                    observed=str(e1 or e2))
        cases.append(case); obs.append(o); reqs.append(case)

    # element-wise: enumerated ranks 0..4 x small axes, all dtypes cycled
    dts = itertools.cycle(gen.ALL_DTYPES)
    elementwise = list(gen.ELEMENTWISE) + ["CubaLIF"]
    maxrank = 4 if ctx.tier == "thorough" else 3
    for kind in elementwise:
        for rank in range(0, maxrank + 1):
            shapes = list(itertools.product([1, 2, 3], repeat=rank))
            if ctx.tier == "quick" and len(shapes) > 9:
                shapes = rng.sample(shapes, 9)
            for sh in shapes:
                dt = next(dts)
                if kind == "CubaLIF":
                    rec = gen.node_recipe(rng, kind, sh=list(sh), meta_p=0.0)
                else:
                    rec = gen.node_recipe(rng, kind, sh=list(sh), dtype=dt, meta_p=0.0)
                wi, wo = implied_shapes(kind, rec["kwargs"])
                one(rec, wi, wo, f"{kind}_rank{rank}")
    ctx.exhaustive_parts.append(f"element-wise primitives x rank 0..{maxrank} x axis lengths 1..3 (thorough: all; quick: <=9 per rank)")
    # Affine / Linear: weight rank 2..5
    for kind in ("Affine", "Linear"):
        for rank in range(2, 6):
            shapes = list(itertools.product([1, 2, 3], repeat=rank))
            shapes = rng.sample(shapes, min(len(shapes), 12 if ctx.tier == "quick" else 81))
            for sh in shapes:
                dt = next(dts)
                kw = [["weight", gen.arr(rng, list(sh), dt, layout=rng.choice(gen.LAYOUTS))]]
                if kind == "Affine":
                    kw.append(["bias", gen.arr(rng, list(sh[:-2]) + [sh[-2]], dt)])
                rec = {"type": kind, "kwargs": kw}
                wi, wo = implied_shapes(kind, kw)
                one(rec, wi, wo, f"{kind}_rank{rank}")
    # Input / Output: ndarray, list, tuple, dict forms
    for kind, key in (("Input", "input"), ("Output", "output")):
        for _ in range(ctx.n(60)):
            sh = gen.shape(rng, rank=rng.randrange(1, 5), hi=9)
            rec = {"type": kind, "kwargs": [[f"{key}_type", gen.shape_arg(rng, sh, key)]]}
            one(rec, sh, sh, kind)
        # axis lengths past 32 bits (legal: no tensor is allocated for a port) keep their value through every form
        for _ in range(ctx.n(10, 40)):
            sh = gen.shape(rng, rank=rng.randrange(1, 4), hi=9)
            sh[rng.randrange(len(sh))] = rng.choice([2 ** 31, 2 ** 31 + 5, 2 ** 32, 2 ** 40 + 3, 2 ** 62, 2 ** 31 - 1])
            rec = {"type": kind, "kwargs": [[f"{key}_type", gen.shape_arg(rng, sh, key)]]}
            one(rec, sh, sh, kind + "_huge_axis")
        # the shape of a scalar signal (rank 0), as an element-wise node of rank 0 declares it: an empty integer array
        for dt in ("<i8", "<i4"):
            empty = {"a": dt, "sh": [0], "x": ""}
            one({"type": kind, "kwargs": [[f"{key}_type", empty]]}, [], [], kind + "_rank0")
            one({"type": kind, "kwargs": [[f"{key}_type", {"d": [[key, empty]]}]]}, [], [], kind + "_rank0")
    ctx.compare("nodes", cases, obs, reqs)
    # identity of the port primitives at every point inference leaves them in: an Output declared with another shape (same
    # rank, other rank, broadcast-compatible) than what reaches it is re-typed on *both* sides; an Input keeps both sides
    import nir
    from core import quiet
    for _ in range(ctx.n(40, 200)):
        sh = gen.shape(rng, rank=rng.randrange(1, 4), hi=6)
        wrong = rng.choice([[x + 1 for x in sh], sh + [1], sh[:-1] or [7], [1] * len(sh), [sh[0]]])
        form = rng.choice(["ndarray", "list", "tuple", "dict"])
        decl = {"ndarray": np.array(wrong), "list": list(wrong), "tuple": tuple(wrong), "dict": {"output": np.array(wrong)}}[form]
        case = {"op": "output_identity_after_inference", "shape": sh, "declared": wrong, "form": form}
        ctx.case(case); ctx.count("output_identity_after_inference")
        try:
            g = nir.NIRGraph(nodes={"i": nir.Input(np.array(sh)), "s": nir.Scale(np.ones(sh)), "o": nir.Output(decl)},
                             edges=[("i", "s"), ("s", "o")])
            with quiet():
                g.infer_types()
            o = g.nodes["o"]; i = g.nodes["i"]
            got = {"o_in": _ints(o.input_type.get("input")), "o_out": _ints(o.output_type.get("output")),
                   "i_in": _ints(i.input_type.get("input")), "i_out": _ints(i.output_type.get("output")),
                   "graph_out": _ints((g.output_type or {}).get("o", {}).get("output"))}
        except Exception as e:  # noqa
            got = {"raised": type(e).__name__}
        want = {"o_in": sh, "o_out": sh, "i_in": sh, "i_out": sh, "graph_out": sh}
        if got != want:
            ctx.violate(case, "after inference an Output / Input node is not the identity on the shape that reaches it",
                        {"site": "Output", "what": "identity-after-inference", "form": form}, observed=got, required=want)
    # parameters that share their bytes with other parameters of the graph keep their own shapes (hence types)
    import tempfile, shutil
    from props.c01 import big_and_twins
    tmpdir = tempfile.mkdtemp(prefix="nirverif-c05-", dir="/var/tmp")
    try:
        big_and_twins(ctx, tmpdir, big=False)
    finally:
        shutil.rmtree(tmpdir, ignore_errors=True)


def _ints(v):
    return None if v is None else [int(x) for x in np.asarray(v).ravel()]
