"""C18 — deserialisation is closed-world and strict."""
import builtins
import copy
import io
import os
import tempfile

import h5py
import numpy as np

import gen
from canon import build, err_name
from core import impl_construct

WHITELIST = ["Conv1d", "Conv2d", "Delay", "Flatten", "Input", "NIRGraph", "Output", "Affine", "Linear", "Scale",
             "CubaLIF", "I", "IF", "LI", "LIF", "AvgPool2d", "SumPool2d", "Threshold"]
OPTIONAL = {"metadata", "input_type", "output_type"}      # derived types are init fields with defaults
OPTIONAL_BY_KIND = {"Flatten": {"start_dim", "end_dim", "input_type"}, "CubaLIF": {"w_in"}}


def type_strings(rng, n_random):
    import nir
    names = set(dir(nir)) | set(dir(nir.ir)) | set(dir(builtins)) | set(dir(nir.ir.graph)) | set(dir(nir.serialization))
    names |= {"Identity", "NIRNode", "str2NIRNode", "dict2NIRNode", "np", "numpy", "os", "__import__", "eval", "dict",
              "object", "type", "nir.Affine", "nir.ir.Affine", "ir", "serialization", "read", "write", "__all_ir", "__all__",
              "globals", "__builtins__", "Counter", "dataclass", "field", "Any", "Dict", "Optional", "ensure_str",
              "calc_flatten_output", "h5py", "typing", "Types", "Nodes", "Edges"}
    out = set(names)
    for w in WHITELIST:
        out |= {w.lower(), w.upper(), " " + w, w + " ", w + "\n", w + "\x00x", "nir." + w, w + "()", w[:-1], w + "2"}
    for _ in range(n_random):
        out.add("".join(rng.choice("AIFLabcNRGé键😀_ .") for _ in range(rng.randrange(0, 8))))
    return sorted(out - set(WHITELIST))


def run(ctx):
    import nir
    from canon import canon, canon_node
    rng = ctx.rng
    cases, obs, reqs = [], [], []

    def corr(d):
        """model vs implementation on an arbitrary (possibly malformed) node dictionary"""
        try:
            cj = canon(d)
            if "?" in __import__("json").dumps(cj):
                return
            try:
                o = canon_node(nir.dict2NIRNode(copy.deepcopy(d)))
            except Exception as e:  # noqa
                o = {"err": err_name(e)}
            c = {"op": "from_dict", "d": cj}
            cases.append(c); obs.append(o); reqs.append(c)
        except Exception:
            pass
    # ---- closed world: no string outside the whitelist constructs anything -------------------------
    victims = {k: impl_construct(gen.node_recipe(rng, k, meta_p=0)).to_dict() for k in gen.LEAF_KINDS}
    strings = type_strings(rng, 50 if ctx.tier == "quick" else 2000)
    ctx.exhaustive_parts.append("every public/private name of nir, nir.ir, nir.ir.graph, nir.serialization, builtins "
                                "+ case/whitespace variants of the 18 whitelisted names")
    for s in strings:
        for where in ("top", "nested", "bare", "bare-nested"):
            d = copy.deepcopy(victims[rng.choice(gen.LEAF_KINDS)])
            d["type"] = s
            if where.startswith("bare"):
                d = {"type": s}            # a class without mandatory fields would be constructible from this alone
            if where.endswith("nested"):
                d = {"type": "NIRGraph", "nodes": {"a": d}, "edges": []}
            case = {"op": "type_string", "s": s, "where": where}
            ctx.case(case); ctx.count("type_strings")
            if len(cases) < 400 and "\x00" not in s:
                corr(d)
            try:
                obj = nir.dict2NIRNode(d)
                ctx.violate(case, f"type string {s!r} outside the whitelist constructed an object",
                            {"site": "dict2NIRNode", "what": "open-world", "s": s if len(s) < 24 else s[:24]},
                            observed=type(obj).__name__)
            except Exception:
                pass
    # the same through a file
    tmpdir = tempfile.mkdtemp(prefix="nirverif-c18-", dir="/var/tmp")
    try:
        for s in rng.sample(strings, min(len(strings), 60)):
            if "\x00" in s:
                continue
            p = os.path.join(tmpdir, "t.nir")
            with h5py.File(p, "w") as f:
                f.create_dataset("version", data="0.2.0")
                n = f.create_group("node")
                n.create_dataset("type", data=s, dtype=h5py.string_dtype())
                n.create_dataset("weight", data=np.zeros((2, 2)))
            case = {"op": "type_string_file", "s": s}
            ctx.case(case); ctx.count("type_strings_file")
            try:
                obj = nir.read(p)
                ctx.violate(case, f"file with type {s!r} was read into an object", {"site": "read", "what": "open-world"},
                            observed=type(obj).__name__)
            except Exception:
                pass
        # ---- strictness: every single-field deletion, every non-field insertion, at depth ----------
        for kind in gen.LEAF_KINDS + ["NIRGraph"]:
            for rep in range(3 if ctx.tier == "quick" else 12):
                if kind == "NIRGraph":
                    g = gen.random_graph(rng, maxdepth=0, max_nodes=3, meta_p=0.3)
                    try:
                        base = impl_construct(g).to_dict()
                    except Exception:
                        continue
                else:
                    base = impl_construct(gen.node_recipe(rng, kind, meta_p=0.5)).to_dict()
                mandatory = [k for k in base if k not in OPTIONAL and k not in OPTIONAL_BY_KIND.get(kind, set())]
                depth = rep % 3
                for op, key in [("delete", k) for k in mandatory] + [("insert", rng.choice(["extra", "Weight", "weights", "bias2", "dtype", "shape2", "comment"]))]:
                    d = copy.deepcopy(base)
                    if op == "delete":
                        del d[key]
                    else:
                        if key in d:
                            continue
                        d[key] = rng.choice([1, "x", np.zeros(2)])
                    wrapped = d
                    for lvl in range(depth):
                        wrapped = {"type": "NIRGraph", "nodes": {"inner": wrapped, "pad": copy.deepcopy(victims["Scale"])}, "edges": []}
                    case = {"op": "malformed", "kind": kind, "edit": op, "key": key, "depth": depth}
                    ctx.case(case); ctx.count(f"malformed_{op}")
                    corr(wrapped)
                    for via in ("dict", "file"):
                        try:
                            if via == "dict":
                                if kind == "NIRGraph" and depth == 0:
                                    obj = nir.NIRGraph.from_dict(copy.deepcopy(wrapped))
                                else:
                                    obj = nir.dict2NIRNode(copy.deepcopy(wrapped))
                            else:
                                if key in ("nodes", "edges", "type") and op == "delete" and False:
                                    continue
                                p = os.path.join(tmpdir, "m.nir")
                                if not _write_raw(p, wrapped):
                                    continue
                                obj = nir.read(p)
                            ctx.violate(case, f"{kind}: {'missing mandatory' if op == 'delete' else 'unknown extra'} field "
                                        f"{key!r} was {'defaulted' if op == 'delete' else 'ignored'} ({via})",
                                        {"site": via, "what": op, "kind": kind, "depth": depth > 0},
                                        observed=type(obj).__name__)
                        except Exception:
                            pass
        ctx.compare("dicts", cases, obs, reqs)
    finally:
        import shutil
        shutil.rmtree(tmpdir, ignore_errors=True)


def _write_raw(path, d):
    """store an arbitrary (possibly malformed) node dictionary with raw h5py"""
    def rec(group, node):
        for k, v in node.items():
            if isinstance(v, dict):
                rec(group.create_group(k), v)
            elif isinstance(v, str):
                group.create_dataset(k, data=v, dtype=h5py.string_dtype())
            elif v is None:
                return False
            else:
                group.create_dataset(k, data=v)
        return True
    try:
        with h5py.File(path, "w") as f:
            f.create_dataset("version", data="0.2.0")
            return rec(f.create_group("node"), d) is not False
    except Exception:
        return False
