"""C18 — deserialisation is closed-world and strict."""
import builtins
import copy
import io
import os
import tempfile

import h5py
import numpy as np

import gen
from canon import build, err_name
from core import impl_construct

WHITELIST = ["Conv1d", "Conv2d", "Delay", "Flatten", "Input", "NIRGraph", "Output", "Affine", "Linear", "Scale",
             "CubaLIF", "I", "IF", "LI", "LIF", "AvgPool2d", "SumPool2d", "Threshold"]
OPTIONAL = {"metadata", "input_type", "output_type"}      # derived types are init fields with defaults
FIELDS_OF = {}     # kind -> dataclass field names (filled in run)
OPTIONAL_BY_KIND = {"Flatten": {"start_dim", "end_dim", "input_type"}, "CubaLIF": {"w_in"}}


def type_strings(rng, n_random):
    import nir
    names = set(dir(nir)) | set(dir(nir.ir)) | set(dir(builtins)) | set(dir(nir.ir.graph)) | set(dir(nir.serialization))
    names |= {"Identity", "NIRNode", "str2NIRNode", "dict2NIRNode", "np", "numpy", "os", "__import__", "eval", "dict",
              "object", "type", "nir.Affine", "nir.ir.Affine", "ir", "serialization", "read", "write", "__all_ir", "__all__",
              "globals", "__builtins__", "Counter", "dataclass", "field", "Any", "Dict", "Optional", "ensure_str",
              "calc_flatten_output", "h5py", "typing", "Types", "Nodes", "Edges"}
    out = set(names)
    for w in WHITELIST:
        for v in variants_of(w):
            out.add(v)
    for _ in range(n_random):
        out.add("".join(rng.choice("AIFLabcNRGé键😀_ .") for _ in range(rng.randrange(0, 8))))
    return sorted(out - set(WHITELIST))


def variants_of(w):
    return [w.lower(), w.upper(), " " + w, w + " ", w + "   ", "\t" + w, w + "\t", w + "\n", w + "\r\n", w + "\x00x",
            w + "\x00", "nir." + w, w + "()", w[:-1], w + "2", w.swapcase(), w + "\u00a0", "\ufeff" + w]


VARIANT_BASE = {v: w for w in WHITELIST for v in variants_of(w) if v not in WHITELIST}


def run(ctx):
    import nir
    from canon import canon, canon_node
    rng = ctx.rng
    cases, obs, reqs = [], [], []

    def corr(d):
        """model vs implementation on an arbitrary (possibly malformed) node dictionary"""
        try:
            cj = canon(d)
            if "?" in __import__("json").dumps(cj):
                return
            try:
                o = canon_node(nir.dict2NIRNode(copy.deepcopy(d)))
            except Exception as e:  # noqa
                o = {"err": err_name(e)}
            c = {"op": "from_dict", "d": cj}
            cases.append(c); obs.append(o); reqs.append(c)
        except Exception:
            pass
    import dataclasses
    for k in WHITELIST:
        FIELDS_OF[k] = {f.name for f in dataclasses.fields(getattr(nir, k)) if f.init}
    FIELDS_OF["Input"] = FIELDS_OF["Input"] | {"shape"}       # legacy alias accepted by Input/Output.from_dict
    FIELDS_OF["Output"] = FIELDS_OF["Output"] | {"shape"}
    # ---- closed world: no string outside the whitelist constructs anything -------------------------
    victims = {k: impl_construct(gen.node_recipe(rng, k, meta_p=0)).to_dict() for k in gen.LEAF_KINDS}
    strings = type_strings(rng, 50 if ctx.tier == "quick" else 2000)
    ctx.exhaustive_parts.append("every public/private name of nir, nir.ir, nir.ir.graph, nir.serialization, builtins "
                                "+ case/whitespace variants of the 18 whitelisted names")
    for s in strings:
        for where in ("top", "nested", "bare", "bare-nested"):
            base_kind = VARIANT_BASE.get(s)
            if base_kind not in victims:
                base_kind = rng.choice(gen.LEAF_KINDS)
            # a near-miss of a whitelisted name is put on a complete dictionary of *that* class, so that
            # normalising the tag (strip, lower, ...) would yield a well-formed node
            d = copy.deepcopy(victims[base_kind])
            d["type"] = s
            if where.startswith("bare"):
                d = {"type": s}            # a class without mandatory fields would be constructible from this alone
            if where.endswith("nested"):
                d = {"type": "NIRGraph", "nodes": {"a": d}, "edges": []}
            case = {"op": "type_string", "s": s, "where": where}
            ctx.case(case); ctx.count("type_strings")
            if len(cases) < 400 and "\x00" not in s:
                corr(d)
            try:
                obj = nir.dict2NIRNode(d)
                ctx.violate(case, f"type string {s!r} outside the whitelist constructed an object",
                            {"site": "dict2NIRNode", "what": "open-world", "s": s if len(s) < 24 else s[:24]},
                            observed=type(obj).__name__)
            except Exception:
                pass
    # the same through a file
    tmpdir = tempfile.mkdtemp(prefix="nirverif-c18-", dir="/var/tmp")
    try:
        near = sorted(v for v in VARIANT_BASE if VARIANT_BASE[v] in victims)
        file_strings = [(s, "near") for s in (near if ctx.tier != "quick" else rng.sample(near, 90))] + \
                       [(s, "other") for s in rng.sample(strings, min(len(strings), 60))]
        for s, cls in file_strings:
            p = os.path.join(tmpdir, "t.nir")
            d = copy.deepcopy(victims[VARIANT_BASE[s]]) if cls == "near" else {"type": s, "weight": np.zeros((2, 2))}
            d["type"] = s
            nested = rng.random() < 0.4
            if nested:
                d = {"type": "NIRGraph", "nodes": {"a": d, "pad": copy.deepcopy(victims["Scale"])}, "edges": []}
            for store in ("vlen", "fixed"):
                try:
                    with h5py.File(p, "w") as f:
                        f.create_dataset("version", data="0.2.0")
                        _store(f.create_group("node"), d, fixed=(store == "fixed"))
                except Exception:
                    ctx.count("type_strings_file_unwritable")
                    continue
                try:
                    # what the file really holds (HDF5 fixed-length strings are NUL-padded/terminated, so a tag with
                    # a trailing NUL legitimately *is* the shorter name once stored)
                    with h5py.File(p, "r") as f:
                        raw = f["node/nodes/a/type" if nested else "node/type"][()]
                    held = raw.decode("utf8", "replace") if isinstance(raw, bytes) else str(raw)
                except Exception:
                    continue
                if held in WHITELIST:
                    ctx.count("type_strings_file_normalised_by_hdf5")
                    continue
                case = {"op": "type_string_file", "s": s, "stored_as": store, "nested": nested}
                ctx.case(case); ctx.count("type_strings_file"); ctx.count("type_strings_file_" + cls)
                try:
                    obj = nir.read(p)
                    ctx.violate(case, f"file with type {s!r} was read into an object", {"site": "read", "what": "open-world"},
                                observed=type(obj).__name__)
                except Exception:
                    pass
        for s in []:
            case = {}
            try:
                obj = nir.read(p)
                ctx.violate(case, f"file with type {s!r} was read into an object", {"site": "read", "what": "open-world"},
                            observed=type(obj).__name__)
            except Exception:
                pass
        # ---- classes that exist but are not serialisable primitives, addressed with a *well-formed* dictionary -----
        import dataclasses as _dc

        def all_subclasses(c):
            out = []
            for sc in c.__subclasses__():
                out.append(sc); out += all_subclasses(sc)
            return out
        outsiders = [c for c in all_subclasses(nir.ir.NIRNode) if c.__name__ not in WHITELIST]
        for cls in outsiders + [nir.ir.NIRNode]:
            d = {"type": cls.__name__}
            try:
                for f in _dc.fields(cls):
                    if f.init and f.default is _dc.MISSING and f.default_factory is _dc.MISSING:
                        d[f.name] = {"input": np.array([2])} if f.name == "input_type" else \
                            {"output": np.array([2])} if f.name == "output_type" else np.ones(2)
            except TypeError:
                pass
            for depth in (0, 1, 2):
                wrapped = copy.deepcopy(d)
                for _ in range(depth):
                    wrapped = {"type": "NIRGraph", "nodes": {"a": wrapped, "pad": copy.deepcopy(victims["Scale"])}, "edges": []}
                for via in ("dict", "graph_from_dict", "file"):
                    case = {"op": "outsider_class", "class": cls.__name__, "depth": depth, "via": via}
                    ctx.case(case); ctx.count("outsider_class")
                    try:
                        if via == "dict":
                            obj = nir.dict2NIRNode(copy.deepcopy(wrapped))
                        elif via == "graph_from_dict":
                            if depth == 0:
                                continue
                            obj = nir.NIRGraph.from_dict(copy.deepcopy(wrapped))
                        else:
                            pth = os.path.join(tmpdir, "o.nir")
                            if not _write_raw(pth, wrapped):
                                continue
                            obj = nir.read(pth)
                        ctx.violate(case, f"class {cls.__name__!r} is not a serialisable primitive but was constructed from its type string",
                                    {"site": via, "what": "open-world", "s": cls.__name__}, observed=type(obj).__name__)
                    except Exception:
                        pass
        # ---- type tags that are not valid UTF-8 but would collapse to a primitive name if the bad bytes were dropped ---
        for base_kind in rng.sample(sorted(victims), 6 if ctx.tier == "quick" else len(victims)):
            name = base_kind.encode()
            pos = rng.randrange(0, len(name) + 1)
            for raw in (name[:pos] + b"\xff" + name[pos:], name + b"\xfe", b"\xc3" + name, name[:1] + b"\xe2\x82" + name[1:]):
                for store in ("fixed", "vlen"):
                    pth = os.path.join(tmpdir, "b.nir")
                    nested = rng.random() < 0.5
                    try:
                        with h5py.File(pth, "w") as f:
                            f.create_dataset("version", data="0.2.0")
                            top = f.create_group("node")
                            grp = top
                            if nested:
                                top.create_dataset("type", data="NIRGraph", dtype=h5py.string_dtype())
                                top.create_dataset("edges", data=np.zeros((0, 2)))
                                grp = top.create_group("nodes").create_group("a")
                            for k, v in victims[base_kind].items():
                                if k == "type" or isinstance(v, dict):
                                    continue
                                if isinstance(v, str):
                                    grp.create_dataset(k, data=v, dtype=h5py.string_dtype())
                                else:
                                    grp.create_dataset(k, data=v)
                            if store == "fixed":
                                grp.create_dataset("type", data=np.bytes_(raw))
                            else:
                                grp.create_dataset("type", data=raw, dtype=h5py.string_dtype())
                    except Exception:
                        ctx.count("bad_utf8_unwritable"); continue
                    case = {"op": "type_tag_bytes", "raw": raw.hex(), "stored_as": store, "nested": nested}
                    ctx.case(case); ctx.count("type_tag_invalid_utf8")
                    try:
                        obj = nir.read(pth)
                        ctx.violate(case, f"file whose type tag is the byte string {raw!r} (not valid UTF-8, not a primitive name) "
                                    "was read into an object", {"site": "read", "what": "open-world", "s": "invalid-utf8"},
                                    observed=type(obj).__name__)
                    except Exception:
                        pass
        # ---- strictness: every single-field deletion, every non-field insertion, at depth ----------
        for kind in gen.LEAF_KINDS + ["NIRGraph"]:
            for rep in range(3 if ctx.tier == "quick" else 12):
                if kind == "NIRGraph":
                    g = gen.random_graph(rng, maxdepth=0, max_nodes=3, meta_p=0.3)
                    try:
                        base = impl_construct(g).to_dict()
                    except Exception:
                        continue
                else:
                    base = impl_construct(gen.node_recipe(rng, kind, meta_p=0.5)).to_dict()
                mandatory = [k for k in base if k not in OPTIONAL and k not in OPTIONAL_BY_KIND.get(kind, set())]
                depth = rep % 3
                inserts = [rng.choice(["extra", "Weight", "weights", "bias2", "dtype", "shape2", "comment", "name", "id"]),
                           "input_type", "output_type", "nodes", "edges", "shape", "version"]
                # (an unknown key may be a field of a *sibling* class - the bias of an Affine on a Linear, a threshold on a
                #  leaky integrator - holding the most harmless value imaginable: it is unknown all the same)
                sib = [f for f in ("bias", "w_in", "v_threshold", "v_leak", "tau", "stride", "groups", "start_dim", "delay")
                       if f not in base and f not in FIELDS_OF.get(kind, ())]
                inserts = inserts + rng.sample(sib, min(2, len(sib)))
                # (an unknown key may also be the *bytes* spelling of a real field name: it is still not that field)
                if mandatory:
                    inserts = inserts + [rng.choice(mandatory).encode("utf8")]
                for op, key in [("delete", k) for k in mandatory] + [("insert", k) for k in inserts]:
                    d = copy.deepcopy(base)
                    if op == "delete":
                        del d[key]
                    else:
                        if key in d or key in FIELDS_OF.get(kind, ()):
                            continue
                        if key in ("input_type", "output_type"):
                            d[key] = {key.split("_")[0]: np.array([2, 2])}
                        elif key == "nodes":
                            d[key] = {}
                        elif key == "edges":
                            d[key] = []
                        elif isinstance(key, bytes):
                            d[key] = copy.deepcopy(base[key.decode("utf8")])
                        elif key in ("bias", "w_in", "v_threshold", "v_leak", "tau", "stride", "groups", "start_dim", "delay"):
                            d[key] = [np.zeros(2), 0, 0.0, np.array(0.0), np.ones(2), 1][rng.randrange(6)]
                        else:
                            d[key] = [1, "x", np.zeros(2), {}, {}][rng.randrange(5)]      # ({}: an empty group in a file)
                    wrapped = d
                    for lvl in range(depth):
                        wrapped = {"type": "NIRGraph", "nodes": {"inner": wrapped, "pad": copy.deepcopy(victims["Scale"])}, "edges": []}
                    case = {"op": "malformed", "kind": kind, "edit": op, "key": repr(key) if isinstance(key, bytes) else key, "depth": depth}
                    ctx.case(case); ctx.count(f"malformed_{op}")
                    if isinstance(key, bytes):
                        ctx.count("malformed_bytes_spelling_of_field")
                        vias = ["dict"]
                    else:
                        corr(wrapped)
                        vias = ["dict", "file", "file_noversion"] + (["file_softlink", "file_hardlink"] if op == "insert" else [])
                    for via in vias:
                        try:
                            if via == "dict":
                                if kind == "NIRGraph" and depth == 0:
                                    obj = nir.NIRGraph.from_dict(copy.deepcopy(wrapped))
                                else:
                                    obj = nir.dict2NIRNode(copy.deepcopy(wrapped))
                            else:
                                if key in ("nodes", "edges", "type") and op == "delete" and False:
                                    continue
                                p = os.path.join(tmpdir, "m.nir")
                                if via in ("file_softlink", "file_hardlink"):
                                    # the unknown member is a *link* to one of the node's own datasets
                                    others = [k for k, v in d.items() if k != key and not isinstance(v, (dict, str)) and v is not None]
                                    if not others:
                                        continue
                                    link = (key, rng.choice(others), via == "file_softlink")
                                    plain = copy.deepcopy(base)
                                    w2 = plain
                                    for lvl in range(depth):
                                        w2 = {"type": "NIRGraph", "nodes": {"inner": w2, "pad": copy.deepcopy(victims["Scale"])}, "edges": []}
                                    if not _write_raw(p, w2, link=link, depth=depth):
                                        continue
                                elif not _write_raw(p, wrapped, with_version=(via != "file_noversion")):
                                    continue
                                ctx.count("malformed_via_" + via)
                                if rng.random() < 0.5:
                                    # the reader has just read a *complete* file of the same shape: nothing of it may
                                    # stand in for what the next file lacks
                                    try:
                                        wb = copy.deepcopy(base)
                                        for lvl in range(depth):
                                            wb = {"type": "NIRGraph", "nodes": {"inner": wb, "pad": copy.deepcopy(victims["Scale"])}, "edges": []}
                                        p_ok = os.path.join(tmpdir, "complete.nir")
                                        if _write_raw(p_ok, wb):
                                            nir.read(p_ok); ctx.count("malformed_after_complete_read")
                                    except Exception:
                                        ctx.count("complete_file_not_read")
                                obj = nir.read(p)
                            ctx.violate(case, f"{kind}: {'missing mandatory' if op == 'delete' else 'unknown extra'} field "
                                        f"{key!r} was {'defaulted' if op == 'delete' else 'ignored'} ({via})",
                                        {"site": via, "what": op, "kind": kind, "depth": depth > 0},
                                        observed=type(obj).__name__)
                        except Exception:
                            pass
        fresh_reader(ctx, tmpdir)
        ctx.compare("dicts", cases, obs, reqs)
    finally:
        import shutil
        shutil.rmtree(tmpdir, ignore_errors=True)


def _fresh_reader_sequence(tmpdir, seed, kinds):
    """Runs in a child process that has read nothing else: per kind, a complete file, then files each lacking one mandatory
    member / holding one unknown member, each read right after a successful read of the complete file, at top level and
    one level down.  Returns [[kind, edit, key, depth, class name of what read returned], ...]: every entry is a file that
    should have been refused."""
    import random
    import nir
    rng = random.Random(seed)
    accepted = []
    for kind in kinds:
        if kind == "NIRGraph":
            base = nir.NIRGraph(nodes={"a": nir.Scale(np.arange(1.0, 3.0)), "b": nir.Threshold(np.ones(2))},
                                edges=[("a", "b")], metadata={"k": 1}).to_dict()
        else:
            base = impl_construct(gen.node_recipe(rng, kind, meta_p=1.0)).to_dict()
        mandatory = [k for k in base if k not in OPTIONAL and k not in OPTIONAL_BY_KIND.get(kind, set())]
        for depth in (0, 1):
            wrap = lambda d: d if depth == 0 else {"type": "NIRGraph", "nodes": {"inner": d}, "edges": []}
            p_ok = os.path.join(tmpdir, "fresh-ok.nir"); p_bad = os.path.join(tmpdir, "fresh-bad.nir")
            if not _write_raw(p_ok, wrap(copy.deepcopy(base))):
                continue
            edits = [("delete", k) for k in mandatory] + [("insert", "extra"), ("insert", "comment")]
            for op, key in edits:
                d = copy.deepcopy(base)
                if op == "delete":
                    del d[key]
                else:
                    d[key] = np.zeros(2)
                if not _write_raw(p_bad, wrap(d)):
                    continue
                try:
                    nir.read(p_ok)
                except Exception:
                    continue                 # (a complete file that is not read is not this check's business)
                try:
                    obj = nir.read(p_bad)
                    accepted.append([kind, op, key, depth, type(obj).__name__])
                except Exception:
                    pass
    return accepted


def fresh_reader(ctx, tmpdir):
    import json
    import subprocess
    import sys
    rng = ctx.rng
    here = os.path.dirname(os.path.dirname(os.path.abspath(__file__)))
    repo = os.environ.get("NIR_REPO", "/repo")
    kinds_all = gen.LEAF_KINDS + ["NIRGraph"]
    groups = [rng.sample(kinds_all, 3) for _ in range(ctx.n(3, 8))]
    for kinds in groups:
        seed = rng.randrange(2 ** 31)
        case = {"op": "fresh_reader_sequence", "kinds": kinds, "seed": seed}
        ctx.case(case); ctx.count("fresh_reader_processes")
        code = ("import sys, json, warnings; warnings.simplefilter('ignore'); sys.path.insert(0, %r); sys.path.insert(0, %r);"
                "from props.c18 import _fresh_reader_sequence; print(json.dumps({'r': _fresh_reader_sequence(%r, %d, %r)}))"
                % (repo, here, tmpdir, seed, kinds))
        try:
            p = subprocess.run([sys.executable, "-c", code], stdout=subprocess.PIPE, stderr=subprocess.PIPE, timeout=300)
            out = p.stdout.decode("utf8", "replace").strip().splitlines()
            res = json.loads(out[-1])["r"] if p.returncode == 0 and out else None
        except Exception:
            res = None
        if res is None:
            ctx.count("fresh_reader_process_failed")
            continue
        for kind, op, key, depth, what in res[:3]:
            ctx.violate({**case, "kind": kind, "edit": op, "key": key, "depth": depth},
                        f"{kind}: {'missing mandatory' if op == 'delete' else 'unknown extra'} member {key!r} was "
                        f"{'defaulted' if op == 'delete' else 'ignored'} by a reader that had just read a complete file "
                        "of the same kind", {"site": "file-after-complete-read", "what": op, "kind": kind, "depth": depth > 0},
                        observed=what)


def _store(group, node, fixed=False):
    for k, v in node.items():
        if isinstance(v, dict):
            _store(group.create_group(k), v, fixed)
        elif isinstance(v, str):
            if fixed:
                b = v.encode("utf8")
                group.create_dataset(k, data=np.array(b, dtype=f"S{max(len(b), 1)}"))
            else:
                group.create_dataset(k, data=v, dtype=h5py.string_dtype())
        elif isinstance(v, list):
            group.create_dataset(k, data=np.array(v, dtype=h5py.string_dtype()) if v else np.zeros((0, 2)))
        elif v is None:
            raise ValueError("None")
        else:
            group.create_dataset(k, data=v)


def _write_raw(path, d, with_version=True, link=None, depth=0):
    """store an arbitrary (possibly malformed) node dictionary with raw h5py; `link` = (name, target member,
    soft?) adds a link member to the innermost node group"""
    def rec(group, node):
        for k, v in node.items():
            if isinstance(v, dict):
                rec(group.create_group(k), v)
            elif isinstance(v, str):
                group.create_dataset(k, data=v, dtype=h5py.string_dtype())
            elif v is None:
                return False
            else:
                group.create_dataset(k, data=v)
        return True
    try:
        with h5py.File(path, "w") as f:
            if with_version:
                f.create_dataset("version", data="0.2.0")
            ok = rec(f.create_group("node"), d) is not False
            if ok and link is not None:
                grp = f["node"]
                for _ in range(depth):
                    grp = grp["nodes/inner"]
                name, target, soft = link
                if soft:
                    grp[name] = h5py.SoftLink(grp[target].name)
                else:
                    grp[name] = grp[target]
            return ok
    except Exception:
        return False
