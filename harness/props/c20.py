"""C20 — reference simulators implement the documented neuron dynamics."""
import importlib.util
import math
import os
import sys
import types

import numpy as np

REPO = os.environ.get("NIR_REPO", "/repo")


def load_lif():
    for m in ("matplotlib", "matplotlib.pyplot"):
        if m not in sys.modules:
            sys.modules[m] = types.ModuleType(m)
    spec = importlib.util.spec_from_file_location("lif_exact_sim_verif", os.path.join(REPO, "paper/01_lif/lif_exact_sim.py"))
    mod = importlib.util.module_from_spec(spec)
    sys.modules[spec.name] = mod
    spec.loader.exec_module(mod)
    return mod


def load_cuba():
    spec = importlib.util.spec_from_file_location(
        "nir_reference_impl_verif", os.path.join(REPO, "paper/03_rnn/extras/debug_CubaLIF/nir_reference_impl.py"))
    mod = importlib.util.module_from_spec(spec)
    spec.loader.exec_module(mod)
    return mod


def rk4(v, tau, r, v_leak, i_in, t, steps=2000):
    """independent integrator of tau*dv/dt = (v_leak - v) + r*i"""
    f = lambda x: ((v_leak - x) + r * i_in) / tau
    h = t / steps
    for _ in range(steps):
        k1 = f(v); k2 = f(v + h * k1 / 2); k3 = f(v + h * k2 / 2); k4 = f(v + h * k3)
        v = v + h * (k1 + 2 * k2 + 2 * k3 + k4) / 6
    return v


def close(a, b, tol=1e-9):
    return abs(a - b) <= tol * max(1.0, abs(a), abs(b))


def ref_events(tau, r, v_leak, thr, times, amps, duration, v0=0.0):
    """Independent event-driven solution of tau*dv/dt = (v_leak - v) + r*I(t), reset by subtraction, for a
    piecewise-constant I: returns (spike times, v(duration), degenerate?) -- `degenerate` when a crossing
    falls within 1e-7 of a segment boundary or an asymptote within 1e-9 of the threshold (ordering of
    simultaneous events is then a matter of rounding, not of the dynamics)."""
    bounds = [t for t in times if t <= duration]
    cur, v, a, k = 0.0, v0, 0.0, 0
    spikes, degenerate = [], False
    while True:
        end = bounds[k] if k < len(bounds) else duration
        A = v_leak + r * a
        if abs(A - thr) < 1e-9:
            degenerate = True
        while A > thr and v < thr:
            ts = cur + tau * math.log((A - v) / (A - thr))
            if abs(ts - end) < 1e-7:
                degenerate = True
            if ts >= end:
                break
            spikes.append(ts)
            cur, v = ts, 0.0 if True else None      # v(ts) = thr, minus thr
            if len(spikes) > 200000:
                return spikes, v, True
        v = A + (v - A) * math.exp(-(end - cur) / tau)
        cur = end
        if k < len(bounds):
            a = amps[k]; k += 1
        else:
            break
    return spikes, v, degenerate


def params(rng, lif):
    tau = 10 ** rng.uniform(-4, 0)
    r = rng.uniform(-2, 2) if rng.random() < 0.8 else rng.choice([1.0, 0.0])
    v_leak = rng.uniform(-2, 2) if rng.random() < 0.85 else 0.0
    thr = v_leak + rng.uniform(0.05, 2.0)
    return lif.LIFParams(tau=tau, r=r, v_leak=v_leak, v_threshold=thr)


def _events_agree(ctx, case, p, times, amps, duration, runs, sig):
    """spike times and recorded voltages of the event loop against the independent solution (initial voltage 0
    below a positive threshold)"""
    want, _, degenerate = ref_events(p.tau, p.r, p.v_leak, p.v_threshold, times, amps, duration)
    if degenerate:
        ctx.count("event_reference_degenerate_skipped")
        return True
    ctx.count("event_reference_compared")
    ctx.count("event_reference_negative_r" if p.r < 0 else "event_reference_nonnegative_r")
    got = runs[0].spikes
    if len(got) != len(want) or any(abs(x - y) > 1e-7 for x, y in zip(got, want)):
        ctx.violate(case, "spike times of the event loop are not the threshold crossings of the documented dynamics",
                    {**sig, "law": "event-spikes", "r": "negative" if p.r < 0 else "nonnegative"},
                    observed={"n": len(got), "first": got[:3], "last": got[-2:]},
                    required={"n": len(want), "first": want[:3], "last": want[-2:]})
        return False
    rec = runs[2]
    for t, v in list(zip(rec.times, rec.voltages))[:3]:
        if any(abs(t - s) < 1e-7 for s in want) or any(abs(t - b) < 1e-9 for b in times):
            continue
        _, vw, deg = ref_events(p.tau, p.r, p.v_leak, p.v_threshold, times, amps, t)
        if not deg and not close(v, vw, 1e-6):
            ctx.violate(case, "recorded voltage of the event loop is not the solution of the documented dynamics",
                        {**sig, "law": "event-voltage"}, observed={"t": t, "v": v}, required=vw)
            return False
    return True


def _redundant_change_points(ctx, lif, case, p, times, amps, duration, base, sig, rng, same_dt_spikes=None):
    """the same input *function* written with redundant change points - the zero current before the first change made
    explicit as (0.0, 0.0), or a change point that repeats the amplitude already in force - gives the same spike times
    (this is how finding F13 shows without any reference solution)"""
    variants = []
    if times[0] > 0.0:
        variants.append(("explicit-zero-at-0", [0.0] + list(times), [0.0] + list(amps)))
    j = rng.randrange(len(times))
    t_mid = times[j] + (((times[j + 1] if j + 1 < len(times) else duration) - times[j]) * rng.uniform(0.2, 0.8))
    if t_mid > times[j] and (j + 1 >= len(times) or t_mid < times[j + 1]):
        variants.append(("repeat-amplitude", list(times[:j + 1]) + [t_mid] + list(times[j + 1:]),
                         list(amps[:j + 1]) + [amps[j]] + list(amps[j + 1:])))
    if same_dt_spikes:
        # ... and a redundant change point placed exactly on one of the spike times the loop itself computed - taken from
        # the run with the *same* recording interval as the variant run, so that the coincidence is exact in that run too
        # (a change point one ulp beside a crossing is a rounding matter, not one of the dynamics: see DESIGN section 5)
        ts = rng.choice(same_dt_spikes[:8])
        j = sum(1 for t in times if t <= ts) - 1
        if j >= 0 and ts > times[j]:
            variants.append(("repeat-amplitude-on-spike", list(times[:j + 1]) + [ts] + list(times[j + 1:]),
                             list(amps[:j + 1]) + [amps[j]] + list(amps[j + 1:])))
    for name, t2, a2 in variants:
        n = lif.ExactLIFNeuron(lif.LIFParams(p.tau, p.r, p.v_leak, p.v_threshold))
        rec = lif.run_event_based_simulation(n, lif.StepCurrent(t2, a2), 0.013, duration)
        ctx.count("event_runs_redundant_change_point")
        if len(rec.spikes) != len(base) or any(not close(x, y, 1e-9) for x, y in zip(rec.spikes, base)):
            ctx.violate({**case, "variant": name, "times2": t2, "amps2": a2},
                        "spike times change when the same input is written with a redundant change point",
                        {**sig, "law": "redundant-change-point", "variant": name},
                        observed={"n": len(rec.spikes), "first": rec.spikes[:3]}, required={"n": len(base), "first": base[:3]})
            return False
    return True


def event_loop_correspondence(ctx, lif, rng):
    """Tie B for the event loop: the hand-written Lean model of `run_event_based_simulation` (around the generated
    Float kernels) is run by the driver on the same schedule and must return bit-identical spike times, record
    times, recorded voltages and final voltage.  The generator crafts the coincidences the loop's priority rules
    are about: an input change exactly on an (accumulated) record time, duplicate change times, an initial voltage
    exactly on the threshold (a spike at the very instant of an input change), `duration` exactly on an event time,
    zero and negative durations, no recording at all (record_dt = inf)."""
    cases, obs, reqs = [], [], []
    for _ in range(ctx.n(90)):
        p = params(rng, lif)
        p.tau = 10 ** rng.uniform(-3, -1.5)
        dt = rng.choice([0.001, 0.004, 0.0125, 0.03, rng.uniform(0.002, 0.05)])
        acc, x = [], dt
        while x <= 0.13 and len(acc) < 400:
            acc.append(x); x = x + dt          # the record times exactly as the loop accumulates them
        k = rng.randrange(1, 7)
        times = sorted(rng.uniform(0, 0.08) for _ in range(k))
        fam = []
        if rng.random() < 0.5:
            times[rng.randrange(k)] = rng.choice(acc); times.sort(); fam.append("input_on_record")
        if rng.random() < 0.4:
            times[0] = 0.0; fam.append("t0_zero")
        if k >= 2 and rng.random() < 0.35:
            j = rng.randrange(1, k); times[j] = times[j - 1]; fam.append("duplicate_time")
        amps = [rng.uniform(-1, 4) for _ in range(k)] if rng.random() < 0.6 else [rng.uniform(-4, 4) for _ in range(k)]
        v0 = 0.0
        if rng.random() < 0.3:
            v0 = p.v_threshold; fam.append("v0_on_threshold")
        elif rng.random() < 0.2:
            v0 = p.v_threshold - rng.uniform(0.01, 2.0); fam.append("v0_other")
        u = rng.random()
        if u < 0.25:
            duration = rng.choice(acc); fam.append("duration_on_record")
        elif u < 0.45:
            duration = rng.choice(times); fam.append("duration_on_input")
        elif u < 0.5:
            duration = rng.choice([0.0, -0.01]); fam.append("duration_nonpositive")
        else:
            duration = rng.choice([0.05, 0.1, rng.uniform(0.02, 0.12)])
        rdt = None if rng.random() < 0.15 else dt
        if rdt is None:
            fam.append("no_recording")
        if rng.random() < 0.35:
            # an input change placed *exactly* on a predicted spike time (or a record placed on it): run once, take a
            # spike time as the loop computed it, and put a change point with another amplitude there
            n0 = lif.ExactLIFNeuron(lif.LIFParams(p.tau, p.r, p.v_leak, p.v_threshold)); n0.state.v = v0
            pre = lif.run_event_based_simulation(n0, lif.StepCurrent(list(times), list(amps)), math.inf, max(duration, 0.05))
            if pre.spikes:
                ts = rng.choice(pre.spikes[:6])
                j = sum(1 for t in times if t <= ts)
                times = list(times[:j]) + [ts] + list(times[j:])
                amps = list(amps[:j]) + [rng.choice([0.0, -1.0, rng.uniform(-1, 4)])] + list(amps[j:])
                if rng.random() < 0.3:
                    duration = ts; fam.append("duration_on_spike")
                fam.append("input_on_predicted_spike")
        n = lif.ExactLIFNeuron(lif.LIFParams(p.tau, p.r, p.v_leak, p.v_threshold))
        n.state.v = v0
        rec = lif.run_event_based_simulation(n, lif.StepCurrent(list(times), list(amps)), math.inf if rdt is None else rdt,
                                             duration)
        req = {"op": "lif_events", "tau": fhex(p.tau), "r": fhex(p.r), "v_leak": fhex(p.v_leak),
               "v_threshold": fhex(p.v_threshold), "v0": fhex(v0), "duration": fhex(duration),
               "record_dt": None if rdt is None else fhex(rdt), "times": [fhex(t) for t in times],
               "amps": [fhex(a) for a in amps], "fuel": 20000}
        case = {"op": "lif_event_loop", "tau": p.tau, "r": p.r, "v_leak": p.v_leak, "v_threshold": p.v_threshold,
                "v0": v0, "times": times, "amps": amps, "duration": duration, "record_dt": rdt, "request": req}
        ctx.case(case); ctx.count("event_loop_model_runs")
        for f in fam:
            ctx.count("event_loop_" + f)
        ctx.count("event_loop_spikes", len(rec.spikes)); ctx.count("event_loop_records", len(rec.times))
        # simultaneous events actually met (same instant handled by two different branches)
        if set(rec.spikes) & set(rec.times):
            ctx.count("event_loop_spike_and_record_same_instant")
        if set(rec.spikes) & set(times):
            ctx.count("event_loop_spike_and_input_same_instant")
        if set(rec.times) & set(times):
            ctx.count("event_loop_record_and_input_same_instant")
        if len(rec.spikes) + len(rec.times) > 3000:
            # (the model keeps its records in append order on immutable lists - quadratic; very long runs are left to the oracle)
            ctx.count("event_loop_run_too_long_for_model"); continue
        cases.append(case); reqs.append(req)
        obs.append({"spikes": [fhex(t) for t in rec.spikes], "times": [fhex(t) for t in rec.times],
                    "voltages": [fhex(v) for v in rec.voltages], "v": fhex(n.state.v)})
    ctx.compare("event_loop", cases, obs, reqs)


def fhex(x):
    import struct
    return struct.pack("<d", float(x)).hex()


def run(ctx):
    rng = ctx.rng
    lif = load_lif()
    # ---- translator validation: the generated Float twins, executed by the driver, against the Python ----
    cases, obs, reqs = [], [], []
    for _ in range(ctx.n(300)):
        p = params(rng, lif)
        i_in = rng.uniform(-3, 3); v0 = p.v_threshold - rng.uniform(1e-3, 3.0); dt = rng.uniform(0, 5) * p.tau
        n = lif.ExactLIFNeuron(p); n.state.v = v0
        n.advance_by_delta_t(i_in, dt); adv = n.state.v
        n.state.v = v0
        nxt = n.calc_next_spike_time(i_in)
        n.apply_reset(); rst = n.state.v
        c = {"op": "lif_kernel", "args": [fhex(x) for x in (p.tau, p.r, p.v_leak, p.v_threshold, v0, i_in, dt)]}
        cases.append(c); reqs.append(c)
        obs.append({"advance": fhex(adv), "next": None if math.isinf(nxt) else fhex(nxt), "reset": fhex(rst)})
        ctx.count("translator_validation_lif")
    import nir
    cuba = load_cuba()
    for _ in range(ctx.n(300)):
        g = np.random.default_rng(rng.randrange(2 ** 32))
        vals = [10 ** rng.uniform(-4, -2), g.uniform(1e-3, 0.1), g.uniform(1e-3, 0.1), g.uniform(-2, 2), g.uniform(-1, 1),
                g.uniform(0.2, 2), g.uniform(-2, 2), g.uniform(-1, 1), g.uniform(-1, 2.5), float(rng.randrange(0, 3))]
        dt, ts, tm, r, vl, vt, w, I, v, x = [float(t) for t in vals]
        node = nir.CubaLIF(tau_syn=np.array([ts]), tau_mem=np.array([tm]), r=np.array([r]), v_leak=np.array([vl]),
                           v_threshold=np.array([vt]), w_in=np.array([w]))
        m = cuba.CubaLIFImplementation(dt, node)
        m.I = np.array([I]); m.v = np.array([v])
        z, vo, Io = m.forward(np.array([x]))
        c = {"op": "cuba_kernel", "args": [fhex(t) for t in (dt, ts, tm, r, vl, vt, w, I, v, x)]}
        cases.append(c); reqs.append(c)
        obs.append({"z": fhex(float(z[0])), "v": fhex(vo[0]), "I": fhex(Io[0])})
        ctx.count("translator_validation_cuba")
    ctx.compare("kernels", cases, obs, reqs)
    # ---- the whole reference run (run_cuba_reference_model): hand-written fold around the generated kernel, bitwise ----
    cases, obs, reqs = [], [], []
    for _ in range(ctx.n(25, 120)):
        nn = rng.randrange(1, 4); T = rng.randrange(0, 25)
        g = np.random.default_rng(rng.randrange(2 ** 32))
        node = nir.CubaLIF(tau_syn=g.uniform(1e-3, 0.1, nn), tau_mem=g.uniform(1e-3, 0.1, nn), r=g.uniform(-2, 2, nn),
                           v_leak=g.uniform(-1, 1, nn), v_threshold=g.uniform(0.2, 2, nn), w_in=g.uniform(-2, 2, nn))
        dt = float(10 ** rng.uniform(-4, -2))
        data = (g.random((T, nn)) < 0.4).astype(float) * g.uniform(0.5, 5)
        model = cuba.CubaLIFImplementation(dt, node)
        I0 = np.zeros(nn); v0 = np.zeros(nn)
        if rng.random() < 0.5:
            # the model has been used before (an earlier chunk of the input, or single forward() steps): a run goes on
            # from the state it finds
            warm = (g.random((rng.randrange(1, 6), nn)) < 0.5).astype(float) * g.uniform(0.5, 5)
            if rng.random() < 0.5:
                cuba.run_cuba_reference_model(model, warm)
            else:
                for row in warm:
                    model.forward(row)
            I0 = np.array(model.I, dtype=float, copy=True); v0 = np.array(model.v, dtype=float, copy=True)
            ctx.count("cuba_reference_runs_from_used_model")
        res = cuba.run_cuba_reference_model(model, data)
        for j in range(nn):
            c = {"op": "cuba_run", "args": [fhex(t) for t in (dt, node.tau_syn[j], node.tau_mem[j], node.r[j], node.v_leak[j],
                                                             node.v_threshold[j], node.w_in[j])],
                 "I0": fhex(I0[j]), "v0": fhex(v0[j]),
                 "xs": [fhex(x) for x in data[:, j]]}
            cases.append(c); reqs.append(c)
            obs.append({"z": [fhex(x) for x in res["spikes"][:, j]], "v": [fhex(x) for x in res["voltages"][:, j]],
                        "I": [fhex(x) for x in res["currents"][:, j]]})
            ctx.count("cuba_reference_runs"); ctx.count("cuba_reference_steps", T)
    ctx.compare("cuba_run", cases, obs, reqs)
    # the same run fed in two chunks to one model object (or step by step through forward()) is the run on the whole input:
    # the state carries over from call to call
    for _ in range(ctx.n(20, 100)):
        nn = rng.randrange(1, 4); T = rng.randrange(2, 25); k = rng.randrange(1, T)
        g = np.random.default_rng(rng.randrange(2 ** 32))
        mk = lambda: nir.CubaLIF(tau_syn=tsyn.copy(), tau_mem=tmem.copy(), r=rr.copy(), v_leak=vl.copy(), v_threshold=vt.copy(), w_in=ww.copy())
        tsyn, tmem, rr, vl, vt, ww = (g.uniform(1e-3, 0.1, nn), g.uniform(1e-3, 0.1, nn), g.uniform(-2, 2, nn), g.uniform(-1, 1, nn),
                                      g.uniform(0.2, 2, nn), g.uniform(-2, 2, nn))
        dt = float(10 ** rng.uniform(-4, -2))
        data = (g.random((T, nn)) < 0.4).astype(float) * g.uniform(0.5, 5)
        case = {"op": "cuba_run_chunked", "n": nn, "steps": T, "split": k, "dt": dt}
        ctx.case(case); ctx.count("cuba_reference_runs_chunked")
        whole = cuba.run_cuba_reference_model(cuba.CubaLIFImplementation(dt, mk()), data)
        m2 = cuba.CubaLIFImplementation(dt, mk())
        a = cuba.run_cuba_reference_model(m2, data[:k]); b = cuba.run_cuba_reference_model(m2, data[k:])
        bad = [key for key in ("spikes", "voltages", "currents")
               if not np.array_equal(np.concatenate([a[key], b[key]]), whole[key])]
        if bad:
            ctx.violate(case, "the CubaLIF reference run fed in two chunks to one model differs from the run on the whole input "
                        "(the state does not carry over between calls)", {"site": "run_cuba_reference_model", "what": "chunked"},
                        observed=bad)
    # ---- closed-form kernels ---------------------------------------------------------------
    for _ in range(ctx.n(400)):
        p = params(rng, lif)
        i_in = rng.uniform(-3, 3)
        v0 = p.v_threshold - rng.uniform(1e-3, 3.0)
        a, b = rng.uniform(0, 5) * p.tau, rng.uniform(0, 5) * p.tau
        case = {"op": "lif_kernel", "tau": p.tau, "r": p.r, "v_leak": p.v_leak, "v_threshold": p.v_threshold,
                "i": i_in, "v0": v0, "a": a, "b": b}
        ctx.case(case); ctx.count("kernel"); ctx.count("v_leak_nonzero" if p.v_leak != 0 else "v_leak_zero")
        sig = {"site": "advance_by_delta_t", "v_leak": "nonzero" if p.v_leak != 0 else "zero"}

        def adv(v, dt):
            n = lif.ExactLIFNeuron(p); n.state.v = v
            n.advance_by_delta_t(i_in, dt)
            return n.state.v
        if not close(adv(v0, 0.0), v0, 1e-12):
            ctx.violate(case, "advancing by zero time is not the identity", {**sig, "law": "zero"},
                        observed=adv(v0, 0.0), required=v0)
            continue
        if not close(adv(v0, a + b), adv(adv(v0, a), b)):
            ctx.violate(case, "advancing in two steps differs from advancing once by the sum", {**sig, "law": "split"},
                        observed=[adv(v0, a + b), adv(adv(v0, a), b)])
            continue
        if not close(adv(v0, 60 * p.tau), p.v_leak + p.r * i_in, 1e-9):
            ctx.violate(case, "membrane does not relax to v_leak + R*I", {**sig, "law": "relax"},
                        observed=adv(v0, 60 * p.tau), required=p.v_leak + p.r * i_in)
            continue
        want = rk4(v0, p.tau, p.r, p.v_leak, i_in, a)
        if not close(adv(v0, a), want, 1e-7):
            ctx.violate(case, "advance differs from the numerically integrated LIF equation", {**sig, "law": "ode"},
                        observed=adv(v0, a), required=want)
            continue
        # spike prediction
        n = lif.ExactLIFNeuron(p); n.state.v = v0
        t = n.calc_next_spike_time(i_in)
        asym = p.v_leak + p.r * i_in
        sig2 = {"site": "calc_next_spike_time", "v_leak": sig["v_leak"]}
        if math.isinf(t):
            if asym > p.v_threshold + 1e-9:
                ctx.violate(case, "no spike predicted although the membrane crosses the threshold",
                            {**sig2, "law": "missed"}, observed="inf", required="finite")
        else:
            if t < 0 or not close(adv(v0, t), p.v_threshold, 1e-7):
                ctx.violate(case, "predicted spike time is not a threshold crossing", {**sig2, "law": "crossing"},
                            observed={"t": t, "v(t)": adv(v0, t)}, required=p.v_threshold)
            elif any(adv(v0, t * f) >= p.v_threshold + 1e-9 for f in (0.1, 0.5, 0.9)):
                ctx.violate(case, "threshold is crossed before the predicted spike time", {**sig2, "law": "first"})
    # ---- event loop: independence from the recording interval ---------------------------------
    for _ in range(ctx.n(120)):
        p = params(rng, lif)
        p.tau = 10 ** rng.uniform(-3, -1.5)
        k = rng.randrange(1, 8)
        times = sorted(rng.uniform(0, 0.08) for _ in range(k))
        if rng.random() < 0.5:
            times[0] = 0.0
        if k >= 2 and rng.random() < 0.3:
            # two change points at the same instant (legal: the schedule only has to be non-decreasing); the later
            # entry is the one that holds from then on
            j = rng.randrange(1, k)
            times[j] = times[j - 1]
        amps = [rng.uniform(-1, 4) for _ in range(k)] if rng.random() < 0.5 else [rng.uniform(-4, 4) for _ in range(k)]
        if rng.random() < 0.4:
            # a few amplitude *values* that recur (on / off / on again with the very same current)
            pool = [rng.uniform(1.0, 4.0), rng.uniform(-1.0, 0.5)] + ([rng.uniform(-4, 4)] if rng.random() < 0.5 else [])
            amps = [pool[j % 2] if rng.random() < 0.7 else rng.choice(pool) for j in range(k)]
        duration = rng.choice([0.05, 0.1, rng.uniform(0.02, 0.12)])
        spont = rng.random() < 0.2
        if spont:
            # a neuron whose leak potential lies above the threshold fires without any input: the stretch before the
            # first change point (zero current) is part of the dynamics too
            p.v_threshold = rng.uniform(0.2, 1.5); p.v_leak = p.v_threshold + rng.uniform(0.05, 1.0)
            if times[0] == 0.0 and rng.random() < 0.8:
                times[0] = rng.uniform(0.005, 0.03); times.sort()
            ctx.count("event_runs_leak_above_threshold")
        dts = [0.001, 0.013, 0.03, 0.2, duration / 7]
        case = {"op": "lif_events", "tau": p.tau, "r": p.r, "v_leak": p.v_leak, "v_threshold": p.v_threshold,
                "times": times, "amps": amps, "duration": duration, "record_dts": dts}
        ctx.case(case); ctx.count("event_runs")
        runs = []
        for dt in dts:
            n = lif.ExactLIFNeuron(lif.LIFParams(p.tau, p.r, p.v_leak, p.v_threshold))
            rec = lif.run_event_based_simulation(n, lif.StepCurrent(list(times), list(amps)), dt, duration)
            runs.append(rec)
        ctx.count("spikes", len(runs[0].spikes))
        sig = {"site": "run_event_based_simulation", "leak": "above-threshold" if spont else "below-threshold"}
        late = [r for r in runs if any(t > duration + 1e-12 for t in r.spikes) or any(t > duration + 1e-12 for t in r.times)]
        base = runs[0].spikes
        if late:
            ctx.violate(case, "an event later than the simulated duration was recorded", {**sig, "law": "late-event"},
                        observed=[r.spikes[-3:] for r in late][:2], required=f"<= {duration}")
        elif any(len(r.spikes) != len(base) or any(not close(x, y, 1e-9) for x, y in zip(r.spikes, base)) for r in runs):
            ctx.violate(case, "spike times depend on the recording interval", {**sig, "law": "record-dt"},
                        observed=[r.spikes[-4:] for r in runs])
        elif p.v_threshold > 1e-3 and not _events_agree(ctx, case, p, times, amps, duration, runs, sig):
            pass
        elif not _redundant_change_points(ctx, lif, case, p, times, amps, duration, base, sig, rng, runs[1].spikes):
            pass
        else:
            # voltages at coinciding record times (all multiples of 0.039 = 3*0.013 = 1.3*0.03 ...)
            ref = {round(t, 9): v for t, v in zip(runs[0].times, runs[0].voltages)}
            for r in runs[1:]:
                for t, v in zip(r.times, r.voltages):
                    key = round(t, 9)
                    if key in ref and not close(ref[key], v, 1e-7):
                        # recorded just before/after a reset at the same instant is order-dependent only
                        # if a spike coincides; skip those instants
                        if any(abs(t - s) < 1e-9 for s in r.spikes):
                            continue
                        ctx.violate(case, "recorded voltage depends on the recording interval",
                                    {**sig, "law": "record-dt-voltage"}, observed=[ref[key], v, t])
                        break
    # ---- event loop: model/implementation correspondence (bitwise) ------------------------------------
    event_loop_correspondence(ctx, lif, rng)
    # ---- CubaLIF reference: exactly the forward-Euler update ------------------------------------
    import nir
    cuba = load_cuba()
    # dyadic parameters: every quantity is exact in float64, so the membrane can land *exactly* on the threshold
    for _ in range(ctx.n(80)):
        nn = rng.randrange(1, 4)
        dy = lambda: rng.choice([0.25, 0.5, 1.0, 2.0])
        tau_s = np.array([dy() for _ in range(nn)]); tau_m = np.array([dy() for _ in range(nn)])
        r = np.array([rng.choice([0.5, 1.0, 2.0]) for _ in range(nn)]); vl = np.array([rng.choice([0.0, 0.25]) for _ in range(nn)])
        w = np.array([rng.choice([1.0, 2.0, 4.0]) for _ in range(nn)])
        dt = rng.choice([0.25, 0.5])
        xs = [np.array([float(rng.randrange(0, 3)) for _ in range(nn)]) for _ in range(6)]
        # pass 1 (no spikes possible: huge threshold) to find a voltage the membrane really takes
        I = np.zeros(nn); v = np.zeros(nn); seen = []
        for x in xs:
            I, v = I + dt * (-I + w * x) / tau_s, v + dt * ((vl - v) + r * I) / tau_m
            seen.append(v.copy())
        j = rng.randrange(1, len(xs))
        thr = np.where(seen[j] > 0, seen[j], 1.0)
        node = nir.CubaLIF(tau_syn=tau_s, tau_mem=tau_m, r=r, v_leak=vl, v_threshold=thr, w_in=w)
        m = cuba.CubaLIFImplementation(dt, node)
        I = np.zeros(nn); v = np.zeros(nn)
        case = {"op": "cuba_dyadic", "n": nn, "dt": dt, "thr": thr.tolist(), "xs": [x.tolist() for x in xs],
                "tau_syn": tau_s.tolist(), "tau_mem": tau_m.tolist(), "r": r.tolist(), "v_leak": vl.tolist(), "w_in": w.tolist()}
        ctx.case(case); ctx.count("cuba_dyadic_runs")
        for step, x in enumerate(xs):
            z, vo, Io = m.forward(x)
            I_new = I + dt * (-I + w * x) / tau_s
            v_new = v + dt * ((vl - v) + r * I) / tau_m
            z_want = v_new > thr
            if np.any(v_new == thr):
                ctx.count("cuba_exact_threshold_hits")
            v_new = np.where(z_want, v_new - thr, v_new)
            if not (np.array_equal(Io, I_new) and np.array_equal(vo, v_new) and np.array_equal(np.asarray(z), z_want)):
                ctx.violate(case, "CubaLIF reference step differs from the documented update (strict threshold, subtractive reset) "
                            "on exactly representable parameters", {"site": "CubaLIFImplementation.forward", "what": "dyadic"},
                            observed={"step": step, "z": np.asarray(z).tolist(), "want": z_want.tolist()})
                break
            I, v = np.array(Io, dtype=float), np.array(vo, dtype=float)
    for _ in range(ctx.n(150)):
        nn = rng.randrange(1, 6)
        g = np.random.default_rng(rng.randrange(2 ** 32))
        vth = g.uniform(0.2, 2, nn)
        if rng.random() < 0.25:
            vth = g.integers(1, 4, nn)                  # parameters of another dtype (integer thresholds)
            ctx.count("cuba_integer_threshold")
        elif rng.random() < 0.2:
            vth = vth.astype(np.float32)
        # the input weight as *given* (array, or a scalar standing for all neurons) is what the documented update uses
        w_given = g.uniform(-2, 2, nn) if rng.random() < 0.6 else float(rng.choice([0.5, -1.5, 0.25, 1.75]))
        node = nir.CubaLIF(tau_syn=g.uniform(1e-3, 0.1, nn), tau_mem=g.uniform(1e-3, 0.1, nn), r=g.uniform(-2, 2, nn),
                           v_leak=g.uniform(-1, 1, nn), v_threshold=vth, w_in=w_given)
        dt = 10 ** rng.uniform(-4, -2)
        m = cuba.CubaLIFImplementation(dt, node)
        I = np.zeros(nn); v = np.zeros(nn)
        case = {"op": "cuba", "n": nn, "dt": dt, "seed": "derived"}
        ctx.case(case); ctx.count("cuba_runs")
        kept = []
        n_steps = rng.randrange(1, 30)
        change_at = rng.randrange(0, n_steps) if rng.random() < 0.35 else None
        for step in range(n_steps):
            if step == change_at:
                # the step size (a public attribute) or a time constant of the node is changed between two steps: every
                # step is the Euler step for the values in force when it is taken
                if rng.random() < 0.5:
                    dt = dt * rng.choice([0.5, 2.0, 0.1]); m.dt = dt; ctx.count("cuba_dt_changed_mid_run")
                else:
                    node.tau_mem = node.tau_mem * 2.0; ctx.count("cuba_tau_changed_mid_run")
            x = (g.random(nn) < 0.4).astype(float) * g.uniform(0.5, 5)
            z, vo, Io = m.forward(x)
            kept.append((step, z, vo, Io, np.array(z, copy=True), np.array(vo, copy=True), np.array(Io, copy=True)))
            I_new = I + dt * (-I + w_given * x) / node.tau_syn
            v_new = v + dt * ((node.v_leak - v) + node.r * I) / node.tau_mem
            z_want = v_new > node.v_threshold
            v_new = np.where(z_want, v_new - node.v_threshold, v_new)
            edge = np.abs(v + dt * ((node.v_leak - v) + node.r * I) / node.tau_mem - node.v_threshold) < 1e-9
            if not (np.allclose(Io, I_new, rtol=1e-10, atol=1e-12) and np.allclose(vo, v_new, rtol=1e-10, atol=1e-12)
                    and np.array_equal(np.asarray(z)[~edge], z_want[~edge])):
                ctx.violate(case, "CubaLIF reference step is not the forward-Euler update of the documented equations",
                            {"site": "CubaLIFImplementation.forward"}, observed={"step": step})
                break
            I, v = np.array(Io, dtype=float), np.array(vo, dtype=float)
        else:
            # a caller that collects the per-step results and looks at them afterwards sees the same values
            for step, z, vo, Io, z0, v0, I0 in kept:
                if not (np.array_equal(np.asarray(z), z0) and np.array_equal(np.asarray(vo), v0, equal_nan=True)
                        and np.array_equal(np.asarray(Io), I0, equal_nan=True)):
                    ctx.violate(case, "the values a CubaLIF reference step returned changed during later steps",
                                {"site": "CubaLIFImplementation.forward", "what": "returned-state-aliased"},
                                observed={"step": step, "of": len(kept)})
                    break
