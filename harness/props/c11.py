"""C11 — from_list builds exactly the sequential path graph."""
import numpy as np

import gen
from canon import canon, canon_node, err_name
from core import impl_construct

KINDS = [k for k in gen.LEAF_KINDS if k not in ("Input", "Output")]


def expected_names(kinds):
    counts, out = {}, []
    for k in kinds:
        base = k.lower()
        c = counts.get(base, 0)
        out.append(base if c == 0 else f"{base}_{c}")
        counts[base] = c + 1
    return out


def run(ctx):
    import nir
    rng = ctx.rng
    cases, obs, reqs = [], [], []
    for i in range(ctx.n(300)):
        n = rng.randrange(1, 8) if i % 7 else rng.randrange(10, 40)
        # repetition-heavy sequences over few classes, with the i/if/li/lif prefix family favoured
        pool = rng.sample(KINDS, rng.randrange(1, 5)) + rng.sample(["I", "IF", "LI", "LIF"], rng.randrange(0, 4))
        kinds = [rng.choice(pool) for _ in range(n)]
        if i % 7 == 0:
            kinds = [rng.choice(pool[:2])] * n        # >= 10 repeats of one class
        first_input = rng.random() < 0.3
        last_output = rng.random() < 0.3
        if i % 11 == 5:
            # degenerate but legal sequences: nothing but the end points
            kinds = []
            first_input, last_output = rng.choice([(True, False), (False, True), (True, True)])
        recs = [gen.node_recipe(rng, k, meta_p=0.05) for k in kinds]
        if i % 3 == 1:
            # a *chained* sequence: every node consumes its predecessor's output shape; Conv
            # input shapes / Flatten input types may be left undefined (legal forms)
            sh = [rng.randrange(1, 3), rng.randrange(5, 12)] + ([rng.randrange(5, 12)] if rng.random() < 0.6 else [])
            recs, kinds = [], []
            for _ in range(rng.randrange(2, 7)):
                k, rec = gen.node_for_input(rng, sh)
                o = gen.out_shape_of(k, rec, sh)
                if recs and rng.random() < 0.6:
                    if k in ("Conv1d", "Conv2d"):
                        rec["kwargs"] = [[a, (None if a == "input_shape" else v)] for a, v in rec["kwargs"]]
                    elif k == "Flatten":
                        rec["kwargs"] = [[a, (None if a == "input_type" else v)] for a, v in rec["kwargs"]]
                recs.append(rec); kinds.append(k); sh = o
            ctx.count("chained")
        if i % 13 == 6:
            # a convolution directly followed by a dense layer whose fan-in equals the *element count* of the conv output
            # (what one writes when the flattening is left implicit): the chain is still exactly the given nodes
            ck = rng.choice(["Conv1d", "Conv2d"])
            ish = [rng.randrange(1, 3), rng.randrange(4, 8)] + ([rng.randrange(4, 8)] if ck == "Conv2d" else [])
            crec = gen.node_recipe(rng, ck, sh=ish, meta_p=0.0)
            o = gen.out_shape_of(ck, crec, ish)
            if o and all(v > 0 for v in o):
                dense = rng.choice(["Linear", "Affine"])
                fan = int(np.prod(o)); m = rng.randrange(1, 4)
                kw = [["weight", gen.arr(rng, [m, fan], "<f8")]] + ([["bias", gen.arr(rng, [m], "<f8")]] if dense == "Affine" else [])
                recs, kinds = [crec, {"type": dense, "kwargs": kw}], [ck, dense]
                if rng.random() < 0.5:
                    recs.append(gen.node_recipe(rng, "Flatten", meta_p=0.0)); kinds.append("Flatten")
                ctx.count("conv_then_dense_by_element_count")
        if first_input:
            r0 = gen.node_recipe(rng, "Input", meta_p=0.0)
            if rng.random() < 0.35:
                r0 = {"type": "Input", "kwargs": [["input_type", None]]}     # an explicit end point left untyped (legal)
                ctx.count("explicit_endpoint_untyped")
            recs = [r0] + recs
            kinds = ["Input"] + kinds
        if last_output:
            r1 = gen.node_recipe(rng, "Output", meta_p=0.0)
            if rng.random() < 0.35:
                r1 = {"type": "Output", "kwargs": [["output_type", None]]}
                ctx.count("explicit_endpoint_untyped")
            recs = recs + [r1]
            kinds = kinds + ["Output"]
        conv = rng.choice(["args", "list", "tuple"])
        case = {"op": "from_list", "nodes": recs, "convention": conv}
        ctx.case(case); ctx.count("sequences"); ctx.count("convention_" + conv); ctx.count("len", len(recs))
        try:
            nodes = [impl_construct(r) for r in recs]
        except Exception as e:  # noqa
            ctx.count("construct_rejected")
            continue
        reuse = None
        if i % 9 == 4 and len(nodes) >= 3:
            # the same node *object* at two positions (a re-applied / weight-shared layer): position-wise it is still
            # one entry per position, named by the per-class counter
            body = [j for j, k in enumerate(kinds) if k not in ("Input", "Output")]
            if len(body) >= 2:
                a, b = sorted(rng.sample(body, 2))
                nodes[b] = nodes[a]; recs[b] = recs[a]; kinds[b] = kinds[a]
                reuse = [a, b]
                ctx.count("reused_object")
        case["nodes"] = recs
        if reuse:
            case["same_object_at"] = reuse
        try:
            g = nir.NIRGraph.from_list(*nodes) if conv == "args" else \
                nir.NIRGraph.from_list(nodes if conv == "list" else tuple(nodes))
            o = canon_node(g)
        except Exception as e:  # noqa
            ctx.violate(case, "from_list raised on a valid sequence", {"site": "from_list", "what": "raised"},
                        observed=err_name(e))
            cases.append(case); obs.append({"err": err_name(e)}); reqs.append(case)
            continue
        names = expected_names(kinds)
        want_keys = ([] if first_input else ["input"]) + names + ([] if last_output else ["output"])
        keys = list(g.nodes.keys())
        vals = list(g.nodes.values())
        given = vals[(0 if first_input else 1):(len(vals) if last_output else len(vals) - 1)]
        sig = {"site": "from_list"}
        if keys != want_keys:
            ctx.violate(case, "node names/order differ from the naming scheme", {**sig, "what": "names"},
                        observed=keys, required=want_keys)
        elif len(set(keys)) != len(keys):
            ctx.violate(case, "node names are not pairwise distinct", {**sig, "what": "distinct"}, observed=keys)
        elif len(given) != len(nodes) or any(a is not b for a, b in zip(given, nodes)):
            ctx.violate(case, "the graph does not contain each given node object exactly once, in order",
                        {**sig, "what": "identity"})
        elif [tuple(e) for e in g.edges] != list(zip(keys, keys[1:])):
            ctx.violate(case, "edges are not the chain of consecutive names", {**sig, "what": "edges"},
                        observed=[list(e) for e in g.edges][:6])
        else:
            first, last = nodes[0], nodes[-1]
            if not first_input:
                inp = g.nodes["input"]
                if type(inp) is not nir.Input or canon(inp.input_type) != canon(first.input_type):
                    ctx.violate(case, "auto Input does not carry the first node's input type", {**sig, "what": "input-type"},
                                observed=canon(inp.input_type), required=canon(first.input_type))
            if not last_output:
                out = g.nodes["output"]
                if type(out) is not nir.Output or canon(out.output_type) != canon(last.output_type):
                    ctx.violate(case, "auto Output does not carry the last node's output type", {**sig, "what": "output-type"},
                                observed=canon(out.output_type), required=canon(last.output_type))
        cases.append(case); obs.append(o); reqs.append(case)
        # a second call on some of the same node objects (another order, another repetition index): names depend on the
        # sequence given *now*, never on what an earlier call did with the objects
        body = [(k, nd) for k, nd in zip(kinds, nodes) if k not in ("Input", "Output")]
        if i % 2 == 0 and len(body) >= 2:
            sub = rng.sample(body, rng.randrange(1, len(body) + 1))
            if rng.random() < 0.5:
                sub = sub[::-1]
            ctx.count("second_call_on_same_objects")
            try:
                g2 = nir.NIRGraph.from_list([nd for _, nd in sub])
                keys2 = list(g2.nodes.keys()); vals2 = list(g2.nodes.values())
                want2 = ["input"] + expected_names([k for k, _ in sub]) + ["output"]
                ok = keys2 == want2 and all(a is b for a, (_, b) in zip(vals2[1:-1], sub)) and len(vals2) == len(sub) + 2
            except Exception as e:  # noqa
                keys2, want2, ok = f"raised {type(e).__name__}", None, False
            if not ok:
                ctx.violate({**case, "second_call": [k for k, _ in sub]}, "a later from_list call on node objects used before "
                            "does not name / hold them by the sequence it was given",
                            {"site": "from_list", "what": "second-call"}, observed=keys2, required=want2)
    ctx.compare("graphs", cases, obs, reqs)
