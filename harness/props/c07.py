"""C07 — Flatten shape arithmetic matches array-flatten semantics."""
import itertools

import numpy as np

import gen
from canon import build, canon, err_name
from core import observe_construct


def ref_flatten(shape, s, e):
    """numpy as the executable reference: really reshape an array."""
    rank = len(shape)
    s2 = s + rank if s < 0 else s
    e2 = e + rank if e < 0 else e
    a = np.empty(shape, dtype=np.int8)
    merged = a.reshape(tuple(shape[:s2]) + (-1,) + tuple(shape[e2 + 1:])) if a.size else None
    if merged is not None:
        return list(merged.shape)
    return list(shape[:s2]) + [int(np.prod(shape[s2:e2 + 1]))] + list(shape[e2 + 1:])


def _run_main(ctx):
    from nir.ir.utils import calc_flatten_output
    rng = ctx.rng
    cases, obs, reqs = [], [], []
    maxrank = 5 if ctx.tier == "thorough" else 4
    for rank in range(1, maxrank + 1):
        for shape in itertools.product([1, 2, 3], repeat=rank):
            shape = list(shape)
            for a in range(rank):
                for b in range(a, rank):
                    for s, e in {(a, b), (a - rank, b), (a, b - rank), (a - rank, b - rank)}:
                        case = {"op": "flatten", "shape": shape, "s": s, "e": e}
                        ctx.case(case)
                        ctx.count("util_enum")
                        want = ref_flatten(shape, s, e)
                        form = rng.choice([np.array(shape), list(shape), tuple(shape)])
                        try:
                            got = [int(x) for x in calc_flatten_output(form, s, e)]
                            o = {"r": got}
                        except Exception as ex:  # noqa
                            got, o = None, {"err": err_name(ex)}
                        if got != want:
                            ctx.violate(case, "calc_flatten_output differs from reshaping a real array",
                                        {"site": "calc_flatten_output"}, observed=o, required=want)
                        cases.append(case); obs.append(o); reqs.append(case)
    ctx.exhaustive_parts.append(f"all shapes of rank 1..{maxrank} with axis lengths 1..3 x all (start,end) incl. negative")
    ctx.compare("shapes", cases, obs, reqs)

    # Flatten node: construction path, all argument forms
    cases, obs, reqs = [], [], []
    for _ in range(ctx.n(300)):
        rec = gen.node_recipe(rng, "Flatten", meta_p=0.0)
        kw = dict((k, v) for k, v in rec["kwargs"])
        shp = _shape_of(kw["input_type"])
        s, e = kw["start_dim"]["i"], kw["end_dim"]["i"]
        want = ref_flatten(shp, s, e)
        o, node = observe_construct(rec)
        case = {"op": "construct", **rec}
        ctx.case(case); ctx.count("Flatten_construct")
        if node is None:
            ctx.violate(case, "valid Flatten rejected", {"site": "Flatten", "what": "rejected"}, observed=o)
        else:
            got = [int(x) for x in np.asarray(node.output_type["output"]).ravel()]
            got_in = [int(x) for x in np.asarray(node.input_type["input"]).ravel()]
            if got != want or got_in != shp or int(np.prod(got)) != int(np.prod(shp)):
                ctx.violate(case, "Flatten node types differ from reshaping a real array", {"site": "Flatten"},
                            observed={"in": got_in, "out": got}, required={"in": shp, "out": want})
            # survives serialisation: dict and file round trips keep the flattened shape
            import nir
            from core import file_roundtrip
            for how in ("dict", "file"):
                try:
                    g = nir.NIRGraph(nodes={"f": node}, edges=[])
                    g2 = nir.NIRGraph.from_dict(g.to_dict()) if how == "dict" else file_roundtrip(g)
                    got2 = [int(x) for x in np.asarray(g2.nodes["f"].output_type["output"]).ravel()]
                    in2 = [int(x) for x in np.asarray(g2.nodes["f"].input_type["input"]).ravel()]
                except Exception as ex:  # noqa
                    got2, in2 = f"raised {type(ex).__name__}", None
                ctx.count(f"Flatten_{how}_roundtrip")
                if got2 != want or in2 != shp:
                    ctx.violate(case, f"Flatten shape does not survive a {how} round trip",
                                {"site": "Flatten", "what": f"{how}-roundtrip"},
                                observed={"in": in2, "out": got2}, required={"in": shp, "out": want})
        cases.append(case); obs.append(o); reqs.append(case)
    ctx.compare("nodes", cases, obs, reqs)
    from props import graphs
    graphs.flatten_inferred(ctx, ref_flatten)
    # chains of *annotated* Flatten nodes inside a graph, edge list in arbitrary order, through the dict and file forms
    import nir
    from core import file_roundtrip, impl_construct
    for _ in range(ctx.n(60)):
        shp = gen.shape(rng, rank=rng.randrange(2, 5), lo=1, hi=5)
        nodes = [["in", {"type": "Input", "kwargs": [["input_type", gen.shape_arg(rng, shp, "input")]]}]]
        want, cur = {}, list(shp)
        for j in range(rng.randrange(2, 4)):
            r = len(cur)
            a = rng.randrange(0, r); b = rng.randrange(a, r)
            sd = a if rng.random() < 0.5 else a - r
            ed = b if rng.random() < 0.5 else b - r
            out = ref_flatten(cur, a, b)
            nodes.append([f"f{j}", {"type": "Flatten", "kwargs": [["input_type", gen.shape_arg(rng, cur, "input")],
                                                                   ["start_dim", gen.pyint(sd)], ["end_dim", gen.pyint(ed)]]}])
            want[f"f{j}"] = (list(cur), list(out))
            cur = list(out)
        nodes.append(["out", {"type": "Output", "kwargs": [["output_type", gen.shape_arg(rng, cur, "output")]]}])
        names = [n for n, _ in nodes]
        edges = [[a, b] for a, b in zip(names, names[1:])]
        rng.shuffle(edges)
        if rng.random() < 0.5:
            rng.shuffle(nodes)
        g = {"type": "NIRGraph", "nodes": nodes, "edges": edges, "meta": None}
        case = {"op": "flatten_chain", "graph": g}
        ctx.case(case); ctx.count("flatten_chains")
        try:
            graph = impl_construct(g)
        except Exception as e:  # noqa
            ctx.violate(case, "a chain of valid Flatten nodes was rejected", {"site": "Flatten", "what": "chain-rejected"},
                        observed=err_name(e)); continue
        for how in ("dict", "file"):
            try:
                g2 = nir.NIRGraph.from_dict(graph.to_dict()) if how == "dict" else file_roundtrip(graph)
                bad = {k: (_ints(g2.nodes[k].input_type["input"]), _ints(g2.nodes[k].output_type["output"]))
                       for k, w in want.items()
                       if (_ints(g2.nodes[k].input_type["input"]), _ints(g2.nodes[k].output_type["output"])) != w}
            except Exception as e:  # noqa
                bad = {"raised": f"{type(e).__name__}: {e}"}
            if bad:
                ctx.violate(case, f"Flatten types inside a graph are not preserved by the {how} round trip",
                            {"site": "Flatten", "what": f"chain-{how}-roundtrip"}, observed=bad,
                            required={k: w for k, w in want.items() if k in bad})
                break
    # axis lengths at the edges of the integer widths a writer might pick for a shape vector (127/128/129, 255/256,
    # 32767/32768, 2^31-1/2^31): the Flatten read back flattens what was written
    for _ in range(ctx.n(30, 150)):
        big = rng.choice([127, 128, 129, 255, 256, 257, 32767, 32768, 32769, 65535, 65536, 2 ** 31 - 1, 2 ** 31, 2 ** 31 + 1])
        shp = [rng.randrange(1, 4) for _ in range(rng.randrange(1, 4))]
        shp.insert(rng.randrange(0, len(shp) + 1), big)
        r = len(shp); a = rng.randrange(0, r); b = rng.randrange(a, r)
        case = {"op": "flatten_boundary_axis", "shape": shp, "s": a, "e": b}
        ctx.case(case); ctx.count("flatten_boundary_axis")
        want = ref_flatten(shp, a, b)
        try:
            f = nir.Flatten(np.array(shp), a, b)
            g0 = nir.NIRGraph(nodes={"f": f}, edges=[])
            res = {}
            for how in ("dict", "file"):
                g2 = nir.NIRGraph.from_dict(g0.to_dict()) if how == "dict" else file_roundtrip(g0)
                res[how] = (_ints(g2.nodes["f"].input_type["input"]), _ints(g2.nodes["f"].output_type["output"]))
        except Exception as e:  # noqa
            res = {"raised": f"{type(e).__name__}: {e}"}
        bad = {k: v for k, v in res.items() if v != (shp, want)}
        if bad:
            ctx.violate(case, "Flatten shape does not survive a round trip (axis length at an integer-width boundary)",
                        {"site": "Flatten", "what": "boundary-axis-roundtrip"}, observed=bad, required=[shp, want])
    # two nodes given one and the same type-dictionary *object* (a dict argument is kept as it is): re-typing the later one
    # by inference must leave the earlier Flatten exactly the flattening of its own input
    from core import quiet
    for _ in range(ctx.n(30, 150)):
        shp = gen.shape(rng, rank=rng.randrange(2, 5), lo=2, hi=5)
        r = len(shp)
        a = rng.randrange(0, r - 1); b = rng.randrange(a + 1, r)
        case = {"op": "flatten_shared_type_dict", "shape": shp, "s": a, "e": b}
        ctx.case(case); ctx.count("flatten_shared_type_dict")
        want1 = ref_flatten(shp, a, b)
        try:
            f1 = nir.Flatten({"input": np.array(shp)}, a, b)
            f2 = nir.Flatten(f1.input_type, 0, 0)            # the very same dictionary object
            g = nir.NIRGraph(nodes={"in": nir.Input(np.array(shp)), "f1": f1, "f2": f2, "out": nir.Output(None)},
                             edges=[("in", "f1"), ("f1", "f2"), ("f2", "out")])
            with quiet():
                g.infer_types()
            got = (_ints(f1.input_type["input"]), _ints(f1.output_type["output"]))
        except Exception as e:  # noqa
            got = f"raised {type(e).__name__}"
        if got != (shp, want1):
            ctx.violate(case, "a Flatten that shares its type dictionary object with a later node no longer declares the "
                        "flattening of its own input after inference", {"site": "Flatten", "what": "shared-type-dict"},
                        observed=got, required=[shp, want1])
    # state surviving between constructions: a node built earlier from an equal shape (tuple / list / ndarray / the
    # same argument object) has its declared shape edited in place; a Flatten built afterwards from the shape as given
    # must still declare exactly the flattening of what it was given
    for _ in range(ctx.n(40, 200)):
        shp = gen.shape(rng, rank=rng.randrange(2, 5), lo=1, hi=5)
        form = rng.choice(["tuple", "list", "ndarray", "same-object"])
        mk = {"tuple": lambda: tuple(shp), "list": lambda: list(shp), "ndarray": lambda: np.array(shp),
              "same-object": None}[form]
        shared = tuple(shp)
        arg = (lambda: shared) if mk is None else mk
        r = len(shp)
        a = rng.randrange(0, r); b = rng.randrange(a, r)
        case = {"op": "flatten_after_edit", "shape": shp, "form": form, "s": a, "e": b}
        ctx.case(case); ctx.count("flatten_after_inplace_edit")
        try:
            first = rng.choice([lambda: nir.Input(arg()), lambda: nir.Flatten(arg(), 0, 0), lambda: nir.Output(arg())])()
            t = first.input_type if not isinstance(first, nir.Output) else first.output_type
            np.asarray(next(iter(t.values())))[0] += 4           # the consumer edits the declared shape in place
            f = nir.Flatten(arg(), a, b)
            got_in, got = _ints(f.input_type["input"]), _ints(f.output_type["output"])
        except Exception as e:  # noqa
            got_in, got = None, f"raised {type(e).__name__}"
        want = ref_flatten(shp, a, b)
        if got_in != shp or got != want:
            ctx.violate(case, "a Flatten built after an earlier node's shape array was edited in place does not declare the "
                        "flattening of the shape it was given", {"site": "Flatten", "what": "state-between-constructions"},
                        observed={"in": got_in, "out": got}, required={"in": shp, "out": want})


def _ints(v):
    return None if v is None else [int(x) for x in np.asarray(v).ravel()]


def _shape_of(j):
    v = build(j)
    if isinstance(v, dict):
        v = v["input"]
    return [int(x) for x in np.asarray(v).ravel()]


def run(ctx):
    _run_main(ctx)
    # history independence (harness/history.py): among the edits, a node swapped for a fresh one of the same class under
    # the same name with its annotations erased - a later infer_types types the graph as it is now
    import history
    history.run(ctx, ["infer", "dict_rt", "file_rt"], {"infer": "infer_types on a graph object with a history", "dict_rt": "from_dict(to_dict(g)) of a graph object with a history", "file_rt": "read(write(g)) of a graph object with a history"})
