"""Graph-level helpers shared by several properties (C06 inferred, C07 inferred, C08...)."""
import numpy as np

import gen
from canon import build, canon, canon_node, err_name
from core import impl_construct, quiet


def _ints(v):
    return None if v is None else [int(x) for x in np.asarray(v).ravel()]


def chain_recipe(nodes):
    """Input-first sequential graph recipe from [(name, recipe)]"""
    names = [n for n, _ in nodes]
    return {"type": "NIRGraph", "nodes": [[n, r] for n, r in nodes],
            "edges": [[a, b] for a, b in zip(names, names[1:])], "meta": None}


def infer(graph):
    with quiet():
        graph.infer_types()


def conv_pool_inferred(ctx, true_axis):
    """C06: Conv (input_shape erased) and Sum/AvgPool (always untyped) typed by inference."""
    rng = ctx.rng
    cases, obs, reqs = [], [], []
    for i in range(ctx.n(200)):
        which = rng.choice(["Conv1d", "Conv2d", "Conv2d", "SumPool2d", "AvgPool2d"])
        if which == "Conv1d":
            n, p, d, k, s = gen.conv_axis_params(rng)
            cin, cout = rng.randrange(1, 4), rng.randrange(1, 4)
            rec = {"type": "Conv1d", "kwargs": [
                ["input_shape", None], ["weight", gen.arr(rng, [cout, cin, k])],
                ["stride", gen.pyint(s)], ["padding", gen.pyint(p)], ["dilation", gen.pyint(d)],
                ["groups", gen.pyint(1)], ["bias", gen.arr(rng, [cout])]]}
            in_shape = [cin, n]
            want = [cout, true_axis(n, p, d, k, s)]
        elif which == "Conv2d":
            ns, ps, ds, ks, ss, mode = gen.conv2d_params(rng)
            cin, cout = rng.randrange(1, 4), rng.randrange(1, 4)
            pad = {"s": mode} if mode != "explicit" else gen.hp(rng, ps)
            rec = {"type": "Conv2d", "kwargs": [
                ["input_shape", None], ["weight", gen.arr(rng, [cout, cin] + ks)],
                ["stride", gen.hp(rng, ss)], ["padding", pad], ["dilation", gen.hp(rng, ds)],
                ["groups", gen.pyint(1)], ["bias", gen.arr(rng, [cout])]]}
            pe = [0, 0] if mode == "valid" else ps
            in_shape = [cin] + list(ns)
            want = [cout] + (list(ns) if mode == "same" else
                             [true_axis(n, p, d, k, s) for n, p, d, k, s in zip(ns, pe, ds, ks, ss)])
        else:
            while True:
                ns = [rng.randrange(1, 13), rng.randrange(1, 13)]
                ks = [rng.randrange(1, 5), rng.randrange(1, 5)]
                ss = [rng.randrange(1, 4), rng.randrange(1, 4)]
                ps = [rng.randrange(0, 3), rng.randrange(0, 3)]
                if rng.random() < 0.4:
                    ks, ss, ps = [ks[0]] * 2, [ss[0]] * 2, [ps[0]] * 2
                if all(k <= n + 2 * p for n, k, p in zip(ns, ks, ps)):
                    break
            c = rng.randrange(1, 4)
            rec = {"type": which, "kwargs": [["kernel_size", gen.hp(rng, ks)], ["stride", gen.hp(rng, ss)],
                                              ["padding", gen.hp(rng, ps)]]}
            in_shape = [c] + ns
            want = [c] + [true_axis(n, p, 1, k, s) for n, p, k, s in zip(ns, ps, ks, ss)]
        chain = [("in", {"type": "Input", "kwargs": [["input_type", gen.shape_arg(rng, in_shape, "input")]]}), ("x", rec)]
        tail = None
        if rng.random() < 0.45 and all(v > 0 for v in want):
            # a consumer that derives its own shape from x's declared output (a Flatten left to inference, merging at
            # least two axes): typing it must leave x's declared shapes as they are
            a = rng.randrange(0, len(want) - 1); b = rng.randrange(a + 1, len(want))
            tail = (a if rng.random() < 0.5 else a - len(want), b if rng.random() < 0.5 else b - len(want))
            chain.append(("f", {"type": "Flatten", "kwargs": [["input_type", None], ["start_dim", gen.pyint(tail[0])],
                                                                ["end_dim", gen.pyint(tail[1])]]}))
            ctx.count("inferred_with_downstream_flatten")
        pool_after = None
        if tail is None and which == "Conv2d" and len(want) == 3 and all(v >= 2 for v in want[1:]) and rng.random() < 0.6:
            # a pooling node typed in the same inference run, right behind the (possibly dilated, strided) conv: its window
            # arithmetic uses its own hyper-parameters only (dilation 1)
            pk = [rng.randrange(2, min(4, v) + 1) for v in want[1:]]
            pst = [rng.randrange(1, 3), rng.randrange(1, 3)]
            pkind = rng.choice(["SumPool2d", "AvgPool2d"])
            chain.append(("p", {"type": pkind, "kwargs": [["kernel_size", gen.hp(rng, pk)], ["stride", gen.hp(rng, pst)],
                                                         ["padding", gen.hp(rng, [0, 0])]]}))
            pool_after = [want[0]] + [true_axis(n, 0, 1, k, s) for n, k, s in zip(want[1:], pk, pst)]
            ctx.count("inferred_conv_then_pool")
        chain.append(("out", {"type": "Output", "kwargs": [["output_type", None]]}))
        g = chain_recipe(chain)
        case = {"op": "graph", "graph": g, "ops": ["infer"]}
        ctx.case(case); ctx.count("inferred_" + which)
        try:
            graph = impl_construct(g)
            infer(graph)
            got_in = _ints(graph.nodes["x"].input_type.get("input"))
            got = _ints(graph.nodes["x"].output_type.get("output"))
            o = {"in": got_in, "out": got}
            if _ints(graph.nodes["in"].output_type.get("output")) != in_shape:
                got_in = None; o["upstream"] = _ints(graph.nodes["in"].output_type.get("output"))
            if pool_after is not None:
                pin, pout = _ints(graph.nodes["p"].input_type.get("input")), _ints(graph.nodes["p"].output_type.get("output"))
                if pin != want or pout != pool_after:
                    got = None; o["pool_behind"] = {"in": pin, "out": pout, "want_out": pool_after}
        except Exception as e:  # noqa
            got_in = got = None
            o = {"err": err_name(e)}
        if got != want or got_in != in_shape:
            k = rec["kwargs"][1][1]["sh"][2:] if which.startswith("Conv") else None
            ctx.violate(case, f"{which} typed by inference differs from the sliding-window shape",
                        {"site": "infer_types", "kind": which,
                         "kernel": "nonsquare" if k and len(set(k)) > 1 else "square"},
                        observed=o, required={"in": in_shape, "out": want})


def flatten_inferred(ctx, ref_flatten):
    """C07: Flatten typed by inference (input type erased)."""
    rng = ctx.rng
    for i in range(ctx.n(150)):
        rank = rng.randrange(1, 6)
        shp = [rng.randrange(1, 4) for _ in range(rank)]
        a = rng.randrange(0, rank); b = rng.randrange(a, rank)
        s = a if rng.random() < 0.6 else a - rank
        e = b if rng.random() < 0.5 else b - rank
        rec = {"type": "Flatten", "kwargs": [["input_type", None], ["start_dim", gen.pyint(s)], ["end_dim", gen.pyint(e)]]}
        g = chain_recipe([("in", {"type": "Input", "kwargs": [["input_type", gen.shape_arg(rng, shp, "input")]]}),
                          ("f", rec), ("out", {"type": "Output", "kwargs": [["output_type", None]]})])
        case = {"op": "graph", "graph": g, "ops": ["infer"]}
        ctx.case(case); ctx.count("Flatten_inferred")
        want = ref_flatten(shp, s, e)
        try:
            graph = impl_construct(g)
            infer(graph)
            got = _ints(graph.nodes["f"].output_type.get("output"))
            o = {"out": got}
            up = _ints(graph.nodes["in"].output_type.get("output")); own = _ints(graph.nodes["f"].input_type.get("input"))
            if up != shp or own != shp:
                # typing the Flatten must not disturb the shape it was typed from (nor its own input side)
                got = None; o.update({"upstream_now": up, "flatten_input_now": own})
        except Exception as ex:  # noqa
            got, o = None, {"err": err_name(ex)}
        if got != want:
            ctx.violate(case, "Flatten typed by inference differs from reshaping a real array",
                        {"site": "infer_types", "kind": "Flatten"}, observed=o, required=want)
