"""C14 — type inference commutes with serialisation."""
import itertools

import numpy as np

import gen
from canon import canon, err_name
from core import file_roundtrip, impl_construct, quiet
from props.c08 import types_of


def apply_op(g, op):
    import nir
    if op == "infer":
        with quiet():
            g.infer_types()
        return g
    if op == "file_rt":
        return file_roundtrip(g)
    if op == "dict_rt":
        return nir.NIRGraph.from_dict(g.to_dict())
    raise ValueError(op)


def want_types(truth):
    return {k: ({"input": ti}, {"output": to}) for k, (ti, to) in truth.items()}


def grouped_conv_graph(rng):
    """Input -> Conv (shape left to inference, groups > 1) -> [pool] -> Output(None): a writable graph whose
    conv input channels are groups * weight.shape[1]"""
    groups = rng.choice([2, 3])
    cin_per, cout = rng.randrange(1, 3), groups * rng.randrange(1, 3)
    two_d = rng.random() < 0.7
    k = [rng.randrange(1, 4) for _ in range(2 if two_d else 1)]
    n = [rng.randrange(4, 10) for _ in k]
    in_shape = [groups * cin_per] + n
    conv = {"type": "Conv2d" if two_d else "Conv1d", "kwargs": [
        ["input_shape", None], ["weight", gen.arr(rng, [cout, cin_per] + k)], ["stride", gen.pyint(1)],
        ["padding", gen.pyint(0)], ["dilation", gen.pyint(1)], ["groups", gen.pyint(groups)], ["bias", gen.arr(rng, [cout])]]}
    out = [cout] + [a - b + 1 for a, b in zip(n, k)]
    nodes = [["in", {"type": "Input", "kwargs": [["input_type", gen.shape_arg(rng, in_shape, "input")]]}], ["conv", conv]]
    truth = {"in": (in_shape, in_shape), "conv": (in_shape, out)}
    edges = [["in", "conv"]]
    last, last_shape = "conv", out
    if two_d and rng.random() < 0.5:
        nodes.append(["pool", {"type": "AvgPool2d", "kwargs": [["kernel_size", gen.pyint(1)], ["stride", gen.pyint(1)], ["padding", gen.pyint(0)]]}])
        truth["pool"] = (out, out)
        edges.append(["conv", "pool"]); last = "pool"
    nodes.append(["out", {"type": "Output", "kwargs": [["output_type", None]]}])
    truth["out"] = (last_shape, last_shape)
    edges.append([last, "out"])
    return {"type": "NIRGraph", "nodes": nodes, "edges": edges, "meta": None}, truth, ["conv", "out"]


def same_stride_graph(rng):
    """Input -> Conv(padding='same', stride > 1, shape left to inference) -> [Flatten(None)] -> Output(None).
    'same' with a stride other than 1 is outside C06's stated domain, so what the types *are* is not judged;
    only that they survive the round trips (the reference is inference on the original graph)."""
    two_d = rng.random() < 0.7
    k = [rng.choice([1, 3, 5]) for _ in range(2 if two_d else 1)]
    n = [rng.randrange(6, 14) for _ in k]
    cin, cout = rng.randrange(1, 3), rng.randrange(1, 5)
    stride = [rng.randrange(2, 4) for _ in k]
    conv = {"type": "Conv2d" if two_d else "Conv1d", "kwargs": [
        ["input_shape", None], ["weight", gen.arr(rng, [cout, cin] + k)],
        ["stride", gen.pyint(stride[0]) if not two_d or rng.random() < 0.5 else {"t": [gen.pyint(x) for x in stride]}],
        ["padding", {"s": "same"}], ["dilation", gen.pyint(1)], ["groups", gen.pyint(1)], ["bias", gen.arr(rng, [cout])]]}
    in_shape = [cin] + n
    nodes = [["in", {"type": "Input", "kwargs": [["input_type", gen.shape_arg(rng, in_shape, "input")]]}], ["conv", conv]]
    edges = [["in", "conv"]]
    last = "conv"
    if rng.random() < 0.6:
        nodes.append(["flat", {"type": "Flatten", "kwargs": [["input_type", None], ["start_dim", gen.pyint(0)], ["end_dim", gen.pyint(-1)]]}])
        edges.append(["conv", "flat"]); last = "flat"
    nodes.append(["out", {"type": "Output", "kwargs": [["output_type", None]]}])
    edges.append([last, "out"])
    return {"type": "NIRGraph", "nodes": nodes, "edges": edges, "meta": None}, None, ["conv", "out"]


def _run_main(ctx):
    from core import run_graph_ops
    rng = ctx.rng
    cases, obs, reqs = [], [], []
    OPS = ["infer", "file_rt", "dict_rt"]
    for i in range(ctx.n(160, 320)):
        grouped = i % 8 == 7
        if i % 8 == 3:
            grouped = True          # commutation clause only
            g, truth, erased = same_stride_graph(rng)
            try:
                ref = impl_construct(g)
                with quiet():
                    ref.infer_types()
                truth = {k: (v[0]["input"], v[1]["output"]) for k, v in types_of(ref).items()}
                ctx.count("same_stride_graphs")
            except Exception:
                ctx.count("same_stride_rejected")
                continue
        elif i % 8 == 1:
            # a pooling node given explicit type keywords (e.g. a ceil-mode annotation from an exporter): the constructor
            # derives nothing from them, so the graph means what kernel / stride / padding say - before and after any round trip
            c, n0 = rng.randrange(1, 4), rng.choice([7, 9, 15])
            pk = rng.choice(["SumPool2d", "AvgPool2d"])
            o = (n0 - 2) // 2 + 1
            bogus = lambda key, v: {"d": [[key, {"a": "<i8", "sh": [3], "x": np.array(v, dtype="<i8").tobytes().hex()}]]}
            kw = [["kernel_size", gen.pyint(2)], ["stride", gen.pyint(2)], ["padding", gen.pyint(0)]]
            if "output_type" in gen._init_fields(pk):
                kw.append(["output_type", bogus("output", [c, o + 1, o + 1])])
            if "input_type" in gen._init_fields(pk) and rng.random() < 0.5:
                kw.append(["input_type", bogus("input", [c, n0, n0])])
            nodes = [["in", {"type": "Input", "kwargs": [["input_type", gen.shape_arg(rng, [c, n0, n0], "input")]]}],
                     ["pool", {"type": pk, "kwargs": kw}], ["out", {"type": "Output", "kwargs": [["output_type", None]]}]]
            g = {"type": "NIRGraph", "nodes": nodes, "edges": [["in", "pool"], ["pool", "out"]], "meta": None}
            truth = {"in": ([c, n0, n0], [c, n0, n0]), "pool": ([c, n0, n0], [c, o, o]), "out": ([c, o, o], [c, o, o])}
            erased = ["pool", "out"]
            ctx.count("pooling_with_explicit_type_keywords")
        elif i % 8 == 5:
            # a consistent graph over *scalar* signals: rank-0 (0-d array) parameters, the empty shape on every port
            empty = {"a": "<i8", "sh": [0], "x": ""}
            nodes = [["in", {"type": "Input", "kwargs": [["input_type", empty]]}]]
            truth = {"in": ([], [])}
            for j in range(rng.randrange(1, 4)):
                kd = rng.choice(["Scale", "Threshold", "LIF", "LI", "IF", "Delay"])
                nodes.append([f"s{j}", gen.node_recipe(rng, kd, sh=[], dtype="<f8", meta_p=0.0)]); truth[f"s{j}"] = ([], [])
            nodes.append(["out", {"type": "Output", "kwargs": [["output_type", None]]}]); truth["out"] = ([], [])
            names = [n for n, _ in nodes]
            g = {"type": "NIRGraph", "nodes": nodes, "edges": [[a, b] for a, b in zip(names, names[1:])], "meta": None}
            erased = ["out"]
            ctx.count("scalar_signal_graphs")
        elif grouped:
            # groups > 1 is outside C06/C08's stated domain (declared conv input channels ignore `groups`), so only
            # the commutation clause -- which the code does satisfy there -- is checked on these graphs
            g, truth, erased = grouped_conv_graph(rng)
        else:
            g, truth, erased = gen.consistent_graph(rng, max_nodes=7, wrong_output=False)
        want = want_types(truth)
        kinds = sorted(set(r["type"] for _, r in g["nodes"]))
        for k in kinds:
            ctx.count("kind_" + k)
        # (a) infer after a file round trip == infer on the original: erased annotations cannot be
        #     written (None), so the graph is inferred first or fully annotated
        histories = []
        all_h = [h for n in range(1, 5) for h in itertools.product(OPS, repeat=n)]
        for h in rng.sample(all_h, 6 if ctx.tier == "quick" else 14):
            histories.append(list(h))
        histories.append(["infer", "file_rt"])
        histories.append(["infer", "file_rt", "infer"])
        for h in histories:
            if erased and "file_rt" in h and "infer" not in h[:h.index("file_rt")]:
                h = ["infer"] + h          # file form cannot carry None annotations
            case = {"op": "history", "graph": g, "ops": h}
            ctx.case(case); ctx.count("histories"); ctx.count("len_%d" % len(h))
            if len(cases) < 150 and not grouped:
                c2 = {"op": "graph", "graph": g, "ops": h}
                st2, _ = run_graph_ops(g, h)
                cases.append(c2); obs.append({"steps": st2}); reqs.append(c2)
            try:
                graph = impl_construct(g)
            except Exception:
                ctx.count("construct_rejected"); break
            sig = {"site": "history"}
            try:
                inferred_once = False
                for j, op in enumerate(h):
                    graph = apply_op(graph, op)
                    inferred_once = inferred_once or op == "infer"
                    if inferred_once and op != "infer" and not grouped:
                        # annotations that the file/dict carries are regained without inference:
                        got = types_of(graph)
                        bad = [k for k in want if dict(g["nodes"])[k]["type"] not in ("SumPool2d", "AvgPool2d")
                               and got.get(k) != want[k]]
                        if op == "dict_rt":
                            bad = [k for k in want if got.get(k) != want[k]
                                   and dict(g["nodes"])[k]["type"] not in ("SumPool2d", "AvgPool2d")]
                        if bad:
                            ctx.violate(case, "types carried by the serialised form are not regained after a round trip "
                                        "of an inferred graph", {**sig, "what": "regain", "after": op,
                                                                 "kinds": sorted(set(dict(g["nodes"])[k]["type"] for k in bad))},
                                        observed={k: got.get(k) for k in bad[:3]}, required={k: want[k] for k in bad[:3]})
                            raise StopIteration
                # one more infer_types() restores everything
                graph = apply_op(graph, "infer")
                got = types_of(graph)
                bad = [k for k in want if got.get(k) != want[k]]
                if bad:
                    ctx.violate(case, "inference after the operation history does not give the types of inferring the original graph",
                                {**sig, "what": "commute", "kinds": sorted(set(dict(g["nodes"])[k]["type"] for k in bad))},
                                observed={k: got.get(k) for k in bad[:3]}, required={k: want[k] for k in bad[:3]})
            except StopIteration:
                pass
            except Exception as e:  # noqa
                from props.c08 import _unsigned_promotion
                cause = _unsigned_promotion(g, graph if hasattr(graph, "nodes") else None)
                extra = {"cause": cause} if cause else {}
                ctx.violate(case, "an operation of the history raised on a consistent graph",
                            {**sig, "what": "raised", "err": err_name(e), **extra}, observed=f"{type(e).__name__}: {e}")
    ctx.compare("histories", cases, obs, reqs)


def _near_width_boundaries(ctx):
    """extents and paddings whose every *stored* value fits a narrow integer width while the arithmetic of the shape formula
    (n + 2p, d(k-1)) does not: what a file hands back must infer like the original"""
    import nir
    rng = ctx.rng
    for _ in range(ctx.n(24, 96)):
        lim = rng.choice([127, 255, 32767, 65535])
        p = rng.randrange(1, 5)
        n = [lim - rng.randrange(0, 2 * p) for _ in range(2)]
        k, st = rng.randrange(1, 4), rng.randrange(1, 3)
        c = rng.randrange(1, 3)
        arrform = rng.random() < 0.7
        f = (lambda v: np.array([v, v])) if arrform else (lambda v: (v, v))
        kind = rng.choice(["SumPool2d", "AvgPool2d", "Conv2d"])
        if kind == "Conv2d":
            mid = nir.Conv2d(None, np.zeros((2, c, k, k), dtype="float32"), f(st), f(p), f(1), 1, np.zeros(2, dtype="float32"))
            cout = 2
        else:
            mid = getattr(nir, kind)(kernel_size=f(k), stride=f(st), padding=f(p))
            cout = c
        o = [(x + 2 * p - (k - 1) - 1) // st + 1 for x in n]
        want = {"in": ([c] + n, [c] + n), "mid": ([c] + n, [cout] + o), "out": ([cout] + o, [cout] + o)}
        g = nir.NIRGraph(nodes={"in": nir.Input(np.array([c] + n)), "mid": mid, "out": nir.Output(None)},
                         edges=[("in", "mid"), ("mid", "out")])
        h = rng.choice([["infer", "file_rt", "infer"], ["infer", "file_rt", "file_rt", "infer"], ["infer", "file_rt", "dict_rt", "infer"]])
        case = {"op": "near_width_boundary", "kind": kind, "extent": n, "padding": p, "kernel": k, "stride": st,
                "array_valued": arrform, "ops": h}
        ctx.case(case); ctx.count("near_width_boundary_" + kind)
        try:
            cur = g
            for op in h:
                cur = apply_op(cur, op)
        except Exception as e:  # noqa
            ctx.violate(case, "an operation of the history raised on a consistent graph", {"site": "history", "what": "raised",
                                                                                           "family": "near-width-boundary"},
                        observed=f"{type(e).__name__}: {e}")
            continue
        got = types_of(cur)
        bad = [kk for kk, (ti, to) in want.items() if got.get(kk) != ({"input": ti}, {"output": to})]
        if bad:
            ctx.violate(case, "inference after the operation history does not give the types of inferring the original graph",
                        {"site": "history", "what": "commute", "family": "near-width-boundary", "kinds": [kind]},
                        observed={kk: got.get(kk) for kk in bad[:3]}, required={kk: list(want[kk]) for kk in bad[:3]})


def run(ctx):
    from props.c08 import _replay_f15
    _replay_f15(ctx, "history", "raised")
    _run_main(ctx)
    _near_width_boundaries(ctx)
    # history independence: the same call on a live graph object with a history of edits / calls and on a twin rebuilt
    # from its public state (harness/history.py)
    import history
    history.run(ctx, ["infer", "file_rt"], {"infer": "infer_types on a graph object with a history", "file_rt": "read(write(g)) of a graph object with a history"})
