"""C12 — graph-level interface always mirrors its Input and Output nodes."""
import gen
from canon import canon
from core import run_graph_ops


def mirror_defects(g, path="g"):
    """scan of graph.nodes compared with the four graph-level attributes, at every depth"""
    import nir
    bad = []
    ins = {k: n for k, n in g.nodes.items() if type(n) is nir.Input}
    outs = {k: n for k, n in g.nodes.items() if type(n) is nir.Output}
    gi, go = g.inputs, g.outputs
    if list(gi.keys()) != list(ins.keys()) or any(gi[k] is not ins[k] for k in ins):
        bad.append((path, "inputs"))
    if list(go.keys()) != list(outs.keys()) or any(go[k] is not outs[k] for k in outs):
        bad.append((path, "outputs"))
    it = g.input_type
    if not ins:
        if it not in (None, {}):
            bad.append((path, "input_type-nonempty-without-inputs"))
    elif it is None or list(it.keys()) != list(ins.keys()) or any(
            canon(it[k]) != canon(ins[k].input_type) for k in ins):
        bad.append((path, "input_type"))
    ot = g.output_type
    if not outs:
        if ot not in (None, {}):
            bad.append((path, "output_type-nonempty-without-outputs"))
    elif ot is None or list(ot.keys()) != list(outs.keys()) or any(
            canon(ot[k]) != canon(outs[k].output_type) for k in outs):
        bad.append((path, "output_type"))
    for k, n in g.nodes.items():
        if isinstance(n, nir.NIRGraph):
            bad += mirror_defects(n, path + "/" + k)
    return bad


def io_graph(rng, depth=0):
    """graphs with 0..n Input/Output children under any names; optionally nested"""
    g, truth, erased = gen.consistent_graph(rng, max_nodes=6)
    r = rng.random()
    if r < 0.15:
        # drop all inputs (and edges touching them)
        ins = [n for n, rec in g["nodes"] if rec["type"] == "Input"]
        g["nodes"] = [[n, rec] for n, rec in g["nodes"] if n not in ins]
        g["edges"] = [e for e in g["edges"] if e[0] not in ins and e[1] not in ins]
    elif r < 0.3:
        outs = [n for n, rec in g["nodes"] if rec["type"] == "Output"]
        g["nodes"] = [[n, rec] for n, rec in g["nodes"] if n not in outs]
        g["edges"] = [e for e in g["edges"] if e[0] not in outs and e[1] not in outs]
    elif r < 0.5:
        # edges into Input nodes (shape-compatible or not), among them a chained second Input of another shape
        ins = [n for n, rec in g["nodes"] if rec["type"] == "Input"]
        others = [n for n, rec in g["nodes"] if rec["type"] not in ("Input",)]
        if ins and others:
            g["edges"].append([rng.choice(others), rng.choice(ins)])
        if ins and rng.random() < 0.6:
            s2 = gen.shape(rng, rank=rng.randrange(1, 3), lo=7, hi=9)
            g["nodes"].append(["in_late", {"type": "Input", "kwargs": [["input_type", gen.shape_arg(rng, s2, "input")]]}])
            g["edges"].insert(rng.randrange(0, len(g["edges"]) + 1), [rng.choice(ins), "in_late"])
    elif r < 0.7:
        # an inference that fails part-way (nested graph as a successor: NotImplementedError) next to an
        # Output whose own shape is erased, so that the Output may be re-typed before the error is raised
        outs = [n for n, rec in g["nodes"] if rec["type"] == "Output"]
        if outs:
            o = rng.choice(outs)
            for n, rec in g["nodes"]:
                if n == o:
                    rec["kwargs"] = [["output_type", None]]
            srcs = [e[0] for e in g["edges"] if e[1] == o]
            if srcs:
                sub = {"type": "NIRGraph", "meta": None, "edges": [["i", "o"]], "nodes": [
                    ["i", {"type": "Input", "kwargs": [["input_type", gen.shape_arg(rng, [2], "input")]]}],
                    ["o", {"type": "Output", "kwargs": [["output_type", gen.shape_arg(rng, [2], "output")]]}]]}
                g["nodes"].append(["zsub", sub])
                g["edges"].insert(rng.randrange(0, len(g["edges"]) + 1), [rng.choice(srcs), "zsub"])
    if depth < 2 and rng.random() < 0.25:
        sub = io_graph(rng, depth + 1)
        g["nodes"].append(["sub", sub])
        r2 = rng.random()
        if r2 < 0.4 and g["nodes"]:
            g["edges"].append([g["nodes"][0][0], "sub"])
        elif r2 < 0.8:
            # dotted port references into the nested graph ("sub.<inner node>")
            inner_in = [n for n, rec in sub["nodes"] if rec["type"] == "Input"]
            inner_out = [n for n, rec in sub["nodes"] if rec["type"] == "Output"]
            outer = [n for n, rec in g["nodes"] if n != "sub"]
            outer_src = [n for n, rec in g["nodes"] if rec["type"] == "Input"] or outer
            if inner_in and outer_src:
                g["edges"].insert(rng.randrange(0, len(g["edges"]) + 1), [rng.choice(outer_src), "sub." + rng.choice(inner_in)])
            if inner_out and outer and rng.random() < 0.6:
                g["edges"].append(["sub." + rng.choice(inner_out), rng.choice(outer)])
    return g


def _run_main(ctx):
    rng = ctx.rng
    cases, obs, reqs = [], [], []
    for i in range(ctx.n(200)):
        g = io_graph(rng)
        nops = rng.randrange(0, 5 if ctx.tier == "quick" else 7)
        ops = [rng.choice(["infer", "infer", "dict_rt", "file_rt", "to_dict_refused", "write_refused"]) for _ in range(nops)]
        case = {"op": "graph", "graph": g, "ops": ops}
        ctx.case(case)
        ctx.count("histories"); ctx.count("ops_total", len(ops))
        found = []

        def after(op, graph, step, found=found):
            d = mirror_defects(graph)
            if d:
                found.append({"after": op, "raised": step.get("err"), "defects": d})
        steps, graph = run_graph_ops(g, ops, after=after)
        for op in ops:
            ctx.count("op_" + op)
        if found:
            f = found[0]
            ctx.violate(case, "graph-level interface does not mirror the Input/Output children",
                        {"site": "NIRGraph", "after": f["after"], "attr": f["defects"][0][1]}, observed=found[:3])
        if all(o in ("infer", "check") for o in ops):
            cases.append(case); obs.append({"steps": steps}); reqs.append(case)
    # inference that derives degenerate extents (a window larger than the padded input: zero or negative sizes are
    # what the arithmetic yields, and they reach the Outputs like any other shape) - the mirror holds all the same
    import numpy as np
    import nir
    from core import quiet
    for _ in range(ctx.n(30, 150)):
        n = rng.randrange(2, 6); k = n + rng.randrange(0, 5); st = rng.randrange(1, 3); c = rng.randrange(1, 4)
        kind = rng.choice(["SumPool2d", "AvgPool2d", "Conv2d"])
        if kind == "Conv2d":
            x = nir.Conv2d(None, np.zeros((2, c, k, k)), st, 0, 1, 1, np.zeros(2))
        else:
            x = getattr(nir, kind)(k, st, 0)
        case = {"op": "degenerate_extent", "kind": kind, "input": [c, n, n], "kernel": k, "stride": st}
        ctx.case(case); ctx.count("degenerate_extent_histories")
        try:
            g = nir.NIRGraph(nodes={"in": nir.Input(np.array([c, n, n])), "x": x, "out_a": nir.Output(None),
                                    "out_b": nir.Output(np.array([3, 1]))},
                             edges=[("in", "x"), ("x", "out_a"), ("x", "out_b")])
        except Exception:
            ctx.count("construct_rejected"); continue
        raised = None
        try:
            with quiet():
                g.infer_types()
        except Exception as e:  # noqa
            raised = type(e).__name__
        d = mirror_defects(g)
        if d:
            ctx.violate(case, "graph-level interface does not mirror the Input/Output children",
                        {"site": "NIRGraph", "after": "infer", "attr": d[0][1], "family": "degenerate-extent"},
                        observed={"raised": raised, "defects": d})
    # a graph used as a node: as the first / last element of from_list its graph-level types are what the automatic
    # Input / Output is built from - the inner graph goes on mirroring its own children afterwards
    for _ in range(ctx.n(30, 150)):
        sh = gen.shape(rng, rank=rng.randrange(1, 3), hi=5)
        mk = lambda: nir.Scale(np.ones(sh) * rng.randrange(1, 5))
        pos = rng.choice(["first", "last", "only", "middle"])
        case = {"op": "nested_in_from_list", "shape": sh, "position": pos}
        ctx.case(case); ctx.count("nested_in_from_list")
        pin, pout = rng.choice([("input", "output"), ("input", "output"), ("in", "o"), ("x", "output")])
        case["ports"] = [pin, pout]
        try:
            inner = nir.NIRGraph.from_list(mk(), mk()) if (pin, pout) == ("input", "output") and rng.random() < 0.6 else nir.NIRGraph(
                nodes={pin: nir.Input(np.array(sh)), "s": mk(), pout: nir.Output(np.array(sh))},
                edges=[(pin, "s"), ("s", pout)])
        except Exception:
            ctx.count("construct_rejected"); continue
        outer = None
        try:
            seq = {"first": [inner, mk()], "last": [mk(), inner], "only": [inner], "middle": [mk(), inner, mk()]}[pos]
            outer = nir.NIRGraph.from_list(*seq)
        except Exception as e:  # noqa
            if (pin, pout) == ("input", "output"):
                ctx.violate(case, "from_list raised on a sequence holding a graph", {"site": "from_list", "what": "raised"},
                            observed=f"{type(e).__name__}: {e}"); continue
            ctx.count("from_list_refused_nonstandard_ports")     # (whatever from_list makes of such ports, the inner graph is untouched)
        d = (mirror_defects(outer) if outer is not None else []) + [("inner",) + x for x in mirror_defects(inner)]
        if d:
            ctx.violate(case, "graph-level interface does not mirror the Input/Output children",
                        {"site": "NIRGraph", "after": "from_list", "attr": d[0][-1], "family": "nested-in-from_list"},
                        observed=[list(x) for x in d[:4]])
    # from_list over a chain whose last node leaves its shape to inference (pooling, Flatten(None)) or whose first node
    # is typed: right after from_list - before any inference - the interface mirrors the automatic ports as they are
    for _ in range(ctx.n(30, 150)):
        c, n0 = rng.randrange(1, 3), rng.randrange(5, 9)
        first = rng.choice([lambda: nir.Conv2d((n0, n0), np.zeros((2, c, 3, 3)), 1, 0, 1, 1, np.zeros(2)),
                            lambda: nir.Linear(np.zeros((3, 4))), lambda: nir.Scale(np.ones((c, n0, n0)))])()
        last = rng.choice([lambda: nir.SumPool2d(2, 2, 0), lambda: nir.AvgPool2d(2, 1, 0), lambda: nir.Flatten(None, 0, -1),
                           lambda: nir.Conv2d(None, np.zeros((2, 2, 1, 1)), 1, 0, 1, 1, np.zeros(2))])()
        case = {"op": "from_list_untyped_tail", "first": type(first).__name__, "last": type(last).__name__}
        ctx.case(case); ctx.count("from_list_untyped_tail")
        try:
            g = nir.NIRGraph.from_list(first, last)
        except Exception:
            ctx.count("construct_rejected"); continue
        d = mirror_defects(g)
        if not d and rng.random() < 0.5:
            try:
                outer = nir.NIRGraph.from_list(nir.Scale(np.ones(np.shape(first.weight)[1:] if hasattr(first, "weight") else (c, n0, n0))), g)
                d = mirror_defects(outer)
            except Exception:
                pass
        if d:
            ctx.violate(case, "graph-level interface does not mirror the Input/Output children",
                        {"site": "NIRGraph", "after": "from_list", "attr": d[0][-1], "family": "untyped-tail"},
                        observed=[list(x) for x in d[:4]])
    # an interface handed to the constructor (keywords) or carried by a dictionary (top level or on a nested graph child):
    # after construction the interface is the mirror of the children, whatever was handed over
    for _ in range(ctx.n(40, 160)):
        n_in = rng.randrange(1, 3)
        shapes = [[rng.randrange(1, 6) for _ in range(rng.randrange(1, 3))] for _ in range(n_in)]
        mk = lambda: ({f"i{j}": nir.Input(np.array(sh)) for j, sh in enumerate(shapes)},
                      {f"o{j}": nir.Output(np.array(sh)) for j, sh in enumerate(shapes)})
        stale_in = rng.choice([{"x": np.array([9, 9])}, {"i0": np.array([7])}, {}, {"i0": np.array(shapes[0]), "ghost": np.array([1])}])
        stale_out = rng.choice([{"y": np.array([9])}, {"o0": np.array([3, 3, 3])}, {}])
        how = rng.choice(["kwargs", "dict", "nested_dict", "kwargs_in_only"])
        case = {"op": "interface_handed_over", "how": how, "shapes": shapes, "stale_in": sorted(stale_in), "stale_out": sorted(stale_out)}
        ctx.case(case); ctx.count("interface_handed_over_" + how)
        ins, outs = mk()
        edges = [(f"i{j}", f"o{j}") for j in range(n_in)]
        try:
            if how == "kwargs":
                g = nir.NIRGraph(nodes={**ins, **outs}, edges=edges, input_type=stale_in, output_type=stale_out)
            elif how == "kwargs_in_only":
                g = nir.NIRGraph(nodes={**ins, **outs}, edges=edges, input_type=stale_in)
            else:
                d = nir.NIRGraph(nodes={**ins, **outs}, edges=edges).to_dict()
                d["input_type"] = stale_in; d["output_type"] = stale_out
                if how == "nested_dict":
                    outer = nir.NIRGraph(nodes={"a": nir.Input(np.array(shapes[0])), "sub": nir.NIRGraph(nodes={}, edges=[])},
                                         edges=[]).to_dict()
                    outer["nodes"]["sub"] = d
                    d = outer
                g = nir.NIRGraph.from_dict(d)
        except Exception:
            ctx.count("construct_rejected"); continue
        dfs = mirror_defects(g)
        if dfs:
            ctx.violate(case, "graph-level interface does not mirror the Input/Output children (an interface was handed over at construction)",
                        {"site": "NIRGraph", "after": "construction", "attr": dfs[0][-1], "family": "interface-handed-over"},
                        observed=[list(x) for x in dfs[:4]])
    ctx.compare("graphs", cases, obs, reqs)


def run(ctx):
    _run_main(ctx)
    # history independence: the same call on a live graph object with a history of edits / calls and on a twin rebuilt
    # from its public state (harness/history.py)
    import history
    history.run(ctx, ["ports", "infer"], {"ports": "the graph-level interface of a graph object with a history", "infer": "infer_types on a graph object with a history"})
