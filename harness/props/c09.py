"""C09 — the graph type check accepts exactly the consistent graphs."""
import itertools

import numpy as np

import gen
from canon import canon
from core import run_graph_ops

SHAPES = [None, [2], [3], [2, 3], [], [2, 3, 1]]


def shape_val(rng, s):
    if s is None:
        return None
    form = rng.choice(["i8", "i8", "i4", "tuple"]) if s else "i8"
    if form == "tuple":
        return {"t": [gen.pyint(v) for v in s]}
    dt = "<i8" if form == "i8" or any(abs(v) >= 2 ** 31 for v in s) else "<i4"
    return {"a": dt, "sh": [len(s)], "x": np.array(s, dtype=dt).tobytes().hex()}


def node(rng, i, o):
    # single-port type dictionaries; the port is *the* entry whatever it is called ('input'/'output' by convention;
    # nir.ir.graph.Identity, for one, keys its output port 'input')
    ki = "input" if rng.random() < 0.8 else rng.choice(["output", "spikes", "current", "x", "in"])
    ko = "output" if rng.random() < 0.8 else rng.choice(["input", "spikes", "v", "y", "out"])
    return {"type": "Scale", "kwargs": [["scale", gen.arr(rng, [1], "<f8")]],
            "types": [{"d": [[ki, shape_val(rng, i)]]}, {"d": [[ko, shape_val(rng, o)]]}]}


def expected(names, types, edges):
    for a, b in edges:
        out, inp = types[a][1], types[b][0]
        if out is None or inp is None or out != inp:
            return False
    return True


def _run_main(ctx):
    rng = ctx.rng
    cases, obs, reqs = [], [], []

    def one(names, types, edges, label):
        g = {"type": "NIRGraph", "nodes": [[n, node(rng, *types[n])] for n in names],
             "edges": [list(e) for e in edges], "meta": None}
        case = {"op": "graph", "graph": g, "ops": ["check"]}
        steps, graph = run_graph_ops(g, ["check"])
        ctx.case(case); ctx.count(label)
        want = expected(names, types, edges)
        got = steps[1]
        ctx.count("accept" if want else "reject")
        if want and got != {"r": True}:
            ctx.violate(case, "type check rejects a consistent graph", {"site": "_check_types", "what": "false-reject"},
                        observed=got)
        elif not want and got == {"r": True}:
            ctx.violate(case, "type check accepts a graph with a mismatched or undefined edge",
                        {"site": "_check_types", "what": "false-accept"}, observed=got)
        elif not want and got.get("err") != "ValueError":
            ctx.violate(case, "type check signals inconsistency with something other than an exception it documents",
                        {"site": "_check_types", "what": "wrong-error"}, observed=got)
        cases.append(case); obs.append({"steps": steps}); reqs.append(case)

    # exhaustive small scope: 2 nodes, <= 2 (thorough 3) edges, 4 shape options per port
    opts = SHAPES[:4]
    names = ["a", "b"]
    pairs = list(itertools.product(names, repeat=2))
    maxe = 3 if ctx.tier == "thorough" else 2
    for k in range(0, maxe + 1):
        for edges in itertools.product(pairs, repeat=k):
            for ta in itertools.product(opts, repeat=2):
                for tb in itertools.product(opts, repeat=2):
                    if ctx.tier == "quick" and k == 2 and rng.random() < 0.5:
                        continue
                    one(names, {"a": ta, "b": tb}, edges, "enum2")
    if ctx.tier == "thorough":
        ctx.exhaustive_parts.append("all multigraphs on 2 nodes with <= 3 edges x 4 shape options per port")
    # sampled: 3-5 nodes, all shape options incl. rank 0 and rank 3, cycles, parallel edges
    for _ in range(ctx.n(600)):
        n = rng.randrange(1, 6)
        names = [f"n{i}" for i in range(n)]
        if rng.random() < 0.4:
            # names that are dotted extensions / prefixes of one another, single characters, reserved words
            pool = ["a", "a.x", "a.x.y", "a.", ".a", "enc", "enc.norm", "enc.norm.1", "in", "i", "n", "input", "input.0",
                    "nodes", "edges", "type", "é", "é.é", "x y", "x"]
            names = rng.sample(pool, n)
        consistent = rng.random() < 0.5
        if consistent:
            s = rng.choice(SHAPES[1:])
            types = {x: (s, s) for x in names}
            if rng.random() < 0.5:      # one port differs but (maybe) unused
                x = rng.choice(names)
                types[x] = (rng.choice(SHAPES), s)
        else:
            types = {x: (rng.choice(SHAPES), rng.choice(SHAPES)) for x in names}
        edges = [(rng.choice(names), rng.choice(names)) for _ in range(rng.randrange(0, 7))]
        one(names, types, edges, "sampled")
    # the verdict is about the edges only: target nodes of every class (a Flatten with start_dim >= 1, pooling, conv,
    # neurons, ports) whose declared input shape differs from the source by a leading / trailing unit axis, or not at all
    import nir as _nir
    from core import quiet as _quiet
    for _ in range(ctx.n(80, 400)):
        src = [rng.randrange(2, 5) for _ in range(rng.randrange(1, 4))]
        how = rng.choice(["same", "lead1", "trail1", "same", "drop_lead", "other"])
        tgt = {"same": list(src), "lead1": [1] + src, "trail1": src + [1], "drop_lead": src[1:] or [1],
               "other": [x + 1 for x in src]}[how]
        k = rng.choice(["Flatten1", "Flatten0", "SumPool2d", "LIF", "Output", "Input", "Conv1d", "Scale"])
        try:
            if k.startswith("Flatten"):
                t = _nir.Flatten(np.array(tgt), int(k[-1]) if len(tgt) > int(k[-1]) else 0, -1)
            elif k == "SumPool2d":
                t = _nir.SumPool2d(1, 1, 0); t.input_type = {"input": np.array(tgt)}; t.output_type = {"output": np.array(tgt)}
            elif k == "LIF":
                t = _nir.LIF(*(np.ones(tgt) for _ in range(4)))
            elif k == "Output":
                t = _nir.Output(np.array(tgt))
            elif k == "Input":
                t = _nir.Input(np.array(tgt))
            elif k == "Conv1d":
                t = _nir.Conv1d(None, np.zeros((2, 1, 1)), 1, 0, 1, 1, np.zeros(2)); t.input_type = {"input": np.array(tgt)}
                t.output_type = {"output": np.array(tgt)}
            else:
                t = _nir.Scale(np.ones(tgt))
            a = _nir.Scale(np.ones(src))
            graph = _nir.NIRGraph(nodes={"a": a, "t": t}, edges=[("a", "t")])
        except Exception:
            ctx.count("construct_rejected"); continue
        case = {"op": "edge_into_class", "target": k, "source_shape": src, "target_input_shape": tgt}
        ctx.case(case); ctx.count("edge_into_" + k)
        want = (how == "same")
        try:
            with _quiet():
                got = graph._check_types() is True
            err = None
        except Exception as e:  # noqa
            got, err = False, type(e).__name__
        if want != got or (not want and err != "ValueError"):
            ctx.violate(case, "type check " + ("rejects a consistent graph" if want else "accepts a graph with a mismatched edge"),
                        {"site": "_check_types", "what": "false-reject" if want else "false-accept", "target": k},
                        observed={"accepted": got, "error": err})
    # an edge one of whose ends is a node with several ports addressed as a whole (a nested graph with two Inputs / two
    # Outputs): there is no single shape to compare, so the check cannot succeed - it raises
    for _ in range(ctx.n(20, 100)):
        s0 = [rng.randrange(2, 5)]
        two_in = rng.random() < 0.5
        try:
            if two_in:
                inner = _nir.NIRGraph(nodes={"i1": _nir.Input(np.array(s0)), "i2": _nir.Input(np.array(s0)), "s": _nir.Scale(np.ones(s0)),
                                             "o": _nir.Output(np.array(s0))}, edges=[("i1", "s"), ("i2", "s"), ("s", "o")])
                g = _nir.NIRGraph(nodes={"a": _nir.Scale(np.ones(s0)), "sub": inner}, edges=[("a", "sub")])
            else:
                inner = _nir.NIRGraph(nodes={"i": _nir.Input(np.array(s0)), "s": _nir.Scale(np.ones(s0)),
                                             "o1": _nir.Output(np.array(s0)), "o2": _nir.Output(np.array(s0))},
                                      edges=[("i", "s"), ("s", "o1"), ("s", "o2")])
                g = _nir.NIRGraph(nodes={"sub": inner, "b": _nir.Scale(np.ones(s0))}, edges=[("sub", "b")])
        except Exception:
            ctx.count("construct_rejected"); continue
        case = {"op": "multi_port_endpoint", "two_inputs": two_in, "shape": s0}
        ctx.case(case); ctx.count("multi_port_endpoint")
        try:
            with _quiet():
                got = g._check_types() is True
        except Exception:
            got = False
        if got:
            ctx.violate(case, "type check accepts an edge onto a node with several ports addressed as a whole",
                        {"site": "_check_types", "what": "false-accept", "target": "multi-port"}, observed={"accepted": True})
    # a graph whose *port* nodes were re-typed after construction (consistently with their neighbours): the verdict is
    # about the edges as they are now, not about the graph-level snapshot taken at construction
    for _ in range(ctx.n(40, 200)):
        s1 = [rng.randrange(2, 5) for _ in range(rng.randrange(1, 3))]; s2 = [x + 1 for x in s1]
        try:
            g = _nir.NIRGraph(nodes={"in": _nir.Input(np.array(s1)), "w": _nir.Scale(np.ones(s1)), "out": _nir.Output(np.array(s1))},
                              edges=[("in", "w"), ("w", "out")])
            g.nodes["in"].input_type = {"input": np.array(s2)}; g.nodes["in"].output_type = {"output": np.array(s2)}
            g.nodes["w"] = _nir.Scale(np.ones(s2))
            g.nodes["out"].input_type = {"input": np.array(s2)}; g.nodes["out"].output_type = {"output": np.array(s2)}
            if rng.random() < 0.4:
                g.nodes["out2"] = _nir.Output(np.array(s2)); g.edges.append(("w", "out2"))
        except Exception:
            continue
        case = {"op": "ports_retyped", "from": s1, "to": s2}
        ctx.case(case); ctx.count("ports_retyped_consistently")
        try:
            with _quiet():
                got = g._check_types() is True
            err = None
        except Exception as e:  # noqa
            got, err = False, type(e).__name__
        if not got:
            ctx.violate(case, "type check rejects a consistent graph (ports re-typed after construction)",
                        {"site": "_check_types", "what": "false-reject", "target": "ports"}, observed={"accepted": got, "error": err})
    # near misses at sizes where a tolerant comparison starts to blur: large axis lengths that differ by one
    for _ in range(ctx.n(60, 300)):
        big = rng.choice([10 ** 5, 10 ** 5 + 1, 262144, 10 ** 6, 2 ** 31, 10 ** 9 + 7, 2 ** 40])
        a = [big] if rng.random() < 0.5 else [rng.randrange(1, 4), big]
        b = list(a)
        how = rng.choice(["same", "plus1", "minus1", "plus1", "minus1"])
        b[-1] = big + {"same": 0, "plus1": 1, "minus1": -1}[how]
        names = ["a", "b"]
        types = {"a": (a, a), "b": (b, b)}
        one(names, types, [("a", "b")], "near_miss_large_axis")
    # repeated checks of one graph object whose node types change in between: every verdict is about the graph as
    # it is at the time of the call
    import nir
    from core import impl_construct, quiet
    for _ in range(ctx.n(120)):
        n = rng.randrange(2, 5)
        names = [f"n{i}" for i in range(n)]
        s0 = rng.choice(SHAPES[1:])
        types = {x: (s0, s0) for x in names}
        edges = [(names[i], names[i + 1]) for i in range(n - 1)] + [(rng.choice(names), rng.choice(names)) for _ in range(rng.randrange(0, 3))]
        g = {"type": "NIRGraph", "nodes": [[x, node(rng, *types[x])] for x in names], "edges": [list(e) for e in edges], "meta": None}
        graph = impl_construct(g)
        history = []
        case = {"op": "recheck", "graph": g, "history": history}
        ctx.case(case); ctx.count("recheck")
        bad = None
        for step in range(rng.randrange(2, 5)):
            x = rng.choice(names)
            how = rng.choice(["break_in", "break_out", "undefine", "replace_node", "restore", "none"])
            node_obj = graph.nodes[x]
            if how == "break_in":
                s1 = rng.choice([s for s in SHAPES[1:] if s != types[x][0]])
                node_obj.input_type = {"input": np.array(s1)}; types[x] = (s1, types[x][1])
            elif how == "break_out":
                s1 = rng.choice([s for s in SHAPES[1:] if s != types[x][1]])
                node_obj.output_type = {"output": np.array(s1)}; types[x] = (types[x][0], s1)
            elif how == "undefine":
                node_obj.input_type = {"input": None}; types[x] = (None, types[x][1])
            elif how == "replace_node":
                s1 = rng.choice(SHAPES[1:])
                graph.nodes[x] = nir.Threshold(np.ones(s1) if s1 else np.array(1.0)); types[x] = (s1, s1)
            elif how == "restore":
                node_obj.input_type = {"input": np.array(s0)}; node_obj.output_type = {"output": np.array(s0)}; types[x] = (s0, s0)
            history.append([how, x])
            want = expected(names, types, edges)
            try:
                with quiet():
                    got = graph._check_types() is True
                err = None
            except Exception as e:  # noqa
                got, err = False, type(e).__name__
            if want != got or (not want and err != "ValueError"):
                bad = {"step": step, "want_accept": want, "accepted": got, "error": err}
                break
        if bad:
            ctx.violate(case, "a repeated type check of one graph object does not judge the graph as it now is",
                        {"site": "_check_types", "what": "recheck", "accepted": bad["accepted"]}, observed=bad)
    # two nodes holding one and the same type-dictionary *object* (legal: `Output(other.output_type)`, `from_list`): an edge
    # between them is judged by what the dictionary holds at the time of the call - undefined is undefined
    for _ in range(ctx.n(40, 200)):
        s0 = rng.choice(SHAPES[1:])
        a = nir.Threshold(np.ones(s0) if s0 else np.array(1.0)); b = nir.Threshold(np.ones(s0) if s0 else np.array(1.0))
        key = rng.choice(["output", "port", "input"])
        shared = {key: (np.array(s0) if rng.random() < 0.6 else None)}
        a.output_type = shared; b.input_type = shared
        graph = nir.NIRGraph(nodes={"a": a, "b": b}, edges=[("a", "b")])
        history = [["shared", key, shared[key] is not None]]
        case = {"op": "shared_type_dict", "shape": s0, "history": history}
        ctx.case(case); ctx.count("shared_type_dict")
        bad = None
        for step in range(3):
            want = shared[key] is not None
            try:
                with quiet():
                    got = graph._check_types() is True
                err = None
            except Exception as e:  # noqa
                got, err = False, type(e).__name__
            if want != got or (not want and err != "ValueError"):
                bad = {"step": step, "want_accept": want, "accepted": got, "error": err}; break
            # flip the shared entry in place
            shared[key] = None if shared[key] is not None else np.array(s0)
            history.append(["set", shared[key] is not None])
        if bad:
            ctx.violate(case, "the type check misjudges an edge whose two ends hold one type-dictionary object",
                        {"site": "_check_types", "what": "shared-type-dict", "accepted": bad["accepted"]}, observed=bad)
    # ... and whose *edge list* changes in between: same number of edges re-assigned as a new list, one entry replaced in
    # place, an edge appended or removed (two shape classes, so that rewiring across them is what breaks consistency)
    for _ in range(ctx.n(120)):
        n = rng.randrange(3, 6)
        names = [f"n{i}" for i in range(n)]
        sa, sb = rng.sample(SHAPES[1:], 2)
        cls = {x: (sa if i % 2 == 0 else sb) for i, x in enumerate(names)}
        types = {x: (cls[x], cls[x]) for x in names}
        same = lambda: rng.choice([(a, b) for a in names for b in names if cls[a] == cls[b]])
        cross = lambda: rng.choice([(a, b) for a in names for b in names if cls[a] != cls[b]])
        edges = [same() for _ in range(rng.randrange(1, 5))]
        g = {"type": "NIRGraph", "nodes": [[x, node(rng, *types[x])] for x in names], "edges": [list(e) for e in edges], "meta": None}
        graph = impl_construct(g)
        history = []
        case = {"op": "recheck_rewired", "graph": g, "history": history}
        ctx.case(case); ctx.count("recheck_rewired")
        bad = None
        for step in range(rng.randrange(2, 6)):
            how = rng.choice(["none", "assign_same_length", "item", "item", "append", "remove", "assign_same_length"])
            new = cross() if rng.random() < 0.5 else same()
            if how == "assign_same_length" and edges:
                edges = list(edges); edges[rng.randrange(len(edges))] = new
                graph.edges = [tuple(e) for e in edges]
            elif how == "item" and edges:
                j = rng.randrange(len(edges)); edges = list(edges); edges[j] = new
                graph.edges[j] = tuple(new)
            elif how == "append":
                edges = list(edges) + [new]; graph.edges.append(tuple(new))
            elif how == "remove" and edges:
                j = rng.randrange(len(edges)); edges = list(edges); del edges[j]; del graph.edges[j]
            history.append([how, list(new)])
            want = expected(names, types, edges)
            try:
                with quiet():
                    got = graph._check_types() is True
                err = None
            except Exception as e:  # noqa
                got, err = False, type(e).__name__
            if want != got or (not want and err != "ValueError"):
                bad = {"step": step, "want_accept": want, "accepted": got, "error": err, "edges_now": [list(e) for e in edges]}
                break
        if bad:
            ctx.violate(case, "a repeated type check of one graph object does not judge the edge list as it now is",
                        {"site": "_check_types", "what": "recheck-rewired", "accepted": bad["accepted"]}, observed=bad)
    ctx.compare("graphs", cases, obs, reqs)


def run(ctx):
    _run_main(ctx)
    # history independence: the same call on a live graph object with a history of edits / calls and on a twin rebuilt
    # from its public state (harness/history.py)
    import history
    history.run(ctx, ["check"], {"check": "the type check of a graph object with a history"})
