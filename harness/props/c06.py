"""C06 — convolution and pooling output shapes are arithmetically exact."""
import itertools
import warnings

import numpy as np

import gen
from canon import build, canon, err_name
from core import observe_construct, quiet


def slide(length, span, stride):
    """The property's own definition: count window positions with a literal loop."""
    off, count = 0, 0
    while off + span <= length:
        count += 1
        off += stride
    return count


def true_axis(n, p, d, k, s):
    return slide(n + 2 * p, d * (k - 1) + 1, s)


def correlate_shape(ns, ps, ds, ks, ss):
    """Thorough oracle: really compute a zero-padded strided dilated correlation."""
    x = np.pad(np.ones(ns), [(p, p) for p in ps])
    idx = []
    for n, p, d, k, s in zip(ns, ps, ds, ks, ss):
        span = d * (k - 1) + 1
        idx.append(range(0, n + 2 * p - span + 1, s))
    out = np.zeros([len(r) for r in idx])
    for pos in itertools.product(*[range(len(r)) for r in idx]):
        acc = 0.0
        for tap in itertools.product(*[range(k) for k in ks]):
            acc += x[tuple(r[i] + t * d for r, i, t, d in zip(idx, pos, tap, ds))]
        out[pos] = acc
    return list(out.shape)


def impl_conv_out(args):
    """the result of one call -- and of a second call with the very same argument objects, whose contents the
    function must have left alone (hyper-parameter arrays are routinely shared between layers)"""
    from nir.ir.utils import calculate_conv_output
    try:
        with warnings.catch_warnings():
            warnings.simplefilter("ignore")
            built = [build(a) for a in args]
            before = [canon(b) for b in built]
            r = calculate_conv_output(*built)
            out = {"r": canon(r)}
            if [canon(b) for b in built] != before:
                out["mutated_args"] = [i for i, b in enumerate(built) if canon(b) != before[i]]
            else:
                r2 = calculate_conv_output(*built)
                if canon(r2) != out["r"]:
                    out["second_call"] = canon(r2)
        return out
    except Exception as e:  # noqa
        return {"err": err_name(e)}


def ints_of(canon_arr):
    a = build(canon_arr)
    return [int(x) for x in np.asarray(a).ravel()]


def run(ctx):
    rng = ctx.rng
    # -- 1. per-axis enumeration (exhaustive over the small scope) ----------------------
    cases, obs, reqs = [], [], []
    N = 14 if ctx.tier == "thorough" else 10
    for n in range(1, N + 1):
        for k in range(1, 6):
            for s in range(1, 5):
                for p in range(0, 4):
                    for d in range(1, 4):
                        if d * (k - 1) + 1 > n + 2 * p:
                            continue
                        args = [gen.pyint(v) for v in (n, p, d, k, s)]
                        o = impl_conv_out(args)
                        want = true_axis(n, p, d, k, s)
                        case = {"op": "conv_out", "args": args}
                        ctx.case(case)
                        ctx.count("axis_enum")
                        if "err" in o or ints_of(o["r"]) != [want]:
                            ctx.violate(case, "calculate_conv_output differs from the sliding-window count",
                                        {"site": "calculate_conv_output", "form": "int"},
                                        observed=o, required=[want])
                        cases.append(case); obs.append(o); reqs.append(case)
    ctx.exhaustive_parts.append(f"per-axis n<={N},k<=5,s<=4,p<=3,d<=3 (all fitting combinations)")
    ctx.compare("shapes", cases, obs, reqs)

    # -- 2. container forms are interchangeable (2-d) -----------------------------------
    cases, obs, reqs = [], [], []
    for _ in range(ctx.n(150)):
        ns, ps, ds, ks, ss, mode = gen.conv2d_params(rng)
        if mode != "explicit":
            ps_eff = [0, 0] if mode == "valid" else None
        else:
            ps_eff = ps
        want = [true_axis(n, p, d, k, s) for n, p, d, k, s in zip(ns, ps_eff, ds, ks, ss)] \
            if ps_eff is not None else list(ns)
        pad = {"s": mode} if mode != "explicit" else gen.hp(rng, ps)
        args = [gen.hp(rng, ns, allow_scalar=False), pad, gen.hp(rng, ds), gen.hp(rng, ks), gen.hp(rng, ss)]
        o = impl_conv_out(args)
        case = {"op": "conv_out", "args": args}
        ctx.case(case)
        ctx.count("forms_" + mode)
        if "err" in o or ints_of(o["r"]) != want:
            ctx.violate(case, "calculate_conv_output differs from the sliding-window count for some container form",
                        {"site": "calculate_conv_output", "form": "mixed", "mode": mode},
                        observed=o, required=want)
        elif "mutated_args" in o or "second_call" in o:
            ctx.violate(case, "calculate_conv_output changed its arguments (a second layer sharing the same "
                        "hyper-parameter array gets a different shape)",
                        {"site": "calculate_conv_output", "form": "shared-args", "mode": mode}, observed=o, required=want)
            o = {"r": o["r"]}
        cases.append(case); obs.append(o); reqs.append(case)
    # consecutive calls whose arguments *flatten* to the same numbers but group them differently (a scalar here, a
    # pair there): results must not depend on what was computed earlier in the process
    for _ in range(ctx.n(60)):
        for _try in range(50):
            ns = [rng.randrange(6, 30), rng.randrange(6, 30)]
            a, b, c, d2, st = rng.randrange(0, 3), rng.randrange(1, 3), rng.randrange(1, 4), rng.randrange(1, 4), rng.randrange(1, 4)
            # call A: padding=a (both axes), dilation=b, kernel=(c, d2);  call B: padding=(a, b), dilation=c, kernel=d2
            A = dict(p=[a, a], d=[b, b], k=[c, d2], s=[st, st])
            B = dict(p=[a, b], d=[c, c], k=[d2, d2], s=[st, st])
            ok = all(dd * (kk - 1) + 1 <= n + 2 * pp for X in (A, B) for n, pp, dd, kk in zip(ns, X["p"], X["d"], X["k"]))
            if ok and (A != B):
                break
        else:
            continue
        argsA = [gen.hp(rng, ns, allow_scalar=False), gen.pyint(a), gen.pyint(b), {"t": [gen.pyint(c), gen.pyint(d2)]}, gen.pyint(st)]
        argsB = [gen.hp(rng, ns, allow_scalar=False), {"t": [gen.pyint(a), gen.pyint(b)]}, gen.pyint(c), gen.pyint(d2), gen.pyint(st)]
        for args, X in rng.sample([(argsA, A), (argsB, B)], 2):
            want = [true_axis(n, p_, d_, k_, s_) for n, p_, d_, k_, s_ in zip(ns, X["p"], X["d"], X["k"], X["s"])]
            o = impl_conv_out(args)
            case = {"op": "conv_out", "args": args, "after_call_with": (argsB if args is argsA else argsA)}
            ctx.case(case); ctx.count("forms_regrouped")
            if "err" in o or ints_of(o["r"]) != want:
                ctx.violate(case, "calculate_conv_output depends on an earlier call whose arguments flatten to the same numbers",
                            {"site": "calculate_conv_output", "form": "regrouped"}, observed=o, required=want)
            c2 = {"op": "conv_out", "args": args}
            cases.append(c2); obs.append({"r": o["r"]} if "r" in o else o); reqs.append(c2)
    # large sizes (below 2^40; float64 floor division exact)
    for _ in range(ctx.n(60)):
        n = rng.randrange(1, 2 ** 40); k = rng.randrange(1, 50); d = rng.randrange(1, 50)
        s = rng.randrange(1, 1000); p = rng.randrange(0, 1000)
        if d * (k - 1) + 1 > n + 2 * p:
            continue
        args = [gen.pyint(v) for v in (n, p, d, k, s)]
        o = impl_conv_out(args)
        want = (n + 2 * p - d * (k - 1) - 1) // s + 1
        case = {"op": "conv_out", "args": args}
        ctx.case(case); ctx.count("axis_large")
        if "err" in o or ints_of(o["r"]) != [want]:
            ctx.violate(case, "calculate_conv_output wrong for a large size", {"site": "calculate_conv_output", "form": "large"},
                        observed=o, required=[want])
        cases.append(case); obs.append(o); reqs.append(case)
    ctx.compare("shapes", cases, obs, reqs)

    # -- 3. Conv1d / Conv2d typed at construction ---------------------------------------
    cases, obs, reqs = [], [], []
    for i in range(ctx.n(300)):
        if i % 10 == 9:
            # wide kernels with the dilation held in a narrow integer array: d*(k-1) exceeds that dtype's range, the
            # arithmetic must not be carried out in it
            two_d = rng.random() < 0.6
            na = 2 if two_d else 1
            ks = [rng.randrange(34, 110) for _ in range(na)]
            ds = [rng.choice([2, 3]) for _ in range(na)]
            ss = [rng.randrange(1, 4) for _ in range(na)]
            ns = [d * (k - 1) + 1 + rng.randrange(0, 40) for d, k in zip(ds, ks)]
            ddt = rng.choice(["|i1", "|u1", "|i1"])
            dil = {"a": ddt, "sh": [na], "x": np.array(ds, dtype=np.dtype(ddt)).tobytes().hex()} if two_d else gen.npint(ds[0], ddt)
            cin, cout = 1, rng.randrange(1, 3)
            mode = "explicit"
            rec = {"type": "Conv2d" if two_d else "Conv1d", "kwargs": [
                ["input_shape", {"t": [gen.pyint(x) for x in ns]} if two_d else gen.pyint(ns[0])],
                ["weight", gen.arr(rng, [cout, cin] + ks, "<f2")],
                ["stride", {"t": [gen.pyint(x) for x in ss]} if two_d else gen.pyint(ss[0])], ["padding", gen.pyint(0)],
                ["dilation", dil], ["groups", gen.pyint(1)], ["bias", gen.arr(rng, [cout], "<f2")]]}
            want_out = [cout] + [true_axis(n, 0, d, k, s_) for n, d, k, s_ in zip(ns, ds, ks, ss)]
            want_in = [cin] + list(ns)
            ctx.count("wide_kernel_narrow_dilation")
        elif i % 3 == 0:
            n, p, d, k, s = gen.conv_axis_params(rng)
            mode = rng.choice(["explicit"] * 4 + ["valid", "same"])
            if mode == "valid" and d * (k - 1) + 1 > n:
                mode = "explicit"
            if mode == "same":
                s = 1
            cin, cout = rng.randrange(1, 4), rng.randrange(1, 4)
            pad = {"s": mode} if mode != "explicit" else rng.choice([gen.pyint(p), gen.npint(p, "<i4")])
            rec = {"type": "Conv1d", "kwargs": [
                ["input_shape", rng.choice([gen.pyint(n), gen.npint(n), gen.npint(n, "<i4")])],
                ["weight", gen.arr(rng, [cout, cin, k])],
                ["stride", rng.choice([gen.pyint(s), gen.npint(s, "<i2")])], ["padding", pad],
                ["dilation", rng.choice([gen.pyint(d), gen.npint(d)])], ["groups", gen.pyint(1)],
                ["bias", gen.arr(rng, [cout])]]}
            pe = 0 if mode == "valid" else p
            want_out = [cout, n if mode == "same" else true_axis(n, pe, d, k, s)]
            want_in = [cin, n]
        else:
            ns, ps, ds, ks, ss, mode = gen.conv2d_params(rng)
            cin, cout = rng.randrange(1, 4), rng.randrange(1, 4)
            pad = {"s": mode} if mode != "explicit" else gen.hp(rng, ps)
            rec = {"type": "Conv2d", "kwargs": [
                ["input_shape", gen.hp(rng, ns, allow_scalar=False)],
                ["weight", gen.arr(rng, [cout, cin] + ks)],
                ["stride", gen.hp(rng, ss)], ["padding", pad], ["dilation", gen.hp(rng, ds)],
                ["groups", gen.pyint(1)], ["bias", gen.arr(rng, [cout])]]}
            pe = [0, 0] if mode == "valid" else ps
            want_out = [cout] + (list(ns) if mode == "same" else
                                 [true_axis(n, p, d, k, s) for n, p, d, k, s in zip(ns, pe, ds, ks, ss)])
            want_in = [cin] + list(ns)
            if ctx.tier == "thorough" and mode != "same" and i % 9 == 1 and max(ns) <= 10:
                assert correlate_shape(ns, pe, ds, ks, ss) == want_out[1:]
                ctx.count("correlation_oracle")
        o, node = observe_construct(rec)
        case = {"op": "construct", **rec}
        ctx.case(case); ctx.count(rec["type"] + "_" + mode)
        sq = "square" if rec["type"] == "Conv1d" or len(set(rec["kwargs"][1][1]["sh"][2:])) == 1 else "nonsquare"
        if node is None:
            ctx.violate(case, "valid convolution rejected", {"site": rec["type"], "what": "rejected"}, observed=o)
        else:
            got_out = _tolist(node.output_type.get("output"))
            got_in = _tolist(node.input_type.get("input"))
            if got_out != want_out or got_in != want_in:
                ctx.violate(case, f"{rec['type']} declared types differ from the sliding-window shape",
                            {"site": rec["type"], "kernel": sq, "mode": mode},
                            observed={"in": got_in, "out": got_out}, required={"in": want_in, "out": want_out})
        cases.append(case); obs.append(o); reqs.append(case)
    ctx.compare("nodes", cases, obs, reqs)
    # inference-typed conv / pooling: see props/graphs (C06.inferred) -----------------------
    from props import graphs
    graphs.conv_pool_inferred(ctx, true_axis)


def _tolist(v):
    if v is None:
        return None
    return [int(x) for x in np.asarray(v).ravel()]
