"""C17 — observing a graph never changes it."""
import io
import os
import tempfile

import numpy as np

import compare
import gen
from canon import build, err_name
from core import impl_construct


class Unwritable:
    """a metadata value neither asdict-hostile nor storable: write must fail, purely"""
    def __repr__(self):
        return "<Unwritable>"


def inject_unwritable(rng, graph, how):
    import nir
    nodes = [n for n in graph.nodes.values()]
    target = graph if (not nodes or rng.random() < 0.4) else rng.choice(nodes)
    if how == "object":
        target.metadata = dict(target.metadata, bad=Unwritable())
    elif how == "none":
        target.metadata = dict(target.metadata, bad=None)
    elif how == "nested-object":
        target.metadata = dict(target.metadata, sub={"ok": 1, "bad": Unwritable()})
    elif how == "uncopyable":
        import threading
        target.metadata = dict(target.metadata, lock=threading.Lock())
    elif how == "ragged":
        target.metadata = dict(target.metadata, bad=[[1, 2], [3]])


def _run_main(ctx):
    import nir
    rng = ctx.rng
    tmpdir = tempfile.mkdtemp(prefix="nirverif-c17-", dir="/var/tmp")
    try:
        for i in range(ctx.n(200)):
            g = gen.random_graph(rng, meta_p=0.4, maxdepth=2) if i % 3 else gen.consistent_graph(rng, max_nodes=6)[0]
            forced = None
            late_ports = False
            if i % 10 == 3:
                # a graph built without ports that gets its Input / Output afterwards, through graph.nodes: the accessors
                # then have something to report that the graph-level attributes do not yet reflect
                sh = gen.shape(rng, rank=rng.randrange(1, 3))
                g = {"type": "NIRGraph", "meta": None, "edges": [["in", "s"], ["s", "out"]],
                     "nodes": [["s", gen.node_recipe(rng, "Scale", sh=sh, dtype="<f8", meta_p=0.0)]]}
                late_ports = sh
                forced = [rng.choice(["inputs", "outputs"]) for _ in range(3)] + ["to_dict"]
            if i % 10 == 7:
                # a nested graph wired through dotted port names (the form tests/test_ir.py uses), types consistent
                sh = gen.shape(rng, rank=rng.randrange(1, 3))
                io = lambda kind, key: {"type": kind, "kwargs": [[key, gen.shape_arg(rng, sh, key.split("_")[0])]]}
                inner = {"type": "NIRGraph", "meta": None, "edges": [["in1", "s"], ["s", "out1"]], "nodes": [
                    ["in1", io("Input", "input_type")], ["s", gen.node_recipe(rng, "Scale", sh=sh, dtype="<f8", meta_p=0.0)],
                    ["out1", io("Output", "output_type")]]}
                g = {"type": "NIRGraph", "meta": None, "nodes": [["in", io("Input", "input_type")], ["inner", inner],
                                                                 ["out", io("Output", "output_type")]],
                     "edges": [["in", "inner.in1"], ["inner.out1", "out"]]}
                forced = ["check", rng.choice(["to_dict", "inputs", "check"]), "check"]
            case = {"op": "observers", "graph": g}
            try:
                graph = impl_construct(g)
                if late_ports:
                    graph.nodes["in"] = nir.Input(np.array(late_ports))
                    graph.nodes["out"] = nir.Output(np.array(late_ports))
                    case["ports_added_after_construction"] = True
            except Exception:
                ctx.count("construct_rejected"); continue
            if i % 3 == 0 and rng.random() < 0.6:
                # observe an *inferred* graph: types that only inference provides (pooling, erased Conv/Flatten/Output)
                try:
                    from core import quiet
                    with quiet():
                        graph.infer_types()
                    case["inferred_first"] = True
                    ctx.count("inferred_first")
                except Exception:
                    case["inferred_first"] = "raised"
            if i % 5 == 1:
                # metadata held in a mapping subclass (what json / collections hand out): observers may read it, not swap it
                import collections
                targets = [graph] + [n for n in graph.nodes.values()]
                for t in rng.sample(targets, min(len(targets), rng.randrange(1, 3))):
                    cur = dict(t.metadata or {}) or {"note": "x", "k": 3}
                    t.metadata = rng.choice([lambda d: collections.OrderedDict(d),
                                             lambda d: collections.defaultdict(list, d),
                                             lambda d: type("Meta", (dict,), {})(d)])(cur)
                case["metadata_mapping_subclass"] = True
                ctx.count("metadata_mapping_subclass")
            failing = None
            if i % 4 == 0:
                failing = rng.choice(["object", "none", "nested-object", "uncopyable", "ragged"])
                inject_unwritable(rng, graph, failing)
                case["inject"] = failing
            n_obs = rng.randrange(1, 7)
            observers = forced or [rng.choice(["to_dict", "write_bytesio", "write_path", "check", "inputs", "outputs"]) for _ in range(n_obs)]
            case["observers"] = observers
            ctx.case(case); ctx.count("graphs")
            snap = compare.snapshot(graph)
            for ob in observers:
                outcome = "ok"
                try:
                    if ob == "to_dict":
                        graph.to_dict()
                    elif ob == "write_bytesio":
                        nir.write(io.BytesIO(), graph)
                    elif ob == "write_path":
                        nir.write(os.path.join(tmpdir, "o.nir"), graph)
                    elif ob == "check":
                        graph._check_types()
                    elif ob == "inputs":
                        graph.inputs
                    else:
                        graph.outputs
                except Exception as e:  # noqa
                    outcome = "raised"
                ctx.count(f"obs_{ob}_{outcome}")
                after = compare.snapshot(graph)
                if after != snap:
                    ctx.violate(case, f"observer {ob} changed the graph" + (" although it failed" if outcome == "raised" else ""),
                                {"site": ob, "what": "mutated", "outcome": outcome, "inject": failing})
                    break
            # reads are independent objects
            if failing is None and i % 2 == 0:
                p = os.path.join(tmpdir, "r.nir")
                try:
                    nir.write(p, graph)
                except Exception:
                    ctx.count("write_rejected"); continue
                a, b = nir.read(p), nir.read(p)
                ctx.count("read_pairs")
                A, B = compare.mutable_ids(a), compare.mutable_ids(b)
                if set(A) & set(B) or compare.shares_memory(A, B):
                    ctx.violate(case, "two reads of one file share mutable state", {"site": "read", "what": "alias"})
                    continue
                sb = compare.snapshot(b)
                h0 = open(p, "rb").read()
                _scribble_graph(a)
                if compare.snapshot(b) != sb or open(p, "rb").read() != h0:
                    ctx.violate(case, "mutating one read result affected another or the file", {"site": "read", "what": "alias-mutation"})
                    continue
                # reads of *different* files are independent too
                g2 = gen.random_graph(rng, meta_p=0.5, maxdepth=1)
                try:
                    o2 = impl_construct(g2)
                    p2 = os.path.join(tmpdir, "r2.nir")
                    nir.write(p2, o2)
                    c = nir.read(p); d = nir.read(p2)
                    C, D = compare.mutable_ids(c), compare.mutable_ids(d)
                    if set(C) & set(D):
                        ctx.violate({**case, "second": g2}, "reads of two files share mutable state", {"site": "read", "what": "alias-2files"})
                    else:
                        sd = compare.snapshot(d)
                        _scribble_graph(c)
                        if compare.snapshot(d) != sd:
                            ctx.violate({**case, "second": g2}, "mutating a graph read from one file changed a graph read from another",
                                        {"site": "read", "what": "alias-2files"})
                        diff = compare.graph_diff(o2, d)
                        if diff:
                            ctx.violate({**case, "second": g2}, "a second read returned residue of an earlier read",
                                        {"site": "read", "what": "residue"}, observed=diff[:3])
                except Exception:
                    ctx.count("second_rejected")
        # reads of files holding arrays of a megabyte and more (sizes at which a reader may map instead of copy)
        for j in range(ctx.n(3, 8)):
            rows, cols = rng.choice([(600, 300), (1100, 130), (257, 1031)])
            seed = rng.randrange(2 ** 31)
            w = np.random.default_rng(seed).standard_normal((rows, cols))
            graph = nir.NIRGraph(nodes={"in": nir.Input(np.array([cols])), "fc": nir.Affine(weight=w, bias=np.zeros(rows)),
                                        "out": nir.Output(np.array([rows]))}, edges=[("in", "fc"), ("fc", "out")])
            case = {"op": "large_read_pair", "weight_shape": [rows, cols], "seed": seed}
            ctx.case(case); ctx.count("large_read_pairs")
            p = os.path.join(tmpdir, "big.nir")
            target = p if j % 2 else __import__("pathlib").Path(p)
            nir.write(target, graph)
            a, b = nir.read(target), nir.read(target)
            A, B = compare.mutable_ids(a), compare.mutable_ids(b)
            h0 = open(p, "rb").read()
            sb = compare.snapshot(b)
            shared = bool(set(A) & set(B)) or bool(compare.shares_memory(A, B))
            try:
                a.nodes["fc"].weight[...] = 1.0
                a.nodes["fc"].bias[...] = 2.0
            except Exception as e:  # noqa
                ctx.violate(case, "a graph returned by read cannot be modified in place", {"site": "read", "what": "read-only"},
                            observed=f"{type(e).__name__}: {e}")
                continue
            del a
            if shared or compare.snapshot(b) != sb or open(p, "rb").read() != h0:
                ctx.violate(case, "graphs returned by separate reads of a file with large arrays are not independent "
                            "(of each other or of the file)", {"site": "read", "what": "alias-large"})
    finally:
        import shutil
        shutil.rmtree(tmpdir, ignore_errors=True)


def _scribble_graph(g):
    import nir
    g.metadata["__scribble__"] = 1
    for k, v in list(g.metadata.items()):
        if isinstance(v, np.ndarray) and v.size and v.flags.writeable and v.dtype.kind in "fiu":
            v.flat[0] += 1
    for n in g.nodes.values():
        if isinstance(n, nir.NIRGraph):
            _scribble_graph(n)
            continue
        import dataclasses
        for f in dataclasses.fields(n):
            v = getattr(n, f.name)
            if isinstance(v, np.ndarray) and v.size and v.flags.writeable and v.dtype.kind in "fiu":
                with np.errstate(all="ignore"):
                    v.flat[0] += 1
            elif isinstance(v, dict):
                v["__scribble__"] = 1
    g.edges.append(("scribble", "scribble"))


def run(ctx):
    _run_main(ctx)
    # history independence: the same call on a live graph object with a history of edits / calls and on a twin rebuilt
    # from its public state (harness/history.py)
    import history
    history.run(ctx, ["to_dict", "file_rt", "path_rt", "check", "ports"], {})
