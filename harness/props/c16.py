"""C16 — metadata is carried faithfully and is semantically inert."""
import copy
import io
import os
import tempfile

import numpy as np

import compare
import gen
import h5raw
from canon import build, canon, err_name
from core import impl_construct, jdiff, quiet, run_graph_ops


def strip_meta(g):
    g = copy.deepcopy(g)
    if g["type"] == "NIRGraph":
        g["meta"] = None
        g.pop("share", None)      # metadata is re-assigned per name below, so the names must be separate objects
        g["nodes"] = [[n, strip_meta(r)] for n, r in g["nodes"]]
    else:
        g["kwargs"] = [kv for kv in g["kwargs"] if kv[0] != "metadata"]
    return g


def add_meta(rng, g, p=0.7):
    g = copy.deepcopy(g)
    if g["type"] == "NIRGraph":
        g["meta"] = gen.metadata(rng, maxdepth=4) if rng.random() < p else None
        g["nodes"] = [[n, add_meta(rng, r, p)] for n, r in g["nodes"]]
    else:
        g["kwargs"] = [kv for kv in g["kwargs"] if kv[0] != "metadata"]
        if rng.random() < p:
            g["kwargs"].append(["metadata", gen.metadata(rng, maxdepth=4)])
    return g


def prune_meta(tree):
    """raw HDF5 tree outside */metadata"""
    if "g" in tree:
        return {"g": [[k, prune_meta(v)] for k, v in tree["g"] if k != "metadata"]}
    return tree


def meta_of(graph, path=""):
    import nir
    out = {path: graph.metadata}
    for k, n in graph.nodes.items():
        if isinstance(n, nir.NIRGraph):
            out.update(meta_of(n, f"{path}/{k}"))
        else:
            out[f"{path}/{k}"] = getattr(n, "metadata", {})
    return out


def depth_of(v):
    return 1 + max([depth_of(x) for x in v.values()] + [0]) if isinstance(v, dict) else 0


def _run_main(ctx):
    import nir
    rng = ctx.rng
    cases, obs, reqs = [], [], []
    tmpdir = tempfile.mkdtemp(prefix="nirverif-c16-", dir="/var/tmp")
    try:
        for i in range(ctx.n(160)):
            base = gen.random_graph(rng, meta_p=0.0, maxdepth=2) if i % 3 else gen.consistent_graph(rng, erase=False)[0]
            bare = strip_meta(base)
            withm = add_meta(rng, bare)
            case = {"op": "metadata", "graph": withm}
            ctx.case(case); ctx.count("graphs")
            try:
                g0 = impl_construct(bare)
                g1 = impl_construct(withm)
            except Exception:
                ctx.count("construct_rejected"); continue
            p0, p1 = os.path.join(tmpdir, "a.nir"), os.path.join(tmpdir, "b.nir")
            try:
                nir.write(p0, g0); nir.write(p1, g1)
            except Exception:
                ctx.count("write_rejected"); continue
            from props.c01 import model_tree
            c1 = {"op": "write", "graph": withm, "version": nir.version}
            cases.append(c1); obs.append({"file": model_tree(h5raw.traverse_file(p1))}); reqs.append(c1)
            c2 = {"op": "graph", "graph": withm, "ops": ["file_rt"]}
            st2, _ = run_graph_ops(withm, ["file_rt"])
            cases.append(c2); obs.append({"steps": st2}); reqs.append(c2)
            # (1) carried faithfully
            try:
                r1 = nir.read(p1)
            except Exception as e:  # noqa
                ctx.violate(case, "graph with metadata is written but not read back", {"site": "read", "what": "raised"},
                            observed=f"{type(e).__name__}: {e}"); continue
            m_want, m_got = meta_of(g1), meta_of(r1)
            bad = [k for k in m_want if not compare.num_equal(m_want[k], m_got.get(k))]
            ctx.count("meta_depth_max_%d" % max(depth_of(v) for v in m_want.values()))
            if bad:
                ctx.violate(case, "metadata is not returned with the same keys, nesting and values",
                            {"site": "roundtrip", "what": "carried"}, observed={k: canon(m_got.get(k)) for k in bad[:2]},
                            required={k: canon(m_want[k]) for k in bad[:2]})
                continue
            # (2) inert: all other datasets identical
            t0, t1 = h5raw.traverse_file(p0), prune_meta(h5raw.traverse_file(p1))
            if prune_meta(t0) != t1:
                ctx.violate(case, "attaching metadata changed other datasets of the written file",
                            {"site": "write", "what": "inert-file"}, observed=[list(x) for x in jdiff(prune_meta(t0), t1)[:3]])
                continue
            # (2b) changing one node's metadata *in place* changes no other node's metadata -- on a
            #      constructed graph, on a graph that was read, and on graphs read afterwards
            alias = None
            for label, make in (("constructed", lambda: impl_construct(bare)), ("read", lambda: nir.read(p0))):
                gg = make()
                metas = meta_of(gg)
                before = {k: copy.deepcopy(v) for k, v in metas.items()}
                target = rng.choice(sorted(metas))
                if not isinstance(metas[target], dict):
                    continue
                metas[target]["trained_with"] = "adam"
                after = meta_of(gg)
                # (a node object registered under two names has, of course, one metadata dictionary)
                leaked = [k for k in after if k != target and after[k] is not metas[target]
                          and not compare.num_equal(before[k], after[k])]
                later = meta_of(nir.read(p0))
                leaked_later = [k for k in later if not compare.num_equal(later[k], {})]
                ctx.count("inplace_" + label)
                if leaked or leaked_later:
                    alias = (label, target, leaked[:3], leaked_later[:3])
                    break
            if alias:
                ctx.violate(case, "changing one node's metadata in place changed the metadata of other nodes "
                            "(or of graphs read later)", {"site": "alias", "what": "inert-metadata", "graph": alias[0]},
                            observed={"changed": alias[1], "also_changed": alias[2], "fresh_read_has_metadata": alias[3]})
                continue
            # (3) inert: types, type check, inference
            s0, _ = run_graph_ops(bare, ["check", "infer", "check"])
            s1, _ = run_graph_ops(withm, ["check", "infer", "check"])

            def scrub(steps):
                def f(n):
                    if isinstance(n, dict) and "meta" in n and "type" in n:
                        n = dict(n); n["meta"] = None
                        n["nodes"] = [[k, f(c)] for k, c in n["nodes"]]
                    return n
                out = []
                for s in steps:
                    s = dict(s)
                    if "g" in s:
                        s["g"] = f(s["g"])
                    elif "type" in s:
                        s = f(s)
                    out.append(s)
                return out
            if scrub(s0) != scrub(s1):
                ctx.violate(case, "metadata changed node types or the outcome of the type check / inference",
                            {"site": "types", "what": "inert-types"}, observed=[list(x) for x in jdiff(scrub(s0), scrub(s1))[:3]])
        ctx.compare("files", cases, obs, reqs)
    finally:
        import shutil
        shutil.rmtree(tmpdir, ignore_errors=True)


def _field_named_keys(ctx):
    """metadata whose keys are spelled like the node's own constructor fields (`input_shape`, `stride`, `tau`, ...) and whose
    values look like values of those fields, on graphs with erased annotations: construction, the type check and inference
    give what they give without the metadata"""
    rng = ctx.rng
    for _ in range(ctx.n(60, 240)):
        bare, _, erased = gen.consistent_graph(rng, max_nodes=5, erase=True, wrong_output=False)
        bare = strip_meta(bare)
        withm = copy.deepcopy(bare)
        hit = 0
        for name, rec in withm["nodes"]:
            fields = sorted(gen._init_fields(rec["type"]) - {"metadata"}) + ["input_shape", "input_type", "output_type"]
            entries = []
            for f in rng.sample(fields, min(len(fields), rng.randrange(1, 4))):
                v = rng.choice([gen.arr(rng, [2], "<i8"), gen.pyint(rng.randrange(1, 6)), {"t": [gen.pyint(5), gen.pyint(5)]},
                                {"a": "<i8", "sh": [3], "x": np.array([2, 5, 5], dtype="<i8").tobytes().hex()}])
                if not any(k == f for k, _ in entries):
                    entries.append([f, v])
            if name in erased or rng.random() < 0.5:
                rec["kwargs"] = [kv for kv in rec["kwargs"] if kv[0] != "metadata"] + [["metadata", {"d": entries}]]
                hit += 1
        case = {"op": "metadata_field_named_keys", "graph": withm}
        ctx.case(case); ctx.count("field_named_metadata_keys"); ctx.count("nodes_with_field_named_keys", hit)
        s0, _ = run_graph_ops(bare, ["check", "infer", "check"])
        s1, _ = run_graph_ops(withm, ["check", "infer", "check"])

        def scrub(x):
            if isinstance(x, dict):
                return {k: (None if k == "meta" else scrub(v)) for k, v in x.items()}
            if isinstance(x, list):
                return [scrub(v) for v in x]
            return x
        if scrub(s0) != scrub(s1):
            ctx.violate(case, "metadata keyed like constructor fields changed node types or the outcome of the type check / inference",
                        {"site": "types", "what": "inert-types", "keys": "field-named"},
                        observed=[list(x) for x in jdiff(scrub(s0), scrub(s1))[:3]])


def _copies_are_independent(ctx):
    """metadata of a graph / sub-graph / node with nesting depth >= 2: a copy made through the dictionary form (or a file)
    is edited in place at every depth; the original - its metadata, and the file written from it - stays what it was"""
    import io
    import copy
    import numpy as np
    import nir
    import compare
    rng = ctx.rng
    for _ in range(ctx.n(30, 150)):
        deep = lambda: {"training": {"lr": 0.1, "schedule": {"steps": np.arange(3), "extra": "x"}}, "tags": {"a": {"b": 1}},
                        "arr": np.ones(2)}
        sub = nir.NIRGraph(nodes={"s": nir.Scale(np.ones(2), metadata=deep())}, edges=[], metadata=deep())
        g = nir.NIRGraph(nodes={"sub": sub, "t": nir.Threshold(np.ones(2), metadata=deep())}, edges=[("sub", "t")], metadata=deep())
        how = rng.choice(["dict", "dict", "file", "to_dict_only"])
        case = {"op": "metadata_copy_independence", "via": how}
        ctx.case(case); ctx.count("metadata_copy_independence")
        before = compare.snapshot(g)
        b0 = io.BytesIO(); nir.write(b0, g)
        try:
            if how == "dict":
                cp = nir.NIRGraph.from_dict(g.to_dict()); tops = [cp.metadata, cp.nodes["sub"].metadata, cp.nodes["sub"].nodes["s"].metadata, cp.nodes["t"].metadata]
            elif how == "file":
                b0.seek(0); cp = nir.read(b0); tops = [cp.metadata, cp.nodes["sub"].metadata, cp.nodes["t"].metadata]
            else:
                d = g.to_dict(); tops = [d["metadata"], d["nodes"]["sub"]["metadata"], d["nodes"]["t"]["metadata"]]
            for m in tops:
                m["training"]["lr"] = 99.0
                m["training"]["schedule"]["extra"] = "changed"
                np.asarray(m["training"]["schedule"]["steps"])[...] = 7
                m["tags"]["a"]["b"] = 2
                np.asarray(m["arr"])[...] = 5
                m["new"] = 1
        except Exception as e:  # noqa
            ctx.violate(case, "copying a graph with nested metadata raised", {"site": "metadata-copy", "what": "raised"},
                        observed=f"{type(e).__name__}: {e}"); continue
        b1 = io.BytesIO(); nir.write(b1, g)
        same_file = compare.graph_diff(nir.read(io.BytesIO(b0.getvalue())), nir.read(io.BytesIO(b1.getvalue()))) == []
        if compare.snapshot(g) != before or not same_file:
            ctx.violate(case, "editing the metadata of a copy (made through " + how + ") changed the original graph's metadata",
                        {"site": "metadata-copy", "what": "alias", "via": how})


def run(ctx):
    _run_main(ctx)
    _field_named_keys(ctx)
    _copies_are_independent(ctx)
    # history independence: the same call on a live graph object with a history of edits / calls and on a twin rebuilt
    # from its public state (harness/history.py)
    import history
    history.run(ctx, ["file_rt", "path_rt", "to_dict"], {"file_rt": "read(write(g)) of a graph object whose metadata has a history", "path_rt": "read(write(g)) of a graph object whose metadata has a history", "to_dict": "to_dict of a graph object whose metadata has a history"})
