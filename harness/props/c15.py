"""C15 — a file path behaves as a last-writer-wins register."""
import hashlib
import io
import os
import pathlib
import tempfile

import numpy as np

import compare
import gen
from canon import err_name
from core import impl_construct


def open_fds():
    return set(os.listdir("/proc/self/fd"))


def file_hash(p):
    with open(p, "rb") as f:
        return hashlib.sha1(f.read()).hexdigest()


def _retained_history(path, seed, big):
    """write A; r1 = read; write B; r2 = read; write r1 (load-modify-save); r3 = read -- every returned graph must stay
    what it was when it was returned.  Runs in a child process (a reader that keeps the file mapped dies with SIGBUS
    when the file is truncated under it)."""
    import random
    import nir
    rng = random.Random(seed)
    g = np.random.default_rng(seed)
    n = 420 if big else rng.choice([3, 40])
    m = rng.choice([n, n + 7])

    def graph(tag):
        w = g.standard_normal((n, m))
        return nir.NIRGraph(nodes={"in": nir.Input(np.array([m])), "fc": nir.Affine(weight=w, bias=g.standard_normal(n)),
                                   "out": nir.Output(np.array([n]))}, edges=[("in", "fc"), ("fc", "out")],
                            metadata={"tag": tag})
    A, B = graph("A"), graph("B")
    snap = lambda x: compare.snapshot(x)
    nir.write(path, A)
    r1 = nir.read(path); s1 = snap(r1)
    if compare.graph_diff(A, r1):
        return "first read differs from the graph written"
    nir.write(path, B)
    if snap(r1) != s1:
        return "a graph returned by an earlier read changed when the path was overwritten"
    r2 = nir.read(path); s2 = snap(r2)
    if compare.graph_diff(B, r2):
        return "read does not return the most recent write"
    # edit the result of an earlier read in place (parameters, metadata) *without* saving: the path still holds B
    r2.nodes["fc"].bias[...] = -7.0
    r2.nodes["fc"].weight[0, 0] = 123.0
    r2.nodes["in"].metadata["note"] = "scratch"
    r2.metadata["tag"] = "edited"
    r2b = nir.read(path)
    if compare.graph_diff(B, r2b):
        return "a later read of the unchanged path is affected by in-place edits of an earlier read result"
    r2 = r2b; s2 = snap(r2)
    r1.nodes["fc"].bias[...] = 0.5          # modify what was loaded, save it to the same path
    nir.write(path, r1)
    if snap(r2) != s2:
        return "a graph returned by an earlier read changed when the path was overwritten (load-modify-save)"
    r3 = nir.read(path)
    if compare.graph_diff(r1, r3):
        return "load-modify-save does not read back what was saved"
    return None


def retained_results(ctx, tmpdir):
    import json
    import subprocess
    import sys
    rng = ctx.rng
    here = os.path.dirname(os.path.dirname(os.path.abspath(__file__)))
    repo = os.environ.get("NIR_REPO", "/repo")
    for i in range(ctx.n(6, 16)):
        big = i % 2 == 0
        seed = rng.randrange(2 ** 31)
        path = os.path.join(tmpdir, f"keep{i}.nir")
        case = {"op": "retained_results", "seed": seed, "arrays_over_1MiB": big}
        ctx.case(case); ctx.count("retained_histories"); ctx.count("retained_big" if big else "retained_small")
        code = ("import sys, json, warnings; warnings.simplefilter('ignore'); sys.path.insert(0, %r); sys.path.insert(0, %r);"
                "from props.c15 import _retained_history; print(json.dumps({'r': _retained_history(%r, %d, %s)}))"
                % (repo, here, path, seed, big))
        try:
            p = subprocess.run([sys.executable, "-c", code], stdout=subprocess.PIPE, stderr=subprocess.PIPE, timeout=180)
        except subprocess.TimeoutExpired:
            ctx.violate(case, "write/read history did not finish", {"site": "retained", "what": "hang"})
            continue
        out = p.stdout.decode("utf8", "replace").strip().splitlines()
        if p.returncode < 0:
            ctx.violate(case, "the process was killed while running a write/read/overwrite history on one path",
                        {"site": "retained", "what": "killed"}, observed={"signal": -p.returncode})
        elif p.returncode != 0 or not out:
            ctx.violate(case, "a call of the write/read/overwrite history raised", {"site": "retained", "what": "raised"},
                        observed=p.stderr.decode("utf8", "replace")[-400:])
        else:
            msg = json.loads(out[-1])["r"]
            if msg:
                ctx.violate(case, msg, {"site": "retained", "what": "changed"})


def _same_object_rewritten(ctx):
    """one graph object written, updated *in place* (an array element, an array through a held reference, a metadata entry, an
    appended edge - no attribute is re-assigned), written again to the same path: read returns the graph as it is now"""
    import nir
    import compare
    rng = ctx.rng
    tmpdir = tempfile.mkdtemp(prefix="nirverif-c15b-", dir="/var/tmp")
    try:
        for i in range(ctx.n(16, 64)):
            w = np.arange(6, dtype="float64").reshape(2, 3) + rng.random()
            lin = nir.Affine(weight=w, bias=np.zeros(2))
            sub = nir.NIRGraph(nodes={"s": nir.Scale(np.ones(2), metadata={"k": 1})}, edges=[], metadata={"note": "a"})
            g = nir.NIRGraph(nodes={"in": nir.Input(np.array([3])), "lin": lin, "sub": sub, "out": nir.Output(np.array([2]))},
                             edges=[("in", "lin"), ("lin", "out")], metadata={"epoch": 0})
            path = os.path.join(tmpdir, f"ckpt{i}.nir")
            edits = rng.sample(["element", "held_reference", "metadata", "nested_metadata", "nested_array", "edge"], rng.randrange(1, 4))
            case = {"op": "same_object_rewritten", "edits": edits, "epochs": 3}
            ctx.case(case); ctx.count("same_object_rewritten")
            held = lin.weight
            try:
                for epoch in range(3):
                    nir.write(path, g)
                    back = nir.read(path)
                    d = compare.graph_diff(g, back)
                    if d:
                        ctx.violate(case, "read after re-writing an updated graph object returns an earlier state of it",
                                    {"site": "rewrite-same-object", "what": "stale", "edits": sorted(edits)[:1]},
                                    observed=[list(x) if isinstance(x, (list, tuple)) else x for x in d[:3]])
                        break
                    for e in edits:
                        if e == "element":
                            lin.bias[0] += 1.0
                        elif e == "held_reference":
                            held -= 0.25
                        elif e == "metadata":
                            g.metadata["epoch"] = epoch + 1
                        elif e == "nested_metadata":
                            sub.nodes["s"].metadata["k"] = epoch + 2
                        elif e == "nested_array":
                            sub.nodes["s"].scale[...] = epoch + 2
                        elif e == "edge":
                            g.edges.append(("lin", "out"))
            except Exception as e:  # noqa
                ctx.violate(case, "re-writing an updated graph object raised", {"site": "rewrite-same-object", "what": "raised"},
                            observed=f"{type(e).__name__}: {e}")
    finally:
        import shutil
        shutil.rmtree(tmpdir, ignore_errors=True)


def run(ctx):
    _same_object_rewritten(ctx)
    import nir
    from nir.serialization import read_version
    from canon import canon_node
    rng = ctx.rng
    cases, obs, reqs = [], [], []
    tmpdir = tempfile.mkdtemp(prefix="nirverif-c15-", dir="/var/tmp")
    try:
        for i in range(ctx.n(60)):
            # a pool of graphs of different sizes / types / metadata
            pool = []
            while len(pool) < 4:
                g = gen.random_graph(rng, max_nodes=rng.choice([1, 3, 8]), meta_p=0.4, maxdepth=2)
                try:
                    obj = impl_construct(g)
                    nir.write(io.BytesIO(), obj)
                    pool.append((g, obj))
                except Exception:
                    continue
            if i % 2 == 0:
                # two graphs that are equal as numbers, names and structure but differ in the dtype of their float tensors
                try:
                    src = pool[0][0]
                    if i % 4 == 0:
                        # (directed: a graph that certainly holds float64 tensors)
                        src = {"type": "NIRGraph", "meta": None, "edges": [["a", "b"]],
                               "nodes": [["a", {"type": "Affine", "kwargs": [["weight", gen.arr(rng, [2, 3], "<f8")], ["bias", gen.arr(rng, [2], "<f8")]]}],
                                         ["b", {"type": "Scale", "kwargs": [["scale", gen.arr(rng, [2], "<f8")]]}]]}
                    ga, gb = gen.dtype_twins(src)
                    oa, ob = impl_construct(ga), impl_construct(gb)
                    nir.write(io.BytesIO(), oa); nir.write(io.BytesIO(), ob)
                    if compare.graph_diff(oa, ob):
                        pool[0] = (ga, oa); pool[1] = (gb, ob); ctx.count("pool_with_dtype_twins")
                except Exception:
                    pass
            # nested variants that share names with other graphs: residue would show
            # (the register is the *path*, whatever its spelling: suffixes that tools treat specially included)
            base = os.path.join(tmpdir, rng.choice([f"reg{i}.nir", f"reg{i}.nir", f"reg{i}.tmp", f"reg{i}.nir.tmp", f"reg{i}",
                                                    f"reg{i}.h5", f"reg.{i}.bak", f"reg{i}.tmp.nir", f"reg{i}.part", f".reg{i}",
                                                    f"ckpt{i}_$VERIFSTEP.nir", f"ckpt{i}_${{VERIFSTEP}}x.nir", f"~reg{i}.nir"]))
            os.environ["VERIFSTEP"] = "7"            # (a '$name' in a file name is part of the name, whatever the environment)
            tilde_cwd = None
            if i % 5 == 2:
                # the path as the OS resolves it: through a symbolic link to a directory and back up with '..'
                # (link -> real/sub, so link/.. is real/, not the folder the link sits in), or below a folder named '~'
                try:
                    real = os.path.join(tmpdir, f"real{i}", "sub"); os.makedirs(real, exist_ok=True)
                    link = os.path.join(tmpdir, f"link{i}")
                    if not os.path.lexists(link):
                        os.symlink(real, link)
                    tilde = os.path.join(tmpdir, f"t{i}", "~"); os.makedirs(tilde, exist_ok=True)
                    base = rng.choice([os.path.join(link, "..", f"model{i}.nir"), os.path.join(tilde, f"model{i}.nir"), "~"])
                    if base == "~":
                        # the relative spelling '~/model.nir' from inside the folder that holds the '~' directory
                        tilde_cwd = os.path.dirname(tilde)
                        base = os.path.join("~", f"model{i}.nir")
                    else:
                        tilde_cwd = None
                    ctx.count("histories_through_symlink_or_tilde")
                except Exception:
                    pass
            # the register is the path given, wherever the process happens to stand: every third history runs with the
            # working directory set to a folder holding a *different* NIR file under the same base name
            old_cwd = None
            if i % 5 == 2 and locals().get("tilde_cwd"):
                old_cwd = os.getcwd(); os.chdir(tilde_cwd)
            elif i % 3 == 0:
                try:
                    bdir = os.path.join(tmpdir, "elsewhere%d" % i)
                    os.makedirs(bdir, exist_ok=True)
                    nir.write(os.path.join(bdir, os.path.basename(base)), pool[3][1])
                    old_cwd = os.getcwd(); os.chdir(bdir)
                    ctx.count("histories_with_same_named_file_in_cwd")
                except Exception:
                    old_cwd = None
            n_ops = rng.randrange(3, 9 if ctx.tier == "quick" else 16)
            ops, last = [], None
            history = []
            mobs = []          # what the model's fs_history must print
            fds0 = open_fds()
            sig = {"site": "history"}
            ok = True
            for j in range(n_ops):
                r = rng.random()
                as_path = rng.random() < 0.5
                target = pathlib.Path(base) if as_path else base
                if last is None or r < 0.4:
                    k = rng.randrange(len(pool))
                    history.append(["write", k, "Path" if as_path else "str"])
                    try:
                        nir.write(target, pool[k][1])
                        last = k
                        mobs.append({"done": True, "open": 0})
                        if not os.path.isfile(base):
                            ctx.violate({"op": "history", "ops": history, "path": os.path.basename(base)},
                                        "the path does not exist after a successful write",
                                        {**sig, "what": "missing-after-write"}, observed=sorted(os.listdir(tmpdir))[:6])
                            ok = False; break
                    except Exception as e:  # noqa
                        ctx.violate({"op": "history", "ops": history}, "write to an existing path failed",
                                    {**sig, "what": "write-raised"}, observed=f"{type(e).__name__}: {e}")
                        ok = False; break
                elif r < 0.85:
                    history.append(["read", "Path" if as_path else "str"])
                    h0 = file_hash(base)
                    try:
                        got = nir.read(target)
                    except Exception as e:  # noqa
                        ctx.violate({"op": "history", "ops": history}, "read after write failed",
                                    {**sig, "what": "read-raised"}, observed=f"{type(e).__name__}: {e}")
                        ok = False; break
                    if file_hash(base) != h0:
                        ctx.violate({"op": "history", "ops": history}, "a read altered the file", {**sig, "what": "read-writes"})
                        ok = False; break
                    mobs.append({"g": canon_node(got), "open": 0})
                    d = compare.graph_diff(pool[last][1], got)
                    if d:
                        ctx.violate({"op": "history", "ops": history, "graphs": [p[0] for p in pool]},
                                    "read does not return the graph of the most recent write",
                                    {**sig, "what": "stale-or-residue"}, observed=d[:4])
                        ok = False; break
                else:
                    history.append(["read_version"])
                    try:
                        v = read_version(target)
                        mobs.append({"v": v, "open": 0})
                        if v != nir.version:
                            ctx.violate({"op": "history", "ops": history}, "read_version wrong", {**sig, "what": "version"}, observed=v)
                            ok = False; break
                    except Exception as e:  # noqa
                        ctx.violate({"op": "history", "ops": history}, "read_version raised", {**sig, "what": "version-raised"},
                                    observed=err_name(e))
                        ok = False; break
                # every call leaves the file closed
                leaked = open_fds() - fds0
                if leaked:
                    ctx.violate({"op": "history", "ops": history}, "a call left a file handle open",
                                {**sig, "what": "fd-leak"}, observed=sorted(leaked))
                    ok = False; break
            if old_cwd is not None:
                os.chdir(old_cwd)
            ctx.case({"op": "history", "ops": history, "n_graphs": len(pool)}); ctx.count("histories"); ctx.count("ops", len(history))
            if ok and len(mobs) == len(history):
                c = {"op": "fs_history", "version": nir.version, "graphs": [p[0] for p in pool],
                     "ops": [[h[0]] + ([h[1]] if h[0] == "write" else []) for h in history]}
                cases.append(c); obs.append({"outs": mobs}); reqs.append(c)
            if ok and os.path.exists(base):
                # rename and delete succeed
                try:
                    os.rename(base, base + ".moved")
                    os.remove(base + ".moved")
                except Exception as e:  # noqa
                    ctx.violate({"op": "history", "ops": history}, "file cannot be renamed/deleted after the calls",
                                {**sig, "what": "locked"}, observed=err_name(e))
            # file objects: one write followed by reads
            g, obj = pool[rng.randrange(len(pool))]
            for kind in ("bytesio", "tempfile"):
                ctx.count("fileobj_" + kind)
                if kind == "bytesio":
                    f = io.BytesIO()
                else:
                    f = tempfile.TemporaryFile(dir=tmpdir)
                try:
                    nir.write(f, obj)
                    for _ in range(rng.randrange(1, 4)):
                        f.seek(0)
                        got = nir.read(f)
                        d = compare.graph_diff(obj, got)
                        if d:
                            ctx.violate({"op": "fileobj", "kind": kind, "graph": g}, "a file object written once does not read back the same every time",
                                        {"site": "fileobj", "what": "diff"}, observed=d[:3])
                            break
                except Exception as e:  # noqa
                    ctx.violate({"op": "fileobj", "kind": kind, "graph": g}, "file-object target failed", {"site": "fileobj", "what": "raised"},
                                observed=f"{type(e).__name__}: {e}")
                finally:
                    f.close()
        retained_results(ctx, tmpdir)
        ctx.compare("histories", cases, obs, reqs)
    finally:
        import shutil
        shutil.rmtree(tmpdir, ignore_errors=True)
