"""C15 — a file path behaves as a last-writer-wins register."""
import hashlib
import io
import os
import pathlib
import tempfile

import numpy as np

import compare
import gen
from canon import err_name
from core import impl_construct


def open_fds():
    return set(os.listdir("/proc/self/fd"))


def file_hash(p):
    with open(p, "rb") as f:
        return hashlib.sha1(f.read()).hexdigest()


def run(ctx):
    import nir
    from nir.serialization import read_version
    from canon import canon_node
    rng = ctx.rng
    cases, obs, reqs = [], [], []
    tmpdir = tempfile.mkdtemp(prefix="nirverif-c15-", dir="/var/tmp")
    try:
        for i in range(ctx.n(60)):
            # a pool of graphs of different sizes / types / metadata
            pool = []
            while len(pool) < 4:
                g = gen.random_graph(rng, max_nodes=rng.choice([1, 3, 8]), meta_p=0.4, maxdepth=2)
                try:
                    obj = impl_construct(g)
                    nir.write(io.BytesIO(), obj)
                    pool.append((g, obj))
                except Exception:
                    continue
            # nested variants that share names with other graphs: residue would show
            base = os.path.join(tmpdir, f"reg{i}.nir")
            n_ops = rng.randrange(3, 9 if ctx.tier == "quick" else 16)
            ops, last = [], None
            history = []
            mobs = []          # what the model's fs_history must print
            fds0 = open_fds()
            sig = {"site": "history"}
            ok = True
            for j in range(n_ops):
                r = rng.random()
                as_path = rng.random() < 0.5
                target = pathlib.Path(base) if as_path else base
                if last is None or r < 0.4:
                    k = rng.randrange(len(pool))
                    history.append(["write", k, "Path" if as_path else "str"])
                    try:
                        nir.write(target, pool[k][1])
                        last = k
                        mobs.append({"done": True, "open": 0})
                    except Exception as e:  # noqa
                        ctx.violate({"op": "history", "ops": history}, "write to an existing path failed",
                                    {**sig, "what": "write-raised"}, observed=f"{type(e).__name__}: {e}")
                        ok = False; break
                elif r < 0.85:
                    history.append(["read", "Path" if as_path else "str"])
                    h0 = file_hash(base)
                    try:
                        got = nir.read(target)
                    except Exception as e:  # noqa
                        ctx.violate({"op": "history", "ops": history}, "read after write failed",
                                    {**sig, "what": "read-raised"}, observed=f"{type(e).__name__}: {e}")
                        ok = False; break
                    if file_hash(base) != h0:
                        ctx.violate({"op": "history", "ops": history}, "a read altered the file", {**sig, "what": "read-writes"})
                        ok = False; break
                    mobs.append({"g": canon_node(got), "open": 0})
                    d = compare.graph_diff(pool[last][1], got)
                    if d:
                        ctx.violate({"op": "history", "ops": history, "graphs": [p[0] for p in pool]},
                                    "read does not return the graph of the most recent write",
                                    {**sig, "what": "stale-or-residue"}, observed=d[:4])
                        ok = False; break
                else:
                    history.append(["read_version"])
                    try:
                        v = read_version(target)
                        mobs.append({"v": v, "open": 0})
                        if v != nir.version:
                            ctx.violate({"op": "history", "ops": history}, "read_version wrong", {**sig, "what": "version"}, observed=v)
                            ok = False; break
                    except Exception as e:  # noqa
                        ctx.violate({"op": "history", "ops": history}, "read_version raised", {**sig, "what": "version-raised"},
                                    observed=err_name(e))
                        ok = False; break
                # every call leaves the file closed
                leaked = open_fds() - fds0
                if leaked:
                    ctx.violate({"op": "history", "ops": history}, "a call left a file handle open",
                                {**sig, "what": "fd-leak"}, observed=sorted(leaked))
                    ok = False; break
            ctx.case({"op": "history", "ops": history, "n_graphs": len(pool)}); ctx.count("histories"); ctx.count("ops", len(history))
            if ok and len(mobs) == len(history):
                c = {"op": "fs_history", "version": nir.version, "graphs": [p[0] for p in pool],
                     "ops": [[h[0]] + ([h[1]] if h[0] == "write" else []) for h in history]}
                cases.append(c); obs.append({"outs": mobs}); reqs.append(c)
            if ok and os.path.exists(base):
                # rename and delete succeed
                try:
                    os.rename(base, base + ".moved")
                    os.remove(base + ".moved")
                except Exception as e:  # noqa
                    ctx.violate({"op": "history", "ops": history}, "file cannot be renamed/deleted after the calls",
                                {**sig, "what": "locked"}, observed=err_name(e))
            # file objects: one write followed by reads
            g, obj = pool[rng.randrange(len(pool))]
            for kind in ("bytesio", "tempfile"):
                ctx.count("fileobj_" + kind)
                if kind == "bytesio":
                    f = io.BytesIO()
                else:
                    f = tempfile.TemporaryFile(dir=tmpdir)
                try:
                    nir.write(f, obj)
                    for _ in range(rng.randrange(1, 4)):
                        f.seek(0)
                        got = nir.read(f)
                        d = compare.graph_diff(obj, got)
                        if d:
                            ctx.violate({"op": "fileobj", "kind": kind, "graph": g}, "a file object written once does not read back the same every time",
                                        {"site": "fileobj", "what": "diff"}, observed=d[:3])
                            break
                except Exception as e:  # noqa
                    ctx.violate({"op": "fileobj", "kind": kind, "graph": g}, "file-object target failed", {"site": "fileobj", "what": "raised"},
                                observed=f"{type(e).__name__}: {e}")
                finally:
                    f.close()
        ctx.compare("histories", cases, obs, reqs)
    finally:
        import shutil
        shutil.rmtree(tmpdir, ignore_errors=True)
