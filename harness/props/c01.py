"""C01 — HDF5 round trip returns an equivalent graph."""
import io
import os
import pathlib
import tempfile

import numpy as np

import compare
import gen
from canon import canon, err_name
from core import impl_construct, quiet


def roundtrip(graph, target, tmpdir):
    """write + read through a str path, a pathlib.Path or a BytesIO.  Returns
    ("ok", g2) | ("write-rejected", exc) | ("read-failed", exc)."""
    import nir
    if target == "bytesio":
        f = io.BytesIO()
    else:
        p = os.path.join(tmpdir, "g.nir")
        if os.path.exists(p):
            os.remove(p)
        f = p if target == "str" else pathlib.Path(p)
    try:
        nir.write(f, graph)
    except Exception as e:  # noqa
        return "write-rejected", e
    try:
        if target == "bytesio":
            f.seek(0)
        return "ok", nir.read(f)
    except Exception as e:  # noqa
        return "read-failed", e


def fresh_types_diff(g, path=""):
    """the types of every node of the result equal those of a node constructed afresh from
    the same parameters"""
    import dataclasses
    import nir
    out = []
    for k, n in g.nodes.items():
        if isinstance(n, nir.NIRGraph):
            out += fresh_types_diff(n, f"{path}/{k}")
            continue
        kw = {f.name: getattr(n, f.name) for f in dataclasses.fields(n) if f.name not in ("input_type", "output_type")}
        if isinstance(n, (nir.Input,)):
            kw["input_type"] = n.input_type
        if isinstance(n, nir.Output):
            kw["output_type"] = n.output_type
        if isinstance(n, nir.Flatten):
            kw["input_type"] = n.input_type
        try:
            f = type(n)(**kw)
        except Exception as e:  # noqa
            out.append(f"{path}/{k}: fresh construction raised {type(e).__name__}")
            continue
        if not compare.num_equal(f.input_type, n.input_type) or not compare.num_equal(f.output_type, n.output_type):
            out.append(f"{path}/{k}: types differ from fresh construction")
    return out


def has_slash(g):
    for name, rec in g["nodes"]:
        if "/" in name:
            return True
        if rec["type"] == "NIRGraph" and has_slash(rec):
            return True
    return False


def run(ctx):
    rng = ctx.rng
    tmpdir = tempfile.mkdtemp(prefix="nirverif-c01-", dir="/var/tmp")
    try:
        for i in range(ctx.n(300)):
            slash = (i % 10 == 0)
            g = gen.random_graph(rng, slash=slash)
            target = rng.choice(["str", "path", "bytesio"])
            case = {"op": "file_rt", "graph": g, "target": target}
            ctx.case(case); ctx.count("graphs"); ctx.count("target_" + target)
            try:
                graph = impl_construct(g)
            except Exception as e:  # noqa
                ctx.count("construct_rejected")
                continue
            status, res = roundtrip(graph, target, tmpdir)
            ctx.count(status)
            if status == "write-rejected":
                continue         # outside the claim
            sig_name = "slash" if has_slash(g) else "plain"
            if status == "read-failed":
                ctx.violate(case, "write accepted the graph but read raised",
                            {"site": "read", "what": "raised", "names": sig_name, "err": err_name(res)},
                            observed=f"{type(res).__name__}: {res}")
                continue
            diff = compare.graph_diff(graph, res, strict=False)
            if diff:
                ctx.violate(case, "read(write(g)) is not equivalent to g",
                            {"site": "roundtrip", "what": "diff", "names": sig_name,
                             "first": diff[0].split(":")[-1].strip()[:30]}, observed=diff[:5])
            ft = fresh_types_diff(res)
            if ft:
                ctx.violate(case, "types of the read graph differ from fresh construction",
                            {"site": "roundtrip", "what": "fresh-types"}, observed=ft[:5])
    finally:
        import shutil
        shutil.rmtree(tmpdir, ignore_errors=True)
