"""C01 — HDF5 round trip returns an equivalent graph."""
import io
import os
import pathlib
import tempfile

import numpy as np

import compare
import gen
from canon import canon, err_name
from core import impl_construct, quiet


def residue_graph(rng):
    """what the path may hold from an earlier save: a decorated graph (or a bare primitive) whose entries - graph-level
    metadata, same-named nodes with wider dtypes and their own metadata - must leave no trace in the next file"""
    import nir
    if rng.random() < 0.2:
        return nir.Affine(weight=np.arange(6.0).reshape(2, 3), bias=np.zeros(2), metadata={"old": "affine"})
    nodes = {}
    for name in rng.sample(["a", "b", "n0", "n1", "lif", "in", "out", "x y"], 4):
        nodes[name] = nir.Scale(scale=np.arange(1.0, 4.0), metadata={"stale": np.arange(3), "who": name})
    return nir.NIRGraph(nodes=nodes, edges=[(k, k) for k in nodes],
                        metadata={"epochs": 30, "source": "earlier-run", "nested": {"deep": np.ones((2, 2))}})


def roundtrip(graph, target, tmpdir, residue=None):
    """write + read through a str path, a pathlib.Path or a BytesIO.  Returns
    ("ok", g2) | ("write-rejected", exc) | ("read-failed", exc).  With `residue` the path (or buffer) already holds
    an earlier, different NIR file when the graph is written."""
    import nir
    if target == "bytesio":
        f = io.BytesIO()
        if residue is not None:
            nir.write(f, residue)
            f.seek(0)
    else:
        p = os.path.join(tmpdir, "g.nir")
        if os.path.exists(p):
            os.remove(p)
        if residue is not None:
            nir.write(p, residue)
        f = p if target == "str" else pathlib.Path(p)
    try:
        nir.write(f, graph)
    except Exception as e:  # noqa
        return "write-rejected", e
    try:
        if target == "bytesio":
            f.seek(0)
        return "ok", nir.read(f)
    except Exception as e:  # noqa
        return "read-failed", e


def big_and_twins(ctx, tmpdir, big=True):
    """tensors far larger than the sampled ones (several MiB, first axis not a multiple of any power of two) and
    pairs of parameters with identical bytes but different shapes / dtypes in one graph -- sizes at which a writer
    may switch strategy (chunked / slab-wise copies, de-duplication, memory mapping)"""
    import nir
    rng = ctx.rng
    specs = [((1500, 1000), "<f4"), ((3000001,), "<i2"), ((2048, 1024), "<f4"), ((701, 809), "<f8"), ((3, 1234567), "|u1")]
    if ctx.tier == "quick":
        specs = rng.sample(specs, 3 if big else 1)
    for shape, dt in specs:
        seed = rng.randrange(2 ** 32)
        g = np.random.default_rng(seed)
        n = int(np.prod(shape))
        w = np.frombuffer(g.bytes(n * np.dtype(dt).itemsize), dtype=dt).reshape(shape).copy()
        if np.dtype(dt).kind == "f":
            w = np.nan_to_num(w, nan=1.5, posinf=2.0, neginf=-2.0)
        if rng.random() < 0.5 and len(shape) == 2:
            w = w.T                      # a transposed (non-contiguous) view
        target = rng.choice(["str", "bytesio"])
        case = {"op": "big_tensor", "shape": list(w.shape), "dtype": dt, "seed": seed, "target": target,
                "transposed": not w.flags["C_CONTIGUOUS"]}
        ctx.case(case); ctx.count("big_tensors"); ctx.count("big_bytes", w.nbytes)
        graph = nir.NIRGraph(nodes={"n": nir.Scale(scale=w)}, edges=[])
        status, res = roundtrip(graph, target, tmpdir)
        if status != "ok":
            ctx.violate(case, f"large tensor: {status}", {"site": "roundtrip", "what": status, "size": "big"},
                        observed=err_name(res) if isinstance(res, Exception) else str(res)); continue
        a = np.asarray(res.nodes["n"].scale)
        if a.dtype != w.dtype or a.shape != w.shape or np.ascontiguousarray(a).tobytes() != np.ascontiguousarray(w).tobytes():
            bad = int(np.sum(np.ascontiguousarray(a).view("u1") != np.ascontiguousarray(w).view("u1"))) if a.shape == w.shape and a.dtype == w.dtype else -1
            ctx.violate(case, "large array parameter not read back bit-for-bit",
                        {"site": "roundtrip", "what": "bytes", "size": "big"},
                        observed={"dtype": str(a.dtype), "shape": list(a.shape), "differing_bytes": bad},
                        required={"dtype": str(w.dtype), "shape": list(w.shape)})
    for _ in range(ctx.n(6, 24)):
        n = rng.choice([12, 96, 1024, 4096, 200000])
        dt = rng.choice(["<f8", "<f4", "<i4"])
        how = rng.choice(["ones", "zeros", "random"])
        base = {"ones": np.ones(n, dtype=dt), "zeros": np.zeros(n, dtype=dt)}.get(how)
        if base is None:
            base = np.frombuffer(np.random.default_rng(rng.randrange(2 ** 32)).bytes(n * np.dtype(dt).itemsize), dtype=dt).copy()
            if np.dtype(dt).kind == "f":
                base = np.nan_to_num(base, nan=0.5, posinf=1.0, neginf=-1.0)
        facts = [d for d in (2, 3, 4, 8, 16) if n % d == 0]
        d = rng.choice(facts)
        shapes = [(n,), (d, n // d), (n // d, d)]
        rng.shuffle(shapes)
        s1, s2 = shapes[0], shapes[1]
        same_view = rng.random() < 0.3
        a1 = base.reshape(s1)
        a2 = base.reshape(s2) if same_view else base.copy().reshape(s2)
        # same bytes, another dtype of the same width, in a third node
        other = {"<f8": "<i8", "<f4": "<i4", "<i4": "<f4"}[dt]
        a3 = base.copy().view(other)
        if np.dtype(other).kind == "f":
            a3 = np.nan_to_num(a3, nan=0.25, posinf=3.0, neginf=-3.0)
        case = {"op": "twin_tensors", "n": n, "dtype": dt, "pattern": how, "shapes": [list(s1), list(s2)],
                "same_buffer": same_view}
        ctx.case(case); ctx.count("twin_tensors"); ctx.count("twin_n_%d" % n)
        graph = nir.NIRGraph(nodes={"a": nir.Scale(scale=a1), "b": nir.Threshold(threshold=a2), "c": nir.Delay(delay=a3)},
                             edges=[("a", "b")] if s1 == s2 else [])
        target = rng.choice(["str", "path", "bytesio"])
        status, res = roundtrip(graph, target, tmpdir)
        if status != "ok":
            ctx.violate(case, f"twin tensors: {status}", {"site": "roundtrip", "what": status, "size": "twin"},
                        observed=err_name(res) if isinstance(res, Exception) else str(res)); continue
        for name, fld, want in (("a", "scale", a1), ("b", "threshold", a2), ("c", "delay", a3)):
            got = np.asarray(getattr(res.nodes[name], fld))
            if got.dtype != want.dtype or got.shape != want.shape or got.tobytes() != np.ascontiguousarray(want).tobytes():
                ctx.violate(case, f"parameter {name}.{fld} sharing its bytes with another parameter is not read back "
                            "with its own dtype, shape and bytes", {"site": "roundtrip", "what": "twin", "size": "twin"},
                            observed={"dtype": str(got.dtype), "shape": list(got.shape)},
                            required={"dtype": str(want.dtype), "shape": list(want.shape)})
                break



def fresh_types_diff(g, path=""):
    """the types of every node of the result equal those of a node constructed afresh from
    the same parameters"""
    import dataclasses
    import nir
    out = []
    for k, n in g.nodes.items():
        if isinstance(n, nir.NIRGraph):
            out += fresh_types_diff(n, f"{path}/{k}")
            continue
        kw = {f.name: getattr(n, f.name) for f in dataclasses.fields(n) if f.name not in ("input_type", "output_type")}
        if isinstance(n, (nir.Input,)):
            kw["input_type"] = n.input_type
        if isinstance(n, nir.Output):
            kw["output_type"] = n.output_type
        if isinstance(n, nir.Flatten):
            kw["input_type"] = n.input_type
        try:
            f = type(n)(**kw)
        except Exception as e:  # noqa
            out.append(f"{path}/{k}: fresh construction raised {type(e).__name__}")
            continue
        if not compare.num_equal(f.input_type, n.input_type) or not compare.num_equal(f.output_type, n.output_type):
            out.append(f"{path}/{k}: types differ from fresh construction")
    return out


def has_slash(g):
    for name, rec in g["nodes"]:
        if "/" in name:
            return True
        if rec["type"] == "NIRGraph" and has_slash(rec):
            return True
    return False


def model_tree(t):
    """raw traversal tree in the shape the model prints (physical string encoding flags dropped)"""
    if "g" in t:
        return {"g": [[k, model_tree(v)] for k, v in t["g"]]}
    d = t["ds"]
    if d["kind"] == "str":
        return {"ds": {"kind": "str", "shape": d["shape"], "v": d["v"]}}
    return {"ds": {"kind": "num", "dtype": d["dtype"], "shape": d["shape"], "x": d["x"]}}


def _run_main(ctx):
    import h5raw
    from core import run_graph_ops
    rng = ctx.rng
    cases, obs, reqs = [], [], []
    cases2, obs2, reqs2 = [], [], []
    tmpdir = tempfile.mkdtemp(prefix="nirverif-c01-", dir="/var/tmp")
    try:
        for i in range(ctx.n(300)):
            slash = (i % 10 == 0)
            g = gen.random_graph(rng, slash=slash, share_p=0.2)
            target = rng.choice(["str", "path", "bytesio"])
            case = {"op": "file_rt", "graph": g, "target": target}
            ctx.case(case); ctx.count("graphs"); ctx.count("target_" + target)
            try:
                graph = impl_construct(g)
            except Exception as e:  # noqa
                ctx.count("construct_rejected")
                continue
            edited = None
            if rng.random() < 0.3:
                # a port node whose *other* side was re-typed after construction (what inference does to an Input that is
                # the target of an edge): the file carries the port's own parameter - Input: input side, Output: output side
                import nir as _nir
                ports = [(k, n) for k, n in graph.nodes.items() if isinstance(n, (_nir.Input, _nir.Output))
                         and sum(1 for m in graph.nodes.values() if m is n) == 1]
                if ports:
                    k, n = rng.choice(ports)
                    other = np.array([rng.randrange(1, 9) for _ in range(rng.randrange(1, 4))])
                    if isinstance(n, _nir.Input):
                        n.output_type = {"output": other}; edited = (k, "input_type", "output_type", "input", "output")
                    else:
                        n.input_type = {"input": other}; edited = (k, "output_type", "input_type", "output", "input")
                    case["port_other_side_retyped"] = k; ctx.count("port_other_side_retyped")
            residue = None
            if target != "bytesio" and rng.random() < 0.35:
                import random as _random
                case["residue_seed"] = rng.randrange(2 ** 32)       # the path already holds an earlier, different file
                residue = residue_graph(_random.Random(case["residue_seed"]))
                ctx.count("path_held_an_earlier_file")
            status, res = roundtrip(graph, target, tmpdir, residue=residue)
            ctx.count(status)
            # correspondence: the model's file tree / rejection and the model's read-back
            c1 = {"op": "write", "graph": g, "version": "v"}
            if status == "write-rejected":
                cases.append(c1); obs.append({"rejected": True}); reqs.append(c1)
            elif target != "bytesio":
                import nir
                tree = model_tree(h5raw.traverse_file(os.path.join(tmpdir, "g.nir")))
                tree["g"] = [[k, (v if k != "version" else {"ds": {"kind": "str", "shape": [], "v": "v"}})] for k, v in tree["g"]]
                cases.append(c1); obs.append({"file": tree}); reqs.append(c1)
                c2 = {"op": "graph", "graph": g, "ops": ["file_rt"]}
                steps, _ = run_graph_ops(g, ["file_rt"])
                cases2.append(c2); obs2.append({"steps": steps}); reqs2.append(c2)
            if status == "write-rejected":
                continue         # outside the claim
            sig_name = "slash" if has_slash(g) else "plain"
            if status == "read-failed":
                ctx.violate(case, "write accepted the graph but read raised",
                            {"site": "read", "what": "raised", "names": sig_name, "err": err_name(res)},
                            observed=f"{type(res).__name__}: {res}")
                continue
            if edited is not None and edited[0] in res.nodes:
                k, own, oth, kown, koth = edited
                if not compare.num_equal(getattr(graph.nodes[k], own), getattr(res.nodes[k], own)):
                    ctx.violate(case, "a port node is not read back with its own parameter (the shape on its own side)",
                                {"site": "roundtrip", "what": "port-own-side", "names": sig_name},
                                observed=str(getattr(res.nodes[k], own)), required=str(getattr(graph.nodes[k], own)))
                # (a fresh port mirrors its parameter on the other side; compare the rest against that)
                setattr(graph.nodes[k], oth, {koth: getattr(graph.nodes[k], own)[kown]})
            diff = compare.graph_diff(graph, res, strict=False)
            if diff:
                ctx.violate(case, "read(write(g)) is not equivalent to g",
                            {"site": "roundtrip", "what": "diff", "names": sig_name,
                             "first": diff[0].split(":")[-1].strip()[:30]}, observed=diff[:5])
            ft = fresh_types_diff(res)
            if ft:
                ctx.violate(case, "types of the read graph differ from fresh construction",
                            {"site": "roundtrip", "what": "fresh-types"}, observed=ft[:5])
        # directed: legal corner shapes of annotated nodes (the empty, rank-0 shape in every container form), nested
        import nir as _nir
        for form in ("ndarray", "tuple", "dict"):
            empty = {"ndarray": np.array([], dtype=np.int64), "tuple": (), "dict": {"input": np.array([], dtype=np.int64)}}[form]
            case = {"op": "flatten_rank0_input", "form": form}
            ctx.case(case); ctx.count("directed_rank0_flatten")
            try:
                fl = _nir.Flatten(empty, 0, -1)
                inner = _nir.NIRGraph(nodes={"f": fl, "s": _nir.Scale(np.array(2.0))}, edges=[("f", "f"), ("s", "f.input")])
                g0 = _nir.NIRGraph(nodes={"sub": inner}, edges=[("sub.f", "sub")])
            except Exception:
                ctx.count("construct_rejected"); continue
            status, res = roundtrip(g0, rng.choice(["str", "bytesio"]), tmpdir)
            if status == "write-rejected":
                continue
            if status != "ok":
                ctx.violate(case, "write accepted the graph but read raised", {"site": "read", "what": "raised", "names": "plain",
                                                                              "err": err_name(res)}, observed=str(res)); continue
            diff = compare.graph_diff(g0, res, strict=False)
            if diff:
                ctx.violate(case, "read(write(g)) is not equivalent to g", {"site": "roundtrip", "what": "diff", "names": "plain",
                                                                           "first": diff[0].split(":")[-1].strip()[:30]}, observed=diff[:5])
        big_and_twins(ctx, tmpdir, big=False)
        ctx.compare("files", cases, obs, reqs)
        ctx.compare("files", cases2, obs2, reqs2)
    finally:
        import shutil
        shutil.rmtree(tmpdir, ignore_errors=True)


def run(ctx):
    _run_main(ctx)
    # history independence: the same call on a live graph object with a history of edits / calls and on a twin rebuilt
    # from its public state (harness/history.py)
    import history
    history.run(ctx, ["file_rt", "path_rt"], {"file_rt": "read(write(g)) of a graph object with a history", "path_rt": "read(write(g)) through a path of a graph object with a history"})
