"""C01 — HDF5 round trip returns an equivalent graph."""
import io
import os
import pathlib
import tempfile

import numpy as np

import compare
import gen
from canon import canon, err_name
from core import impl_construct, quiet


def roundtrip(graph, target, tmpdir):
    """write + read through a str path, a pathlib.Path or a BytesIO.  Returns
    ("ok", g2) | ("write-rejected", exc) | ("read-failed", exc)."""
    import nir
    if target == "bytesio":
        f = io.BytesIO()
    else:
        p = os.path.join(tmpdir, "g.nir")
        if os.path.exists(p):
            os.remove(p)
        f = p if target == "str" else pathlib.Path(p)
    try:
        nir.write(f, graph)
    except Exception as e:  # noqa
        return "write-rejected", e
    try:
        if target == "bytesio":
            f.seek(0)
        return "ok", nir.read(f)
    except Exception as e:  # noqa
        return "read-failed", e


def fresh_types_diff(g, path=""):
    """the types of every node of the result equal those of a node constructed afresh from
    the same parameters"""
    import dataclasses
    import nir
    out = []
    for k, n in g.nodes.items():
        if isinstance(n, nir.NIRGraph):
            out += fresh_types_diff(n, f"{path}/{k}")
            continue
        kw = {f.name: getattr(n, f.name) for f in dataclasses.fields(n) if f.name not in ("input_type", "output_type")}
        if isinstance(n, (nir.Input,)):
            kw["input_type"] = n.input_type
        if isinstance(n, nir.Output):
            kw["output_type"] = n.output_type
        if isinstance(n, nir.Flatten):
            kw["input_type"] = n.input_type
        try:
            f = type(n)(**kw)
        except Exception as e:  # noqa
            out.append(f"{path}/{k}: fresh construction raised {type(e).__name__}")
            continue
        if not compare.num_equal(f.input_type, n.input_type) or not compare.num_equal(f.output_type, n.output_type):
            out.append(f"{path}/{k}: types differ from fresh construction")
    return out


def has_slash(g):
    for name, rec in g["nodes"]:
        if "/" in name:
            return True
        if rec["type"] == "NIRGraph" and has_slash(rec):
            return True
    return False


def model_tree(t):
    """raw traversal tree in the shape the model prints (physical string encoding flags dropped)"""
    if "g" in t:
        return {"g": [[k, model_tree(v)] for k, v in t["g"]]}
    d = t["ds"]
    if d["kind"] == "str":
        return {"ds": {"kind": "str", "shape": d["shape"], "v": d["v"]}}
    return {"ds": {"kind": "num", "dtype": d["dtype"], "shape": d["shape"], "x": d["x"]}}


def run(ctx):
    import h5raw
    from core import run_graph_ops
    rng = ctx.rng
    cases, obs, reqs = [], [], []
    cases2, obs2, reqs2 = [], [], []
    tmpdir = tempfile.mkdtemp(prefix="nirverif-c01-", dir="/var/tmp")
    try:
        for i in range(ctx.n(300)):
            slash = (i % 10 == 0)
            g = gen.random_graph(rng, slash=slash)
            target = rng.choice(["str", "path", "bytesio"])
            case = {"op": "file_rt", "graph": g, "target": target}
            ctx.case(case); ctx.count("graphs"); ctx.count("target_" + target)
            try:
                graph = impl_construct(g)
            except Exception as e:  # noqa
                ctx.count("construct_rejected")
                continue
            status, res = roundtrip(graph, target, tmpdir)
            ctx.count(status)
            # correspondence: the model's file tree / rejection and the model's read-back
            c1 = {"op": "write", "graph": g, "version": "v"}
            if status == "write-rejected":
                cases.append(c1); obs.append({"rejected": True}); reqs.append(c1)
            elif target != "bytesio":
                import nir
                tree = model_tree(h5raw.traverse_file(os.path.join(tmpdir, "g.nir")))
                tree["g"] = [[k, (v if k != "version" else {"ds": {"kind": "str", "shape": [], "v": "v"}})] for k, v in tree["g"]]
                cases.append(c1); obs.append({"file": tree}); reqs.append(c1)
                c2 = {"op": "graph", "graph": g, "ops": ["file_rt"]}
                steps, _ = run_graph_ops(g, ["file_rt"])
                cases2.append(c2); obs2.append({"steps": steps}); reqs2.append(c2)
            if status == "write-rejected":
                continue         # outside the claim
            sig_name = "slash" if has_slash(g) else "plain"
            if status == "read-failed":
                ctx.violate(case, "write accepted the graph but read raised",
                            {"site": "read", "what": "raised", "names": sig_name, "err": err_name(res)},
                            observed=f"{type(res).__name__}: {res}")
                continue
            diff = compare.graph_diff(graph, res, strict=False)
            if diff:
                ctx.violate(case, "read(write(g)) is not equivalent to g",
                            {"site": "roundtrip", "what": "diff", "names": sig_name,
                             "first": diff[0].split(":")[-1].strip()[:30]}, observed=diff[:5])
            ft = fresh_types_diff(res)
            if ft:
                ctx.violate(case, "types of the read graph differ from fresh construction",
                            {"site": "roundtrip", "what": "fresh-types"}, observed=ft[:5])
        ctx.compare("files", cases, obs, reqs)
        ctx.compare("files", cases2, obs2, reqs2)
    finally:
        import shutil
        shutil.rmtree(tmpdir, ignore_errors=True)
