"""C02 — tensor parameters survive serialisation bit-for-bit."""
import io
import itertools
import os
import pathlib
import tempfile

import numpy as np

import gen
from canon import build, err_name
from core import impl_construct
from props.c01 import roundtrip, big_and_twins

DTYPES = ["<f2", "<f4", "<f8", "|i1", "<i2", "<i4", "<i8", "|u1", "<u2", "<u4", "<u8", "|b1", "<c8", "<c16"]
LAYOUTS = [None, "F", "neg", "step", "T", "bcast"]


def special_bytes(rng, dt, n):
    """NaN payloads (quiet + signalling), signed zeros, subnormals, infinities, integer extremes"""
    d = np.dtype(dt)
    if d.kind == "b":
        return bytes(rng.randrange(2) for _ in range(n))
    if d.kind in "iu":
        info = np.iinfo(d)
        vals = [rng.choice([info.min, info.max, 0, -1 if info.min < 0 else 1, info.max - 1]) for _ in range(n)]
        return np.array(vals, dtype=d).tobytes()
    base = {2: "<u2", 4: "<u4", 8: "<u8"}[d.itemsize if d.kind == "f" else d.itemsize // 2]
    w = np.dtype(base).itemsize * 8
    exp_bits = {16: 5, 32: 8, 64: 11}[w]
    man = w - 1 - exp_bits
    pats = []
    for _ in range(n * (2 if d.kind == "c" else 1)):
        sign = rng.randrange(2) << (w - 1)
        c = rng.randrange(7)
        if c == 0:
            v = sign                                              # +-0
        elif c == 1:
            v = sign | rng.randrange(1, 1 << man)                 # subnormal
        elif c == 2:
            v = sign | (((1 << exp_bits) - 1) << man)             # +-inf
        elif c == 3:
            v = sign | (((1 << exp_bits) - 1) << man) | (1 << (man - 1)) | rng.randrange(0, 1 << (man - 1))  # qNaN payload
        elif c == 4:
            v = sign | (((1 << exp_bits) - 1) << man) | rng.randrange(1, 1 << (man - 1))                     # sNaN payload
        elif c == 5:
            v = rng.randrange(0, 1 << w)
        else:
            v = sign | ((((1 << exp_bits) - 2)) << man) | ((1 << man) - 1)   # largest finite
        pats.append(v)
    return np.array(pats, dtype=base).tobytes()


def arr_recipe(rng, shape, dt, layout, special, pattern=None):
    n = int(np.prod(shape)) if len(shape) else 1
    if pattern == "signed_zeros" and np.dtype(dt).kind in "fc":
        # nothing but zeros, at least one of them negative: `.any()` is False, the bytes are not all zero
        comp = n * (2 if np.dtype(dt).kind == "c" else 1)
        base = {2: "<f2", 4: "<f4", 8: "<f8"}[np.dtype(dt).itemsize // (2 if np.dtype(dt).kind == "c" else 1)]
        z = np.zeros(comp, dtype=base)
        for j in range(comp):
            if rng.random() < 0.5:
                z[j] = -0.0
        if comp:
            z[rng.randrange(comp)] = -0.0
        raw = z.tobytes()
    elif pattern in ("ones", "zeros", "signed_zeros"):
        # values that coincide with dataclass defaults / fill values must survive as well
        raw = (np.ones(n, dtype=np.dtype(dt)) if pattern == "ones" else np.zeros(n, dtype=np.dtype(dt))).tobytes()
    else:
        raw = special_bytes(rng, dt, n) if special else bytes(rng.randrange(256) for _ in range(n * np.dtype(dt).itemsize))
    if np.dtype(dt).kind == "b":
        raw = bytes(b & 1 for b in raw)
    if layout == "bcast" and n:
        raw = raw[:np.dtype(dt).itemsize] * n          # a broadcast view of one item
    j = {"a": dt, "sh": list(shape), "x": raw.hex()}
    if layout:
        j["layout"] = layout
    return j


def fields_with_shapes(rng, kind, rank):
    """array-valued fields of `kind` with mutually valid shapes of about the requested rank"""
    ax = lambda: rng.choice([0, 1, 2, 3]) if rng.random() < 0.15 else rng.randrange(1, 4)
    if kind in gen.ELEMENTWISE or kind == "CubaLIF":
        sh = [ax() for _ in range(rank)]
        names = gen.ELEMENTWISE.get(kind) or gen.CUBA
        return {f: sh for f in names}
    if kind in ("Affine", "Linear"):
        r = max(rank, 2)
        sh = [ax() for _ in range(r)]
        out = {"weight": sh}
        if kind == "Affine":
            out["bias"] = [ax() for _ in range(rng.randrange(0, 3))]
        return out
    if kind == "Conv1d":
        return {"weight": [rng.randrange(1, 3), rng.randrange(1, 3), rng.randrange(1, 4)], "bias": [ax() for _ in range(rank % 3)]}
    if kind == "Conv2d":
        return {"weight": [rng.randrange(1, 3), rng.randrange(1, 3), rng.randrange(1, 4), rng.randrange(1, 4)],
                "bias": [ax() for _ in range(rank % 3)]}
    if kind in ("SumPool2d", "AvgPool2d"):
        # array-valued hyper-parameters are array-valued fields too
        return {"kernel_size": [2], "stride": [2], "padding": [2]}
    raise ValueError(kind)


def rewrites(ctx, tmpdir):
    """Bit-exactness when it is not the first save: (a) ONE graph object written twice with a tensor changed in place in
    between (`w *= 2`, bytes flipped) - the second file must hold the tensor as it is now; (b) a path (or buffer) that
    already holds a file with the same node and field names, same shapes, but another dtype (wider, narrower, other
    kind) - the new file must hold the new dtype and bytes."""
    import nir
    rng = ctx.rng
    for _ in range(ctx.n(24, 120)):
        dt = rng.choice(["<f8", "<f4", "<f2", "<i8", "<i2", "|u1", "<c16"])
        sh = tuple(rng.randrange(1, 4) for _ in range(rng.randrange(1, 4)))
        if len(sh) < 2:
            sh = sh + (2,)
        seed = rng.randrange(2 ** 32)
        g0 = np.random.default_rng(seed)
        mk = lambda shape: (g0.integers(-60, 60, size=shape)).astype(dt)
        aff = nir.Affine(weight=mk(sh), bias=mk(sh[:-1]))
        thr = nir.Threshold(threshold=mk(sh[:-1]))
        inner = nir.NIRGraph(nodes={"aff": aff, "thr": thr}, edges=[("aff", "thr")])
        graph = nir.NIRGraph(nodes={"sub": inner}, edges=[]) if rng.random() < 0.4 else inner
        target = rng.choice(["str", "path", "bytesio"])
        how = rng.choice(["scale", "flip", "assign-slice"])
        case = {"op": "rewrite_after_inplace_change", "dtype": dt, "shape": list(sh), "seed": seed, "target": target, "how": how}
        ctx.case(case); ctx.count("rewrite_inplace")
        sig = {"site": "roundtrip", "what": "stale-after-inplace-change"}
        if target in ("bytesio", "same-bytesio"):
            f1 = io.BytesIO()
        else:
            p = os.path.join(tmpdir, "rw.nir")
            if os.path.exists(p):
                os.remove(p)
            f1 = p if target == "str" else pathlib.Path(p)
        try:
            nir.write(f1, graph)
            if rng.random() < 0.5:
                graph.to_dict()                       # an observer in between must not pin anything either
            for a in (aff.weight, aff.bias, thr.threshold):
                if how == "scale":
                    a *= 2
                elif how == "flip":
                    a.view("u1")[...] ^= 0x5A
                    if a.dtype.kind in "fc":
                        np.nan_to_num(a, copy=False, nan=1.25, posinf=2.0, neginf=-2.0)
                else:
                    a[..., 0] = a[..., -1] + 1
            f2 = f1
            if target == "bytesio":
                f2 = io.BytesIO()
            elif target == "same-bytesio":
                f1.seek(0)
            nir.write(f2, graph)
            if hasattr(f2, "seek"):
                f2.seek(0)
            back = nir.read(f2)
        except Exception as e:  # noqa
            ctx.violate(case, "re-saving a graph after an in-place parameter change raised", {**sig, "err": err_name(e)},
                        observed=f"{type(e).__name__}: {e}")
            continue
        b = back.nodes["sub"] if "sub" in back.nodes else back
        for name, fld, want in (("aff", "weight", aff.weight), ("aff", "bias", aff.bias), ("thr", "threshold", thr.threshold)):
            got = np.asarray(getattr(b.nodes[name], fld))
            if got.dtype != want.dtype or got.shape != want.shape or got.tobytes() != np.ascontiguousarray(want).tobytes():
                ctx.violate(case, f"second save of the same graph object does not hold {name}.{fld} as it is now "
                            "(changed in place after the first save)", sig,
                            observed={"dtype": str(got.dtype), "first": got.reshape(-1)[:4].tolist()},
                            required={"dtype": str(want.dtype), "first": np.asarray(want).reshape(-1)[:4].tolist()})
                break
    pairs = [("<f8", "<f2"), ("<f8", "<f4"), ("<f8", "<i8"), ("<i8", "|i1"), ("<c16", "<c8"), ("<f4", "<f8"), ("<i8", "<f8"),
             ("<u8", "<i2"), ("<f8", "|b1"), ("<i4", "<u4")]
    for _ in range(ctx.n(24, 120)):
        d1, d2 = rng.choice(pairs)
        sh = tuple(rng.randrange(1, 4) for _ in range(rng.randrange(0, 3)))
        seed = rng.randrange(2 ** 32)
        g0 = np.random.default_rng(seed)
        vals = {f: g0.integers(0, 2, size=sh) if "b1" in (d1, d2) else g0.integers(-100, 100, size=sh) * (1 if rng.random() < 0.5 else 2 ** 53 + 1)
                for f in ("tau", "r", "v_leak", "v_threshold")}
        mk = lambda d: nir.NIRGraph(nodes={"lif": nir.LIF(**{f: np.asarray(v).astype(d) for f, v in vals.items()}),
                                           "w": nir.Linear(weight=np.asarray(g0.integers(-9, 9, size=(2, 3))).astype(d))},
                                    edges=[("lif", "lif")])
        first, second = mk(d1), mk(d2)
        target = rng.choice(["str", "path"])
        case = {"op": "rewrite_other_dtype", "first": d1, "second": d2, "shape": list(sh), "seed": seed, "target": target}
        ctx.case(case); ctx.count("rewrite_other_dtype")
        sig = {"site": "roundtrip", "what": "residue-of-earlier-dtype"}
        if target == "same-bytesio":
            f = io.BytesIO()
        else:
            p = os.path.join(tmpdir, "rw2.nir")
            if os.path.exists(p):
                os.remove(p)
            f = p if target == "str" else pathlib.Path(p)
        try:
            nir.write(f, first)
            if hasattr(f, "seek"):
                f.seek(0)
            nir.write(f, second)
            if hasattr(f, "seek"):
                f.seek(0)
            back = nir.read(f)
        except Exception as e:  # noqa
            ctx.violate(case, "saving over an existing file raised", {**sig, "err": err_name(e)}, observed=f"{type(e).__name__}: {e}")
            continue
        if target != "same-bytesio" and rng.random() < 0.6:
            # the consumer edits what it has read, in place, without saving; the path still holds the second graph
            try:
                for name, flds in (("lif", ("tau", "r", "v_leak", "v_threshold")), ("w", ("weight",))):
                    for fld in flds:
                        a = getattr(back.nodes[name], fld)
                        if isinstance(a, np.ndarray) and a.ndim >= 1 and a.flags.writeable:
                            a[...] = a * 0 + 1
                back = nir.read(f)
                ctx.count("reread_after_inplace_edit_of_result")
            except Exception as e:  # noqa
                ctx.violate(case, "re-reading a path after editing an earlier result raised", {**sig, "err": err_name(e)},
                            observed=f"{type(e).__name__}: {e}")
                continue
        for name, flds in (("lif", ("tau", "r", "v_leak", "v_threshold")), ("w", ("weight",))):
            for fld in flds:
                want = np.asarray(getattr(second.nodes[name], fld)); got = np.asarray(getattr(back.nodes[name], fld))
                if got.dtype != want.dtype or got.shape != want.shape or got.tobytes() != want.tobytes():
                    ctx.violate(case, f"{name}.{fld} saved over an earlier file of dtype {d1} is not read back with its own "
                                f"dtype {d2} and bytes", sig, observed={"dtype": str(got.dtype)}, required={"dtype": str(want.dtype)})
                    break


KINDS = list(gen.ELEMENTWISE) + ["CubaLIF", "Affine", "Linear", "Conv1d", "Conv2d", "SumPool2d", "AvgPool2d"]


def _run_main(ctx):
    from core import run_graph_ops
    rng = ctx.rng
    cases, obs, reqs = [], [], []
    tmpdir = tempfile.mkdtemp(prefix="nirverif-c02-", dir="/var/tmp")
    try:
        combos = list(itertools.product(KINDS, DTYPES, range(0, 6)))
        if ctx.tier == "quick":
            combos = rng.sample(combos, 260)
        else:
            ctx.exhaustive_parts.append("every primitive with array fields x 14 dtypes x rank 0..5 (layout, pattern sampled)")
        for kind, dt, rank in combos:
            layout = rng.choice(LAYOUTS)
            special = rng.random() < 0.6
            shapes = fields_with_shapes(rng, kind, rank)
            kw = []
            pattern = rng.choice([None, None, None, "ones", "zeros", "signed_zeros"])
            ctx.count("pattern_%s" % pattern)
            for f, sh in shapes.items():
                d = dt
                if kind == "Affine" and f == "bias" and rng.random() < 0.5:
                    d = rng.choice(["<f8", "<f4", "<f2", "<i8", "<c16"])      # the bias has a dtype of its own
                if kind in ("SumPool2d", "AvgPool2d") and np.dtype(dt).kind not in "iu":
                    d = ["|i1", "<i2", "<i4", "<i8", "|u1", "<u2", "<u4", "<u8"][(DTYPES.index(dt) + rank) % 8]
                if kind == "CubaLIF" and np.dtype(dt).kind not in "fc":
                    d = "<f8" if f == "v_threshold" else dt
                kw.append([f, arr_recipe(rng, sh, d, layout if len(sh) >= 1 else None, special, pattern)])
            if kind == "CubaLIF" and rng.random() < 0.6:
                # an explicit input weight, in a dtype of its own, sometimes equal to the default value 1.0
                vth_dt = next(v["a"] for k_, v in kw if k_ == "v_threshold")
                wd = rng.choice(["<f8", "<f4", "<f2", "<c8", "<i8", vth_dt, vth_dt])
                wsh = list(shapes["v_threshold"])
                # (uniform weights - all ones, all zeros, zeros of mixed sign - are tensors like any other)
                kw.append(["w_in", arr_recipe(rng, wsh, wd, None, False, rng.choice(["ones", "ones", None, "signed_zeros", "zeros", "signed_zeros"]))])
            if kind == "Conv1d":
                kw += [["input_shape", None], ["stride", gen.pyint(1)], ["padding", gen.pyint(0)], ["dilation", gen.pyint(1)], ["groups", gen.pyint(1)]]
            if kind == "Conv2d":
                kw += [["input_shape", None], ["stride", gen.pyint(1)], ["padding", gen.pyint(0)], ["dilation", gen.pyint(1)], ["groups", gen.pyint(1)]]
            rec = {"type": kind, "kwargs": kw}
            if kind in ("Conv1d", "Conv2d"):
                # file form cannot carry None: give a concrete input shape
                k = shapes["weight"][2:]
                ish = gen.pyint(7) if kind == "Conv1d" else {"t": [gen.pyint(7), gen.pyint(8)]}
                rec["kwargs"] = [[a, (ish if a == "input_shape" else b)] for a, b in kw]
            depth = rng.randrange(0, 3)
            g = {"type": "NIRGraph", "nodes": [["n", rec]], "edges": [], "meta": None}
            for _ in range(depth):
                g = {"type": "NIRGraph", "nodes": [["sub", g]], "edges": [], "meta": None}
            target = rng.choice(["str", "path", "bytesio"])
            case = {"op": "bits", "graph": g, "target": target}
            ctx.case(case); ctx.count("dtype_" + dt); ctx.count("rank_%d" % rank); ctx.count("layout_%s" % layout)
            ctx.count("kind_" + kind)
            try:
                graph = impl_construct(g)
            except Exception as e:  # noqa
                ctx.count("construct_rejected"); continue
            node = graph
            for _ in range(depth):
                node = node.nodes["sub"]
            node = node.nodes["n"]
            before = {f: (np.asarray(getattr(node, f)).dtype, np.asarray(getattr(node, f)).shape,
                          np.ascontiguousarray(getattr(node, f)).tobytes()) for f in list(shapes) + (["w_in"] if kind == "CubaLIF" else [])}
            status, res = roundtrip(graph, target, tmpdir)
            if len(cases) < 120:
                c2 = {"op": "graph", "graph": g, "ops": ["file_rt"]}
                st2, _ = run_graph_ops(g, ["file_rt"])
                cases.append(c2); obs.append({"steps": st2}); reqs.append(c2)
            if status == "write-rejected":
                ctx.count("write_rejected"); continue
            if status == "read-failed":
                ctx.violate(case, "write accepted the parameters but read raised", {"site": "read", "what": "raised"},
                            observed=err_name(res)); continue
            node2 = res
            for _ in range(depth):
                node2 = node2.nodes["sub"]
            node2 = node2.nodes["n"]
            for f, (d0, s0, b0) in before.items():
                a = np.asarray(getattr(node2, f))
                b1 = np.ascontiguousarray(a).tobytes()
                if a.dtype != d0 or a.shape != s0 or b1 != b0:
                    what = "dtype" if a.dtype != d0 else "shape" if a.shape != s0 else "bytes"
                    ctx.violate(case, f"array parameter {kind}.{f} not read back bit-for-bit ({what} differs)",
                                {"site": "roundtrip", "what": what, "rank0": len(s0) == 0, "kind_class": d0.kind},
                                observed={"dtype": str(a.dtype), "shape": list(a.shape)},
                                required={"dtype": str(d0), "shape": list(s0)})
                    break
        # directed: CubaLIF input weights that are "uniform" to a value comparison but not bit for bit (zeros of mixed sign),
        # or uniform outright, in the parameters' own dtype and shape - tensors like any other
        import nir
        for wdt in ("<f8", "<f4", "<f2", "<c16"):
            for pat in ("signed_zeros", "zeros", "ones"):
                sh = [rng.randrange(2, 4)] + ([rng.randrange(1, 3)] if rng.random() < 0.5 else [])
                n = int(np.prod(sh))
                pdt = wdt if wdt != "<c16" else "<f8"
                prm = lambda: np.frombuffer(bytes.fromhex(arr_recipe(rng, sh, pdt, None, False, None)["x"]), dtype=pdt).reshape(sh).copy()
                w = np.frombuffer(bytes.fromhex(arr_recipe(rng, sh, wdt, None, False, pat)["x"]), dtype=wdt).reshape(sh).copy()
                if pat == "signed_zeros":
                    flat = w.reshape(-1)
                    flat[0] = 0.0; flat[-1] = -0.0            # mixed signs, whichever element comes first
                case = {"op": "bits_cuba_uniform_w_in", "dtype": wdt, "pattern": pat, "shape": sh}
                ctx.case(case); ctx.count("cuba_uniform_w_in")
                try:
                    vth = np.nan_to_num(np.abs(prm()), nan=1.0, posinf=1.0, neginf=1.0) + 1
                    node = nir.CubaLIF(tau_syn=np.nan_to_num(prm(), nan=1.0, posinf=1.0, neginf=1.0), tau_mem=np.nan_to_num(prm(), nan=1.0, posinf=1.0, neginf=1.0),
                                       r=np.nan_to_num(prm(), nan=1.0, posinf=1.0, neginf=1.0), v_leak=np.nan_to_num(prm(), nan=1.0, posinf=1.0, neginf=1.0),
                                       v_threshold=vth.astype(pdt), w_in=w.astype(pdt) if (wdt != "<c16" and rng.random() < 0.7) else w)
                except Exception:
                    ctx.count("construct_rejected"); continue
                want = np.asarray(node.w_in)
                b0 = (want.dtype, want.shape, np.ascontiguousarray(want).tobytes())
                for how in ("file", "dict"):
                    try:
                        g0 = nir.NIRGraph(nodes={"n": node}, edges=[])
                        if how == "file":
                            status, res = roundtrip(g0, rng.choice(["str", "bytesio"]), tmpdir)
                            if status != "ok":
                                continue
                        else:
                            res = nir.NIRGraph.from_dict(g0.to_dict())
                        a = np.asarray(res.nodes["n"].w_in)
                    except Exception as e:  # noqa
                        ctx.violate(case, f"CubaLIF with a uniform input weight: {how} round trip raised", {"site": "roundtrip", "what": "raised"},
                                    observed=err_name(e)); break
                    if (a.dtype, a.shape, np.ascontiguousarray(a).tobytes()) != b0:
                        ctx.violate(case, f"array parameter CubaLIF.w_in not read back bit-for-bit ({how} round trip; uniform weights)",
                                    {"site": "roundtrip", "what": "bytes", "rank0": False, "kind_class": want.dtype.kind},
                                    observed={"dtype": str(a.dtype), "first": a.reshape(-1)[:4].tolist()},
                                    required={"dtype": str(want.dtype), "first": want.reshape(-1)[:4].tolist()})
                        break
        # two fields of one node in different precisions (a float32 / float16 weight next to a float64 bias holding values
        # the narrower type cannot represent): each comes back in its own dtype
        import nir
        for wdt, bdt in (("<f4", "<f8"), ("<f2", "<f8"), ("<f2", "<f4"), ("<f8", "<f4"), ("<f4", "<c16"), ("<i2", "<f8")):
            m_, n_ = rng.randrange(1, 4), rng.randrange(1, 4)
            w = (np.arange(m_ * n_).reshape(m_, n_) / 8).astype(wdt)
            bvals = np.array([rng.choice([0.1, 1e-300, 1 / 3, 1e300, 16777217.0]) for _ in range(m_)]).astype(bdt)
            case = {"op": "bits_mixed_precision", "weight": wdt, "bias": bdt}
            ctx.case(case); ctx.count("mixed_precision_affine")
            try:
                g0 = nir.NIRGraph(nodes={"n": nir.Affine(weight=w, bias=bvals)}, edges=[])
                outs = {"file": roundtrip(g0, rng.choice(["str", "bytesio"]), tmpdir), "dict": ("ok", nir.NIRGraph.from_dict(g0.to_dict()))}
            except Exception as e:  # noqa
                ctx.violate(case, "Affine with weight and bias of different precision: round trip raised",
                            {"site": "roundtrip", "what": "raised"}, observed=err_name(e)); continue
            for how, (status, res) in outs.items():
                if status != "ok":
                    continue
                for fld, want in (("weight", w), ("bias", bvals)):
                    a = np.asarray(getattr(res.nodes["n"], fld))
                    if a.dtype != want.dtype or a.shape != want.shape or a.tobytes() != want.tobytes():
                        ctx.violate(case, f"array parameter Affine.{fld} not read back bit-for-bit ({how} round trip; weight {wdt}, bias {bdt})",
                                    {"site": "roundtrip", "what": "dtype" if a.dtype != want.dtype else "bytes", "rank0": False,
                                     "kind_class": want.dtype.kind}, observed={"dtype": str(a.dtype)}, required={"dtype": str(want.dtype)})
                        break
        # rank-0 parameters given as numpy *scalars* of every dtype, and the second generation (write, read, write,
        # read: what a tool that loads, edits metadata and saves does) - dtype and bytes stay what they were
        for dt0 in DTYPES:
            if np.dtype(dt0).kind not in "fiuc" or np.dtype(dt0).byteorder == ">":
                continue
            val = np.frombuffer(bytes.fromhex(arr_recipe(rng, [], dt0, None, True, None)["x"]), dtype=dt0)[0]
            kind0 = rng.choice(["Scale", "Threshold", "Delay", "I"])
            fld = {"Scale": "scale", "Threshold": "threshold", "Delay": "delay", "I": "r"}[kind0]
            as_scalar = rng.random() < 0.5
            case = {"op": "bits_rank0_generations", "dtype": dt0, "kind": kind0, "numpy_scalar": as_scalar}
            ctx.case(case); ctx.count("rank0_generations")
            try:
                node = getattr(nir, kind0)(**{fld: (val if as_scalar else np.array(val))})
                g0 = nir.NIRGraph(nodes={"n": node}, edges=[])
            except Exception:
                ctx.count("construct_rejected"); continue
            want = (np.asarray(val).dtype, np.asarray(val).tobytes())
            cur = g0
            for gen_no in (1, 2):
                status, res = roundtrip(cur, rng.choice(["str", "bytesio"]), tmpdir)
                if status == "write-rejected":
                    break
                if status != "ok":
                    ctx.violate(case, "write accepted the parameters but read raised", {"site": "read", "what": "raised"},
                                observed=err_name(res)); break
                a = np.asarray(getattr(res.nodes["n"], fld))
                if (a.dtype, a.tobytes()) != want or a.shape != ():
                    ctx.violate({**case, "generation": gen_no}, f"rank-0 parameter {kind0}.{fld} not read back bit-for-bit "
                                f"(generation {gen_no})", {"site": "roundtrip", "what": "dtype" if a.dtype != want[0] else "bytes",
                                                           "rank0": True, "kind_class": want[0].kind},
                                observed={"dtype": str(a.dtype), "shape": list(a.shape)}, required={"dtype": str(want[0]), "shape": []})
                    break
                cur = res
        big_and_twins(ctx, tmpdir)
        rewrites(ctx, tmpdir)
        ctx.compare("files", cases, obs, reqs)
    finally:
        import shutil
        shutil.rmtree(tmpdir, ignore_errors=True)


def run(ctx):
    _run_main(ctx)
    # history independence: the same call on a live graph object with a history of edits / calls and on a twin rebuilt
    # from its public state (harness/history.py)
    import history
    history.run(ctx, ["file_rt", "path_rt"], {"file_rt": "the parameters read back from a graph object with a history", "path_rt": "the parameters read back (through a path) from a graph object with a history"})
