"""C10 — inference terminates and is non-destructive on every topology."""
import itertools
import multiprocessing as mp
import signal

import numpy as np

import compare
import gen
from canon import canon, canon_node, err_name
from core import impl_construct, quiet, run_graph_ops

ARCHETYPES = ["in2", "in23", "scale2", "scale23", "flat", "out_none", "out2", "conv", "pool"]


def archetype(rng, a):
    if a == "in2":
        return {"type": "Input", "kwargs": [["input_type", gen.shape_arg(rng, [2], "input")]]}
    if a == "in23":
        return {"type": "Input", "kwargs": [["input_type", gen.shape_arg(rng, [1, 5, 5], "input")]]}
    if a == "scale2":
        return {"type": "Scale", "kwargs": [["scale", gen.arr(rng, [2])]]}
    if a == "scale23":
        return {"type": "LIF", "kwargs": [[f, gen.arr(rng, [1, 5, 5])] for f in ("tau", "r", "v_leak", "v_threshold")]}
    if a == "flat":
        return {"type": "Flatten", "kwargs": [["input_type", None], ["start_dim", gen.pyint(0)], ["end_dim", gen.pyint(-1)]]}
    if a == "out_none":
        return {"type": "Output", "kwargs": [["output_type", None]]}
    if a == "out2":
        return {"type": "Output", "kwargs": [["output_type", gen.shape_arg(rng, [2], "output")]]}
    if a == "conv":
        return {"type": "Conv2d", "kwargs": [["input_shape", None], ["weight", gen.arr(rng, [2, 1, 3, 2])],
                                             ["stride", gen.pyint(1)], ["padding", gen.pyint(1)], ["dilation", gen.pyint(1)],
                                             ["groups", gen.pyint(1)], ["bias", gen.arr(rng, [2])]]}
    if a == "pool":
        return {"type": "SumPool2d", "kwargs": [["kernel_size", gen.pyint(2)], ["stride", gen.pyint(2)], ["padding", gen.pyint(0)]]}
    raise ValueError(a)


class Hang(Exception):
    pass


def _alarm(signum, frame):
    raise Hang()


def bounded_infer(graph, seconds=5):
    """bounded call of infer_types (termination is observed, not assumed).  The bound is on the *CPU time of this process*
    (ITIMER_PROF), so that a loaded machine cannot turn a slow call into a reported hang; a wall-clock alarm twenty times as
    long catches a call that blocks without computing."""
    old = signal.signal(signal.SIGALRM, _alarm)
    old_prof = signal.signal(signal.SIGPROF, _alarm)
    signal.alarm(int(seconds * 20))
    signal.setitimer(signal.ITIMER_PROF, float(seconds))
    try:
        with quiet():
            graph.infer_types()
        return None
    except Hang:
        raise
    except Exception as e:  # noqa
        return err_name(e)
    finally:
        signal.setitimer(signal.ITIMER_PROF, 0)
        signal.alarm(0)
        signal.signal(signal.SIGPROF, old_prof)
        signal.signal(signal.SIGALRM, old)


def reachable(g):
    import nir
    seen = {k for k, n in g.nodes.items() if type(n) is nir.Input}
    start = set(seen)
    changed = True
    reached = set()
    while changed:
        changed = False
        for a, b in g.edges:
            if a in seen and b not in reached:
                reached.add(b); seen.add(b); changed = True
    return start, reached


def frame_snapshot(g):
    """everything inference must not touch: parameters, identity, names, edges, metadata"""
    import dataclasses
    out = {"edges": [tuple(e) for e in g.edges], "names": list(g.nodes.keys()), "ids": [id(n) for n in g.nodes.values()],
           "meta": compare.snapshot(g.metadata), "nodes": {}}
    for k, n in g.nodes.items():
        fields = {}
        for f in dataclasses.fields(n):
            if f.name in ("input_type", "output_type"):
                continue
            fields[f.name] = compare.snapshot(getattr(n, f.name))
        out["nodes"][k] = fields
    return out


def types_snapshot(g):
    return {k: (canon(n.input_type), canon(n.output_type), canon(getattr(n, "input_shape", None)))
            for k, n in g.nodes.items()}


def check_one(ctx, g, label, cases, obs, reqs, edit=None, seconds=5):
    """`edit` = (description, function): the graph object is modified through its public attributes after
    construction and before inference (the model comparison is skipped then)"""
    import nir
    case = {"op": "graph", "graph": g, "ops": ["infer", "infer"]}
    if edit is not None:
        case["edited_after_construction"] = edit[0]
    ctx.case(case); ctx.count(label)
    try:
        graph = impl_construct(g)
        if edit is not None:
            edit[1](graph)
    except Exception:
        ctx.count("construct_rejected")
        return
    before = frame_snapshot(graph)
    types0 = types_snapshot(graph)
    start, reach = reachable(graph)
    sig = {"site": "infer_types"}
    try:
        err = bounded_infer(graph, seconds)
    except Hang:
        ctx.violate(case, "infer_types did not terminate within %d s of CPU time" % seconds, {**sig, "what": "hang"})
        return
    ctx.count("raised" if err else "inferred")
    if edit is not None and err is not None and edit[0].get("must_succeed"):
        ctx.violate(case, "infer_types raised on a consistent graph", {**sig, "what": "raised", "err": err}, observed=err)
        return
    after = frame_snapshot(graph)
    # the only field inference may set is an undefined Conv input_shape
    for k in before["nodes"]:
        b, a = before["nodes"][k], after["nodes"].get(k)
        if a is None:
            continue
        if "input_shape" in b and b["input_shape"] == ("NoneType", None):
            b = dict(b); a = dict(a); b.pop("input_shape"); a.pop("input_shape")
        if a != b:
            ctx.violate(case, "infer_types changed a parameter / hyper-parameter / metadata of a node",
                        {**sig, "what": "frame-field", "kind": type(graph.nodes[k]).__name__}, observed=k)
            return
    if (before["edges"], before["names"], before["ids"], before["meta"]) != \
            (after["edges"], after["names"], after["ids"], after["meta"]):
        what = "edges" if before["edges"] != after["edges"] else "names" if before["names"] != after["names"] else \
            "identity" if before["ids"] != after["ids"] else "metadata"
        ctx.violate(case, f"infer_types changed the graph's {what}", {**sig, "what": "frame-" + what})
        return
    types1 = types_snapshot(graph)
    untouched = [k for k in types0 if k not in reach and types0[k] != types1.get(k)]
    if untouched:
        ctx.violate(case, "infer_types touched a node that is not reachable from an Input", {**sig, "what": "unreachable-touched"},
                    observed=untouched)
        return
    if err is None:
        def undef(t):
            return t is None or any(v is None for v in t.values())
        undefined = [k for k in reach if k in graph.nodes and not isinstance(graph.nodes[k], nir.NIRGraph)
                     and (undef(graph.nodes[k].input_type) or undef(graph.nodes[k].output_type))]
        if undefined:
            ctx.violate(case, "a node reachable from an Input was left without a type", {**sig, "what": "reach-undefined"},
                        observed=undefined)
            return
        try:
            err2 = bounded_infer(graph, seconds)
        except Hang:
            ctx.violate(case, "second infer_types did not terminate within %d s of CPU time" % seconds, {**sig, "what": "hang"})
            return
        types2 = types_snapshot(graph)
        if err2 is not None or types2 != types1 or frame_snapshot(graph) != after:
            ctx.violate(case, "running infer_types a second time changed something", {**sig, "what": "idempotent"},
                        observed={"err": err2, "changed": [k for k in types1 if types1[k] != types2.get(k)]})
            return
    if edit is not None:
        return
    steps, _ = run_graph_ops(g, ["infer", "infer"])
    cases.append(case); obs.append({"steps": steps}); reqs.append(case)


def _run_main(ctx):
    rng = ctx.rng
    cases, obs, reqs = [], [], []
    # exhaustive small scope: all multigraphs on <=2 nodes (thorough: 3) over 9 archetypes with <=2 edges
    maxn = 3 if ctx.tier == "thorough" else 2
    maxe = 2
    count = 0
    for n in range(1, maxn + 1):
        names = [f"n{i}" for i in range(n)]
        pairs = list(itertools.product(names, repeat=2))
        for archs in itertools.product(ARCHETYPES, repeat=n):
            if "in2" not in archs and "in23" not in archs:
                continue
            for k in range(0, maxe + 1):
                for edges in itertools.product(pairs, repeat=k):
                    if ctx.tier == "quick" and n == 2 and k == 2 and rng.random() < 0.7:
                        continue
                    if ctx.tier == "thorough" and n == 3 and rng.random() < 0.9:
                        continue
                    g = {"type": "NIRGraph", "nodes": [[nm, archetype(rng, a)] for nm, a in zip(names, archs)],
                         "edges": [list(e) for e in edges], "meta": None}
                    check_one(ctx, g, "enum", cases, obs, reqs)
                    count += 1
    ctx.exhaustive_parts.append("multigraphs over 9 node archetypes on <=2 nodes with <=2 edges "
                                "(quick: 30% of the 2-edge ones; thorough adds a 10% sample of 3-node graphs)")
    # random consistent graphs with cycles etc., all edge permutations of small ones
    for i in range(ctx.n(120)):
        g, truth, erased = gen.consistent_graph(rng, max_nodes=7)
        check_one(ctx, g, "consistent", cases, obs, reqs)
        if len(g["edges"]) <= 4 and i % 4 == 0:
            for perm in itertools.permutations(g["edges"]):
                g2 = dict(g); g2["edges"] = [list(e) for e in perm]
                check_one(ctx, g2, "edge_permutation", cases, obs, reqs)
    # arbitrary (inconsistent) graphs: unreachable components, dangling edges, nested graphs
    for i in range(ctx.n(120)):
        g = gen.random_graph(rng, maxdepth=1, meta_p=0.2)
        if rng.random() < 0.7:
            g["nodes"].insert(0, ["src", {"type": "Input", "kwargs": [["input_type", gen.shape_arg(rng, gen.shape(rng, rank=rng.randrange(1, 4)), "input")]]}])
            names = [n for n, _ in g["nodes"]]
            for _ in range(rng.randrange(1, 4)):
                g["edges"].append(["src", rng.choice(names)])
        check_one(ctx, g, "arbitrary", cases, obs, reqs)
    # graphs edited after construction: a second component (own Input, erased Conv / Flatten / Output) is added through
    # graph.nodes / graph.edges, or an Input is removed, before inference is asked for
    import nir
    for i in range(ctx.n(40)):
        g, truth, erased = gen.consistent_graph(rng, max_nodes=5)
        g2, truth2, erased2 = gen.consistent_graph(rng, max_nodes=4)
        ren = lambda x: "z_" + x
        extra_nodes = [[ren(n), r] for n, r in g2["nodes"]]
        extra_edges = [[ren(a), ren(b)] for a, b in g2["edges"]]

        def add_component(graph, extra_nodes=extra_nodes, extra_edges=extra_edges):
            for n, r in extra_nodes:
                graph.nodes[n] = impl_construct(r)
            for a, b in extra_edges:
                graph.edges.append((a, b))
        check_one(ctx, g, "edited_add_component", cases, obs, reqs,
                  edit=({"added_nodes": extra_nodes, "added_edges": extra_edges}, add_component))
    # graphs rewired *in place* between two inferences (same edge-list object, same length), and graphs that come
    # from from_list (whose automatic Output shares its type dictionary with the last node) and are then extended
    from core import quiet
    for i in range(ctx.n(40)):
        sh = gen.shape(rng, rank=rng.randrange(1, 3), hi=5)
        mk = lambda: impl_construct(gen.node_recipe(rng, rng.choice(["Scale", "Threshold", "LIF"]), sh=list(sh), dtype="<f8", meta_p=0))
        case = {"op": "rewire_in_place", "shape": sh, "variant": i % 2}
        ctx.case(case); ctx.count("rewired")
        try:
            if i % 2 == 0:
                g = nir.NIRGraph(nodes={"in": nir.Input(np.array(sh)), "a": mk(), "b": mk(), "c": mk(), "out": nir.Output(None)},
                                 edges=[("in", "a"), ("a", "b"), ("b", "out")])
                bounded_infer(g)
                g.nodes["c"].input_type = {"input": None}        # c has not been looked at yet
                g.edges[1] = ("a", "c"); g.edges[2] = ("c", "out")
                must_reach, must_not = ["a", "c", "out"], "b"
            else:
                other = [x + 1 for x in sh]
                g = nir.NIRGraph.from_list(nir.Affine(weight=np.ones((4, sh[-1])), bias=np.ones(4)))
                g.nodes["wide"] = nir.Affine(weight=np.ones((5, sh[-1])), bias=np.ones(5))
                g.edges[:] = [("input", "wide"), ("wide", "output")]
                must_reach, must_not = ["wide", "output"], "affine"
            before = types_snapshot(g)[must_not]
            err = bounded_infer(g)
        except Hang:
            ctx.violate(case, "infer_types did not terminate", {"site": "infer_types", "what": "hang"}); continue
        except Exception as e:  # noqa
            ctx.count("rewire_setup_failed"); continue
        after = types_snapshot(g)
        undefined = [k for k in must_reach if after[k][0] in (None, {"d": [["input", None]]}) or after[k][1] in (None, {"d": [["output", None]]})]
        if err is None and undefined:
            ctx.violate(case, "a node reachable from an Input was left without a type after the graph was rewired in place",
                        {"site": "infer_types", "what": "reach-undefined", "edit": "rewire"}, observed=undefined)
        elif after[must_not] != before:
            ctx.violate(case, "infer_types touched a node that is not reachable from an Input (after rewiring)",
                        {"site": "infer_types", "what": "unreachable-touched", "edit": "rewire"},
                        observed={"node": must_not, "before": before, "after": after[must_not]})
    # corner shapes in front of nodes typed by inference: the rank-0 (empty) shape, unit axes, a single axis - with every
    # sign convention of the Flatten dims (termination is observed under the watchdog)
    for _ in range(ctx.n(30, 150)):
        sh = rng.choice([[], [], [1], [1, 1], [5], [1, 3, 1]])
        sd = rng.choice([0, 0, -1, 1, -2]); ed = rng.choice([-1, -1, 0, -2, 1])
        case = {"op": "corner_shape_flatten", "shape": sh, "start_dim": sd, "end_dim": ed}
        ctx.case(case); ctx.count("corner_shape_flatten")
        as_lists = rng.random() < 0.5          # (an edge list whose entries are two-element lists is accepted like one of tuples)
        case["edges_as_lists"] = as_lists
        try:
            edges = [["in", "f"], ["f", "out"], ["f", "out"]] if as_lists else [("in", "f"), ("f", "out")]
            g = nir.NIRGraph(nodes={"in": nir.Input(np.array(sh, dtype=np.int64)), "f": nir.Flatten(None, sd, ed),
                                    "out": nir.Output(None)}, edges=edges)
            ref = nir.NIRGraph(nodes={"in": nir.Input(np.array(sh, dtype=np.int64)), "f": nir.Flatten(None, sd, ed),
                                      "out": nir.Output(None)}, edges=[("in", "f"), ("f", "out"), ("f", "out")])
        except Exception:
            ctx.count("construct_rejected"); continue
        try:
            err = bounded_infer(g, seconds=5)
            err_ref = bounded_infer(ref, seconds=5)
            if as_lists and (err != err_ref or types_snapshot(g) != types_snapshot(ref)):
                ctx.violate(case, "infer_types treats an edge list of two-element lists differently from the same edges as tuples",
                            {"site": "infer_types", "what": "edge-container", "edit": "corner-shape"},
                            observed={"lists": err, "tuples": err_ref})
        except Hang:
            ctx.violate(case, "infer_types did not terminate", {"site": "infer_types", "what": "hang", "edit": "corner-shape"})
    # depth: a single path far longer than any recursion limit
    for depth in ([1500] if ctx.tier == "quick" else [1500, 4000]):
        chain = [["in", {"type": "Input", "kwargs": [["input_type", {"l": [gen.pyint(4)]}]]}]]
        chain += [[f"t{i}", {"type": "Threshold", "kwargs": [["threshold", gen.arr(rng, [4], "<f8")]]}] for i in range(depth)]
        chain += [["out", {"type": "Output", "kwargs": [["output_type", None]]}]]
        names = [n for n, _ in chain]
        edges = [[a, b] for a, b in zip(names, names[1:])]
        if rng.random() < 0.5:
            rng.shuffle(edges)
        g = {"type": "NIRGraph", "nodes": chain, "edges": edges, "meta": None}
        check_one(ctx, g, "long_chain", cases, obs, reqs, edit=({"long_chain": depth, "must_succeed": True}, lambda graph: None),
                  seconds=60)
    ctx.compare("graphs", cases, obs, reqs)


def run(ctx):
    _run_main(ctx)
    # history independence: the same call on a live graph object with a history of edits / calls and on a twin rebuilt
    # from its public state (harness/history.py)
    import history
    history.run(ctx, ["infer"], {"infer": "infer_types on a graph object with a history"})
