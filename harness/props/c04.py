"""C04 — the reader decodes every valid encoding of the layout, including legacy files."""
import glob
import io
import os
import tempfile

import h5py
import numpy as np

import compare
import gen
import h5raw
from canon import build, err_name
from core import impl_construct

REPO = os.environ.get("NIR_REPO", "/repo")


class Enc:
    """per-dataset physical encoding choices, all drawn from one rng"""

    def __init__(self, rng, fixed=None):
        self.rng = rng
        self.fixed = fixed or {}
        self.used = {}

    def pick(self, key, options):
        v = self.fixed.get(key)
        if v is None or v not in options:
            v = self.rng.choice(options)
        self.used[key + "=" + str(v)] = self.used.get(key + "=" + str(v), 0) + 1
        return v


def write_string(group, name, s, enc):
    mode = enc.pick("str", ["vlen-utf8", "vlen-ascii", "fixed-utf8-nul", "fixed-ascii-nul", "fixed-utf8-space"])
    ascii_ok = all(ord(c) < 128 for c in s)
    if "ascii" in mode and not ascii_ok and mode.startswith("vlen"):
        mode = mode.replace("ascii", "utf8")
    # (fixed-length strings tagged ASCII but holding UTF-8 bytes are what h5py itself writes for numpy bytes_ values;
    #  the character-set tag is advisory and the bytes are UTF-8 all the same)
    raw = s.encode("utf-8")
    if mode.startswith("vlen"):
        dt = h5py.string_dtype("utf-8" if "utf8" in mode else "ascii")
        group.create_dataset(name, data=s, dtype=dt)
    else:
        n = len(raw) + enc.rng.randrange(0, 4)
        n = max(n, 1)
        tid = h5py.h5t.C_S1.copy()
        tid.set_size(n)
        tid.set_strpad(h5py.h5t.STR_SPACEPAD if "space" in mode and not s.endswith(" ") and s else h5py.h5t.STR_NULLPAD)
        tid.set_cset(h5py.h5t.CSET_UTF8 if "utf8" in mode else h5py.h5t.CSET_ASCII)
        space = h5py.h5s.create(h5py.h5s.SCALAR)
        did = h5py.h5d.create(group.id, name.encode("utf-8"), tid, space)
        pad = b" " if tid.get_strpad() == h5py.h5t.STR_SPACEPAD else b"\x00"
        buf = np.frombuffer(raw + pad * (n - len(raw)), dtype=f"S{n}")
        did.write(h5py.h5s.ALL, h5py.h5s.ALL, buf, mtype=tid)


def write_numeric(group, name, v, enc, integer_semantics=False):
    a = np.asarray(v)
    if integer_semantics and a.dtype.kind in "iub" and a.dtype.kind != "b":
        cands = []
        for d in ["|i1", "<i2", "<i4", "<i8", "|u1", "<u2", "<u4", ">i4", ">i8", ">u2"]:
            info = np.iinfo(np.dtype(d))
            if a.size == 0 or (info.min // 4 <= int(a.min()) and int(a.max()) <= info.max // 4):
                cands.append(d)
        d = enc.pick("int", cands) if cands else "<i8"
        if a.ndim == 0 and d.startswith(">"):
            d = "<" + d[1:]
        a = a.astype(np.dtype(d))
    kw = {}
    if a.ndim >= 1 and a.size > 0:
        st = enc.pick("storage", ["contiguous", "chunked", "gzip", "contiguous"])
        if st == "chunked":
            kw["chunks"] = tuple(max(1, s // 2) for s in a.shape)
        elif st == "gzip":
            kw["compression"] = "gzip"
            kw["shuffle"] = enc.rng.random() < 0.5
    group.create_dataset(name, data=a, dtype=a.dtype, **kw)


SHAPE_FIELDS = {"input_shape", "stride", "padding", "dilation", "groups", "kernel_size", "shape", "input_type",
                "start_dim", "end_dim"}


def encode_node(group, recipe, enc, omit):
    """independent raw-h5py producer of the published layout"""
    kind = recipe["type"]
    write_string(group, "type", kind, enc)
    if kind == "NIRGraph":
        track = enc.pick("track_order", ["off", "on"]) == "on"
        ng = group.create_group("nodes", track_order=track)
        order = list(recipe["nodes"])
        if track:
            enc.rng.shuffle(order)
        for name, r in order:
            encode_node(ng.create_group(name, track_order=track), r, enc, omit)
        edges = recipe["edges"]
        if edges:
            mode = enc.pick("edges", ["vlen-utf8", "fixed"])
            if mode == "vlen-utf8":
                group.create_dataset("edges", data=np.array(edges, dtype=object), dtype=h5py.string_dtype("utf-8"))
            else:
                n = max(len(x.encode("utf-8")) for e in edges for x in e) + enc.rng.randrange(0, 3)
                group.create_dataset("edges", data=np.array([[x.encode("utf-8") for x in e] for e in edges], dtype=f"S{max(n,1)}"))
        else:
            group.create_dataset("edges", data=np.zeros((0,), dtype="<f8"))
        meta = build(recipe["meta"]) if recipe.get("meta") is not None else {}
    else:
        kw = {k: build(v) for k, v in recipe["kwargs"]}
        meta = kw.pop("metadata", {})
        vals = {}
        if kind in ("Input", "Output"):
            s = kw["input_type" if kind == "Input" else "output_type"]
            s = list(s.values())[0] if isinstance(s, dict) else s
            vals["shape"] = np.asarray(s)
        elif kind == "Flatten":
            s = kw.get("input_type")
            s = list(s.values())[0] if isinstance(s, dict) else s
            vals["input_type"] = np.asarray(s)
            sd, ed = kw.get("start_dim", 1), kw.get("end_dim", -1)
            if not (omit and sd == 1 and enc.pick("omit_start_dim", ["yes", "no"]) == "yes"):
                vals["start_dim"] = sd
            if not (omit and ed == -1 and enc.pick("omit_end_dim", ["yes", "no"]) == "yes"):
                vals["end_dim"] = ed
        else:
            for f in h5raw.REF_FIELDS[kind]:
                if f in kw:
                    vals[f] = kw[f]
            if kind == "Conv2d":
                for f in ("stride", "padding", "dilation"):
                    vals[f] = h5raw.pair_if_int(vals[f])
            if kind == "CubaLIF" and "w_in" not in kw and not (omit and enc.pick("omit_w_in", ["yes", "no"]) == "yes"):
                vals["w_in"] = np.ones_like(kw["v_threshold"])
        for f, v in vals.items():
            if isinstance(v, str):
                write_string(group, f, v, enc)
            else:
                write_numeric(group, f, v, enc, integer_semantics=(f in SHAPE_FIELDS))
    if meta or not (omit and enc.pick("omit_empty_metadata", ["yes", "no"]) == "yes"):
        if meta:
            encode_meta(group.create_group("metadata"), meta, enc)


def encode_meta(group, d, enc):
    for k, v in d.items():
        if isinstance(v, dict):
            encode_meta(group.create_group(k), v, enc)
        elif isinstance(v, str):
            write_string(group, k, v, enc)
        else:
            write_numeric(group, k, v, enc)


def encode_file(path, recipe, enc, version="0.2.0", omit=True):
    with h5py.File(path, "w") as f:
        write_string(f, "version", version, enc)
        encode_node(f.create_group("node"), recipe, enc, omit)


def writable_recipe(rng):
    """graphs of the C01 domain that the file form can carry (no None annotations), with
    hyper-parameters in integer containers"""
    if rng.random() < 0.2:
        # shapes whose entries are small but whose products are not (narrow integer widths must still decode)
        rank = rng.randrange(2, 5)
        shp = [rng.randrange(2, 31) for _ in range(rank)]
        a = rng.randrange(0, rank - 1); b = rng.randrange(a + 1, rank)
        flat = shp[:a] + [int(np.prod(shp[a:b + 1]))] + shp[b + 1:]
        nodes = [["in", {"type": "Input", "kwargs": [["input_type", gen.shape_arg(rng, shp, "input")]]}],
                 ["f", {"type": "Flatten", "kwargs": [["input_type", gen.shape_arg(rng, shp, "input")],
                                                       ["start_dim", gen.pyint(a)], ["end_dim", gen.pyint(rng.choice([b, b - rank]))]]}],
                 ["out", {"type": "Output", "kwargs": [["output_type", gen.shape_arg(rng, flat, "output")]]}]]
        if len(shp) == 3 and rng.random() < 0.5:
            nodes.insert(1, ["pool", gen.node_recipe(rng, "SumPool2d", meta_p=0)])
        return {"type": "NIRGraph", "nodes": nodes, "edges": [["in", "f"], ["f", "out"]], "meta": None}
    if rng.random() < 0.12:
        # many channels next to a small spatial size: the channel count exceeds what the narrow integer type chosen
        # for `input_shape` can hold
        cin = rng.choice([130, 200, 300])
        two_d = rng.random() < 0.5
        k = [1] * (2 if two_d else 1)
        n = [rng.randrange(2, 9) for _ in k]
        conv = {"type": "Conv2d" if two_d else "Conv1d", "kwargs": [
            ["input_shape", {"t": [gen.pyint(x) for x in n]} if two_d else gen.pyint(n[0])],
            ["weight", gen.arr(rng, [2, cin] + k, "<f2")], ["stride", gen.pyint(1)], ["padding", gen.pyint(0)],
            ["dilation", gen.pyint(1)], ["groups", gen.pyint(1)], ["bias", gen.arr(rng, [2], "<f2")]]}
        nodes = [["in", {"type": "Input", "kwargs": [["input_type", gen.shape_arg(rng, [cin] + n, "input")]]}], ["conv", conv],
                 ["out", {"type": "Output", "kwargs": [["output_type", gen.shape_arg(rng, [2] + n, "output")]]}]]
        return {"type": "NIRGraph", "nodes": nodes, "edges": [["in", "conv"], ["conv", "out"]], "meta": None}
    g = gen.random_graph(rng, meta_p=0.3, maxdepth=2)
    return g


def scribble(g, tag):
    """a consumer annotating what it has read (in place, every level): must stay private to that result - a later
    read of any file must not see it (optional members that a file omits are defaulted per read, not shared)"""
    import nir
    g.metadata["verif-note"] = tag
    for n in getattr(g, "nodes", {}).values():
        if isinstance(n, nir.NIRGraph):
            scribble(n, tag)
        else:
            n.metadata["verif-note"] = tag


def run(ctx):
    import nir
    import h5raw
    from canon import canon_node
    from props.c01 import model_tree
    rng = ctx.rng
    cases, obs, reqs = [], [], []
    tmpdir = tempfile.mkdtemp(prefix="nirverif-c04-", dir="/var/tmp")
    try:
        # shipped artefacts: read, rewrite, re-read
        for f in sorted(glob.glob(os.path.join(REPO, "paper", "**", "*.nir"), recursive=True)):
            case = {"op": "artefact", "file": os.path.relpath(f, REPO)}
            ctx.case(case); ctx.count("artefacts")
            try:
                g1 = nir.read(f)
                p2 = os.path.join(tmpdir, "re.nir")
                nir.write(p2, g1)
                g2 = nir.read(p2)
                d = compare.graph_diff(g1, g2)
                if d:
                    ctx.violate(case, "re-written artefact does not read back equal", {"site": "artefact", "what": "diff"}, observed=d[:4])
                scribble(g2, "artefact"); ctx.count("results_annotated_in_place")
                g3 = nir.read(f)
                d = compare.graph_diff(g1, g3)
                if d:
                    ctx.violate(case, "artefact read again after an earlier result was annotated in place differs",
                                {"site": "artefact", "what": "leak-between-reads"}, observed=d[:4])
            except Exception as e:  # noqa
                ctx.violate(case, "shipped artefact is not read / re-written", {"site": "artefact", "what": "raised"},
                            observed=f"{type(e).__name__}: {e}")
        # one encoding choice at a time + random combinations
        singles = [("str", m) for m in ["vlen-utf8", "vlen-ascii", "fixed-utf8-nul", "fixed-ascii-nul", "fixed-utf8-space"]] + \
                  [("int", d) for d in ["|i1", "<i2", "<i4", "|u1", "<u2", "<u4", ">i4", ">i8", ">u2"]] + \
                  [("storage", s) for s in ["chunked", "gzip"]] + [("track_order", "on"), ("edges", "fixed")]
        for i in range(ctx.n(220)):
            g = writable_recipe(rng)
            directed = None
            if i < 10:
                # directed: non-ASCII text in scalar string members (metadata values and keys, node names), once under
                # every string encoding, alone and combined with random other choices
                directed = ["vlen-utf8", "vlen-ascii", "fixed-utf8-nul", "fixed-ascii-nul", "fixed-utf8-space"][i % 5]
                md = {"d": [["label", {"s": "Größe 5µm"}], ["多", {"s": "键盘 😀"}], ["plain", {"s": "ascii only"}],
                            ["bom", {"s": "\ufeffstarts with U+FEFF"}], ["nfd", {"s": "cafe\u0301"}]]}
                g = {"type": "NIRGraph", "meta": md, "edges": [["é", "é"], ["é", "relay "], ["relay ", "x"], ["x", "x"]],
                     "nodes": [["é", {"type": "Scale", "kwargs": [["scale", gen.arr(rng, [2], "<f8")], ["metadata", md]]}],
                               ["relay ", {"type": "Scale", "kwargs": [["scale", gen.arr(rng, [2], "<f8")]]}],
                               ["x", {"type": "Scale", "kwargs": [["scale", gen.arr(rng, [2], "<f8")]]}]]}
            if 10 <= i < 14:
                # directed: an optional member (the CubaLIF input weight) stored in a dtype of its own, wider than the
                # parameters', holding values the narrower type cannot represent
                pd, wd, vals = [("<f4", "<f8", [0.1, 1 / 3]), ("<f2", "<f4", [0.1, 1e-5]), ("<i8", "<f8", [0.5, 1.5]), ("<f4", "<f8", [1e-300, 0.1])][i - 10]
                prm = lambda: {"a": pd, "sh": [2], "x": np.array([1, 2]).astype(pd).tobytes().hex()}
                g = {"type": "NIRGraph", "meta": None, "edges": [["c", "c"]], "nodes": [["c", {"type": "CubaLIF", "kwargs": [
                    ["tau_syn", prm()], ["tau_mem", prm()], ["r", prm()], ["v_leak", prm()], ["v_threshold", prm()],
                    ["w_in", {"a": wd, "sh": [2], "x": np.array(vals).astype(wd).tobytes().hex()}]]}]]}
                ctx.count("directed_cuba_w_in_wider_dtype")
            try:
                ref = impl_construct(g)
                bio = io.BytesIO(); nir.write(bio, ref)      # in the domain of C01 only if write accepts it
            except Exception:
                ctx.count("outside_domain"); continue
            fixed = dict([singles[i % len(singles)]]) if i % 2 == 0 else {}
            if directed:
                fixed = {"str": directed}
                if i >= 5:
                    fixed["edges"] = "fixed"          # the edge list as fixed-width strings (names of unequal length: padded)
            enc = Enc(rng, fixed)
            path = os.path.join(tmpdir, "enc.nir")
            case = {"op": "encoded", "graph": g, "fixed": fixed, "seed_index": i}
            ctx.case(case); ctx.count("encoded_files")
            try:
                encode_file(path, g, enc)
            except Exception as e:  # noqa
                ctx.count("encoder_declined"); continue
            for k, v in enc.used.items():
                ctx.count("enc_" + k, v)
            try:
                tree = model_tree(h5raw.traverse_file(path))
                c1 = {"op": "read_tree", "file": tree}
                try:
                    o1 = canon_node(nir.read(path))
                except Exception as e:  # noqa
                    o1 = {"err": err_name(e)}
                cases.append(c1); obs.append(o1); reqs.append(c1)
            except Exception:
                ctx.count("traverse_declined")
            try:
                got = nir.read(path)
            except Exception as e:  # noqa
                ctx.violate(case, "a conforming encoding is not read",
                            {"site": "read", "what": "raised", "choice": sorted(fixed.items())}, observed=f"{type(e).__name__}: {e}")
                continue
            d = compare.graph_diff(ref, got, strict=False)
            if d:
                ctx.violate(case, "a conforming encoding decodes to a different graph",
                            {"site": "read", "what": "diff", "choice": sorted(fixed.items()),
                             "first": d[0].split(":")[-1].strip()[:30]}, observed=d[:4])
            elif i % 3 == 0:
                scribble(got, "enc%d" % i); ctx.count("results_annotated_in_place")
        ctx.compare("reader", cases, obs, reqs)
    finally:
        import shutil
        shutil.rmtree(tmpdir, ignore_errors=True)
