"""C19 — constructors accept exactly the well-formed parameter sets."""
import itertools

import numpy as np

import gen
from canon import build, canon, err_name
from core import observe_construct

SHAPES = [[], [1], [2], [3], [1, 2], [2, 1], [2, 3], [2, 3, 1]]


def broadcastable_to(w, s):
    try:
        return list(np.broadcast_shapes(tuple(w), tuple(s))) == list(s)
    except ValueError:
        return False


def defined(t, key):
    return isinstance(t, dict) and list(t) == [key] and t[key] is not None


def run(ctx):
    rng = ctx.rng
    cases, obs, reqs = [], [], []

    def one(rec, should_accept, label, sig, post=None, types_defined=True):
        o, node = observe_construct(rec)
        case = {"op": "construct", **rec}
        ctx.case(case); ctx.count(label + ("_valid" if should_accept else "_invalid"))
        if should_accept and node is None:
            ctx.violate(case, f"{rec['type']}: well-formed parameter set rejected", {**sig, "what": "rejected"}, observed=o)
        elif not should_accept and node is not None:
            ctx.violate(case, f"{rec['type']}: ill-formed parameter set accepted", {**sig, "what": "accepted"},
                        observed=o)
        elif node is not None:
            if types_defined and not (defined(node.input_type, "input") and defined(node.output_type, "output")):
                ctx.violate(case, f"{rec['type']}: accepted object has undefined types", {**sig, "what": "undefined-types"},
                            observed=o)
            if post:
                msg = post(node)
                if msg:
                    ctx.violate(case, f"{rec['type']}: {msg}", {**sig, "what": "post"}, observed=o)
        cases.append(case); obs.append(o); reqs.append(case)

    # neuron classes: all shape tuples over SHAPES (quick: sampled for the 4/5-field classes)
    for kind, fields in (("IF", ["r", "v_threshold"]), ("LI", ["tau", "r", "v_leak"]),
                         ("LIF", ["tau", "r", "v_leak", "v_threshold"])):
        tuples = list(itertools.product(range(len(SHAPES)), repeat=len(fields)))
        if ctx.tier == "quick" and len(tuples) > 300:
            same = [t for t in tuples if len(set(t)) == 1]
            near = [t for t in tuples if len(set(t)) == 2 and min(t.count(x) for x in set(t)) == 1]
            tuples = same + near + rng.sample(tuples, 120)
        else:
            ctx.exhaustive_parts.append(f"{kind}: all {len(tuples)} shape tuples over 8 shapes of rank 0..3")
        for t in tuples:
            shs = [SHAPES[i] for i in t]
            def val(s):
                # a rank-0 parameter is given as a 0-d ndarray or as a numpy scalar (np.float64(...): shape () as well)
                if s == [] and rng.random() < 0.5:
                    return {"n": "<f8", "x": np.float64(rng.choice([0.5, 2.0, 10.0])).tobytes().hex()}
                return gen.arr(rng, s, "<f8")
            rec = {"type": kind, "kwargs": [[f, val(s)] for f, s in zip(fields, shs)]}
            ok = all(s == shs[0] for s in shs)
            if rng.random() < 0.25:
                # derived types passed explicitly (as dataclasses.replace or a copied keyword dictionary would): the
                # verdict on the parameters is the same
                tsh = rng.choice(shs)
                tval = lambda: rng.choice([{"a": "<i8", "sh": [len(tsh)], "x": np.array(tsh, dtype="<i8").tobytes().hex()}, None])
                rec["kwargs"] += [["input_type", {"d": [["input", tval()]]}], ["output_type", {"d": [["output", tval()]]}]]
            one(rec, ok, kind, {"site": kind})
    # CubaLIF: five shapes + w_in forms
    for _ in range(ctx.n(250)):
        base = rng.choice(SHAPES)
        shs = [base] * 5
        ok = True
        if rng.random() < 0.4:
            i = rng.randrange(5)
            other = rng.choice([s for s in SHAPES if s != base])
            shs = shs[:i] + [other] + shs[i + 1:]
            ok = False
        kw = [[f, gen.arr(rng, s, "<f8")] for f, s in zip(gen.CUBA, shs)]
        vt = shs[4]
        form = rng.choice(["absent", "pyfloat", "same", "scalar0d", "suffix", "ones", "bad", "larger", "npscalar", "leading_ones"])
        wshape = None
        if form == "pyfloat":
            kw.append(["w_in", gen.pyfloat(rng.choice([0.5, 2.0, -1.0]))])
        elif form == "npscalar":
            kw.append(["w_in", {"n": "<f8", "x": np.float64(0.25).tobytes().hex()}])
        elif form == "same":
            wshape = list(vt)
        elif form == "scalar0d":
            wshape = []
        elif form == "suffix":
            wshape = list(vt[-1:])
        elif form == "ones":
            wshape = [1] * len(vt)
        elif form == "bad":
            wshape = list(vt[:-1]) + [vt[-1] + 1] if vt else [2]
        elif form == "larger":
            wshape = [2] + list(vt)
        elif form == "leading_ones":
            wshape = [1] * rng.randrange(1, 3) + list(vt)      # more axes than the parameters: not broadcastable *to* them
        if wshape is not None:
            kw.append(["w_in", gen.arr(rng, wshape, "<f8")])
            if not broadcastable_to(wshape, vt):
                ok_w = False
            else:
                ok_w = True
        else:
            ok_w = True
        rec = {"type": "CubaLIF", "kwargs": kw}
        want_shape = tuple(base)

        def post(node, want_shape=want_shape):
            if np.shape(node.w_in) != want_shape:
                return f"w_in not materialised to the common shape: {np.shape(node.w_in)} != {want_shape}"
            return None
        one(rec, ok and ok_w, "CubaLIF_" + form, {"site": "CubaLIF", "w_in": form, "shapes_equal": ok}, post=post)
    # Affine / Linear: weight ranks 0..5
    for kind in ("Affine", "Linear"):
        for rank in range(0, 6):
            for _ in range(3):
                sh = [rng.randrange(1, 4) for _ in range(rank)]
                kw = [["weight", gen.arr(rng, sh, "<f8")]]
                if kind == "Affine":
                    kw.append(["bias", gen.arr(rng, sh[:-2] + sh[-2:-1] if rank >= 2 else [1], "<f8")])
                one({"type": kind, "kwargs": kw}, rank >= 2, f"{kind}_rank{rank}", {"site": kind, "rank": rank})
        if kind == "Affine":
            # the verdict on the weight's rank does not depend on what the bias looks like: ranks 0 and 1 with every
            # bias form (0-d array, numpy scalar, Python float, vectors of either plausible length)
            import struct
            for rank in (0, 1):
                for bform in ("0d", "npscalar", "pyfloat", "vec1", "vecN"):
                    sh = [rng.randrange(2, 5)] * rank
                    bias = {"0d": gen.arr(rng, [], "<f8"),
                            "npscalar": {"n": "<f8", "x": struct.pack("<d", 0.25).hex()},
                            "pyfloat": gen.pyfloat(0.5),
                            "vec1": gen.arr(rng, [1], "<f8"),
                            "vecN": gen.arr(rng, sh or [2], "<f8")}[bform]
                    one({"type": kind, "kwargs": [["weight", gen.arr(rng, sh, "<f8")], ["bias", bias]]}, False,
                        f"Affine_rank{rank}_bias_{bform}", {"site": kind, "rank": rank, "bias": bform})
    # padding strings
    strings = ["same", "valid", "Same", "VALID", "same ", " valid", "", "full", "SAME", "none", "0", "s", "sam",
               "valid\n", "samе", "reflect", "circular", "zeros", "Valid", "v", "same\t", "val id", "same,valid",
               "same\x00", "valid\x00\x00", "\x00same", "same\n", "same\r\n", "valid ", "\ufeffsame", "same\u200b"]
    if ctx.tier == "thorough":
        strings += [s.upper() for s in strings] + [s + "x" for s in strings] + ["ｓａｍｅ", "sa​me"]
    forms = []
    for s in strings:
        forms.append(({"s": s}, s in ("same", "valid"), "str"))
    for s in ["same", "valid", "full", "", "s", "v", "0", "1", "\x00", "sa"]:
        forms.append(({"y": s.encode().hex()}, False, "bytes"))
    for kind in ("Conv1d", "Conv2d"):
        for pad, ok, form in forms:
            for shape_given in (True, False):
                if not shape_given:
                    ishape = None
                elif kind == "Conv1d":
                    ishape = gen.pyint(9)
                else:
                    ishape = {"t": [gen.pyint(9), gen.pyint(8)]}
                w = [2, 1, 3] if kind == "Conv1d" else [2, 1, 3, 3]
                # the verdict on the padding string does not depend on the other hyper-parameters
                if kind == "Conv1d":
                    stride = gen.pyint(rng.choice([1, 1, 2, 3])); dil = gen.pyint(rng.choice([1, 1, 2]))
                else:
                    stride = rng.choice([gen.pyint(1), gen.pyint(2), {"t": [gen.pyint(1), gen.pyint(2)]}, {"t": [gen.pyint(3), gen.pyint(1)]}])
                    dil = rng.choice([gen.pyint(1), gen.pyint(2), {"t": [gen.pyint(1), gen.pyint(2)]}])
                kw = [["input_shape", ishape], ["weight", gen.arr(rng, w)],
                      ["stride", stride], ["padding", pad], ["dilation", dil], ["groups", gen.pyint(1)],
                      ["bias", gen.arr(rng, [2])]]
                one({"type": kind, "kwargs": kw}, ok, f"{kind}_padding_{form}",
                    {"site": kind, "padding": form, "input_shape": "given" if shape_given else "none"},
                    types_defined=shape_given)
    ctx.compare("nodes", cases, obs, reqs)
    # accepted neuron nodes declare the shape of *their* parameters whatever happened to nodes built before them: an
    # earlier node's declared type arrays are edited in place, then a node with parameters of the same shape is built
    import nir
    for _ in range(ctx.n(40, 200)):
        kind = rng.choice(["IF", "LI", "LIF", "CubaLIF", "I"])
        sh = tuple(rng.randrange(1, 4) for _ in range(rng.randrange(0, 3)))
        flds = {"IF": ["r", "v_threshold"], "LI": ["tau", "r", "v_leak"], "LIF": ["tau", "r", "v_leak", "v_threshold"],
                "CubaLIF": ["tau_syn", "tau_mem", "r", "v_leak", "v_threshold"], "I": ["r"]}[kind]
        mk = lambda k=kind, f=flds: getattr(nir, k)(**{x: np.ones(sh) for x in f})
        case = {"op": "neuron_after_inplace_edit", "kind": kind, "shape": list(sh)}
        ctx.case(case); ctx.count("neuron_after_inplace_edit")
        try:
            first = mk()
            t = first.input_type["input"]
            if t.size:
                t[...] = 99                              # a consumer scribbling on the declared type, in place
            else:
                first.input_type["input"] = np.array([99])
            node = mk()
            got = (_ints(node.input_type["input"]), _ints(node.output_type["output"]), _ints(first.output_type["output"]))
        except Exception as e:  # noqa
            got = f"raised {type(e).__name__}"
        want_first_out = list(sh)
        if not isinstance(got, tuple) or got[0] != list(sh) or got[1] != list(sh) or got[2] != want_first_out:
            ctx.violate(case, f"{kind}: an accepted node does not declare the shape of its own parameters after an earlier node's "
                        "type array was edited in place (or its two types share one array)",
                        {"site": kind, "what": "state-between-constructions"}, observed=str(got), required=str(list(sh)))


def _ints(v):
    return None if v is None else [int(x) for x in np.asarray(v).ravel()]
