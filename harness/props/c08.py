"""C08 — type inference reconstructs exactly the erased shape annotations."""
import numpy as np

import gen
from core import quiet, run_graph_ops


def ints(v):
    return None if v is None else [int(x) for x in np.asarray(v).ravel()]


def types_of(g):
    out = {}
    for name, n in g.nodes.items():
        it = n.input_type
        ot = n.output_type
        out[name] = (None if it is None else {k: ints(v) for k, v in it.items()},
                     None if ot is None else {k: ints(v) for k, v in ot.items()})
    return out


def _unsigned_promotion(recipe, graph):
    """F15: a shape handed over as an *unsigned* ndarray reaches `np.prod` in `calc_flatten_output` (result uint64), the next
    node assembles `np.array([<uint64 entry>, *<int64 entries>])`, which numpy promotes to float64, and a later conv branch
    rejects the float extent with TypeError.  Recognised by exactly that chain: an unsigned shape array in the recipe, a
    Flatten whose declared output is uint64, and a declared type of dtype float64 somewhere after the failed inference."""
    def unsigned_in(v):
        return isinstance(v, dict) and (("a" in v and "u" in str(v.get("a"))) or any(unsigned_in(x) for x in (v.get("d") or []) if isinstance(x, dict))
                                        or any(unsigned_in(x[1]) for x in (v.get("d") or []) if isinstance(x, list) and len(x) == 2))
    has_unsigned = any(k in ("input_type", "output_type") and unsigned_in(v) for _, r in recipe["nodes"] for k, v in r["kwargs"])
    if not has_unsigned or graph is None:
        return None
    import nir
    flat_u64 = any(isinstance(n, nir.Flatten) and n.output_type and getattr(n.output_type.get("output"), "dtype", None) == np.dtype("uint64")
                   for n in graph.nodes.values())
    float_type = any(getattr((t or {}).get(key), "dtype", None) == np.dtype("float64")
                     for n in graph.nodes.values() if not isinstance(n, nir.NIRGraph)
                     for t, key in ((n.input_type, "input"), (n.output_type, "output")))
    return "unsigned-shape-through-flatten-promoted-to-float64" if (flat_u64 and float_type) else None


def f15_graph(dtype=">u4"):
    """the recorded failing input of F15 (findings/F15_unsigned_shape_through_flatten.py)"""
    import nir
    return nir.NIRGraph(
        nodes={"in": nir.Input(np.array([2, 11, 5], dtype=dtype)), "f0": nir.Flatten(np.array([2, 11, 5], dtype=dtype), 1, 1),
               "pool": nir.AvgPool2d(kernel_size=(1, 3), stride=np.array([1, 2]), padding=0), "f1": nir.Flatten(None, 1, -1),
               "conv": nir.Conv1d(None, np.zeros((2, 2, 2)), 1, "same", 2, 1, np.zeros(2)), "out": nir.Output(None)},
        edges=[("in", "f0"), ("f0", "pool"), ("pool", "f1"), ("f1", "conv"), ("conv", "out")])


def _replay_f15(ctx, site, what):
    """corpus case run first on every run: the listed finding is replayed against the real code, so that the run says
    KNOWN-FINDING while it persists and nothing once it is repaired"""
    import nir
    g = f15_graph()
    case = {"op": "corpus_F15", "input_dtype": ">u4", "shape": [2, 11, 5],
            "chain": "Input -> Flatten(1,1) -> AvgPool2d((1,3),[1,2],0) -> Flatten(None,1,-1) -> Conv1d(None,'same') -> Output"}
    ctx.case(case); ctx.count("corpus_F15")
    try:
        with quiet():
            g.infer_types()
    except Exception as e:  # noqa
        flat_u64 = g.nodes["f0"].output_type["output"].dtype == np.dtype("uint64")
        fl = getattr((g.nodes["pool"].output_type or {}).get("output"), "dtype", None) == np.dtype("float64")
        sig = {"site": site, "what": what}
        if flat_u64 and fl:
            sig["cause"] = "unsigned-shape-through-flatten-promoted-to-float64"
        ctx.violate(case, "infer_types raised on a consistent graph", sig, observed=f"{type(e).__name__}: {e}")
        return
    want = {"in": [2, 11, 5], "f0": [2, 11, 5], "pool": [2, 11, 2], "f1": [2, 22], "conv": [2, 22], "out": [2, 22]}
    got = {k: (None if n.output_type.get("output") is None else [int(x) for x in n.output_type["output"]]) for k, n in g.nodes.items()}
    if got != want:
        ctx.violate(case, "inferred types differ from the fully annotated graph (unsigned shape arrays)",
                    {"site": site, "what": "types", "edit": "corpus-F15"}, observed=got, required=want)


def _run_main(ctx):
    _replay_f15(ctx, "infer_types", "raised")
    rng = ctx.rng
    cases, obs, reqs = [], [], []
    for i in range(ctx.n(250)):
        g, truth, erased = gen.consistent_graph(rng, max_nodes=(8 if i % 5 else 25))
        case = {"op": "graph", "graph": g, "ops": ["infer", "check"]}
        steps, graph = run_graph_ops(g, ["infer", "check"])
        ctx.case(case)
        ctx.count("graphs")
        ctx.count("erased_annotations", len(erased))
        kinds = set(r["type"] for _, r in g["nodes"])
        for k in kinds:
            ctx.count("kind_" + k)
        if graph is None:
            ctx.violate(case, "consistent graph rejected at construction", {"site": "construct"}, observed=steps)
        else:
            sig_kinds = sorted(set(dict(g["nodes"])[n]["type"] for n in erased))
            if steps[1]["err"] is not None:
                sig = {"site": "infer_types", "what": "raised"}
                cause = _unsigned_promotion(g, graph)
                if cause:
                    sig["cause"] = cause        # defect F15 (known_findings.json): identified by exactly this chain of facts
                ctx.violate(case, "infer_types raised on a consistent graph", sig, observed=steps[1]["err"])
            else:
                got = types_of(graph)
                bad = {}
                for name, (ti, to) in truth.items():
                    gi, go = got[name]
                    if gi != {"input": ti} or go != {"output": to}:
                        bad[name] = {"got": [gi, go], "want": [ti, to], "kind": dict(g["nodes"])[name]["type"]}
                if bad:
                    kinds_bad = sorted(set(b["kind"] for b in bad.values()))
                    ctx.violate(case, "inferred types differ from the fully annotated graph",
                                {"site": "infer_types", "what": "types", "kinds": kinds_bad}, observed=bad)
                elif steps[2] != {"r": True}:
                    ctx.violate(case, "type check fails after inference on a consistent graph",
                                {"site": "_check_types", "what": "after-infer"}, observed=steps[2])
        cases.append(case); obs.append({"steps": steps}); reqs.append(case)
    ctx.compare("graphs", cases, obs, reqs)
    # the same, on graph *objects* that do not come straight from the constructor: a component added through
    # graph.nodes / graph.edges afterwards; an Output that was given another node's type dictionary object
    import nir
    from core import impl_construct, quiet
    for i in range(ctx.n(60)):
        g, truth, erased = gen.consistent_graph(rng, max_nodes=5)
        how = "add_component" if i % 2 == 0 else "aliased_output_type"
        case = {"op": "edited_graph", "graph": g, "edit": how}
        ctx.case(case); ctx.count("edited_" + how)
        try:
            graph = impl_construct(g)
        except Exception:
            ctx.count("construct_rejected"); continue
        want = dict(truth)
        if how == "add_component":
            g2, truth2, _ = gen.consistent_graph(rng, max_nodes=4)
            ren = lambda x: "z_" + x
            case["added"] = {"nodes": [[ren(n), r] for n, r in g2["nodes"]], "edges": [[ren(a), ren(b)] for a, b in g2["edges"]]}
            try:
                for n, r in g2["nodes"]:
                    graph.nodes[ren(n)] = impl_construct(r)
            except Exception:
                ctx.count("construct_rejected"); continue
            for a, b in g2["edges"]:
                graph.edges.append((ren(a), ren(b)))
            want.update({ren(k): v for k, v in truth2.items()})
        else:
            # Output(other.output_type): a legal Types dictionary -- and the very object the other node holds
            outs = [n for n, r in g["nodes"] if r["type"] == "Output"]
            others = [n for n, r in g["nodes"] if r["type"] not in ("Output", "Input") and graph.nodes[n].output_type is not None
                      and graph.nodes[n].output_type.get("output") is not None]
            if not outs or not others:
                continue
            o, src = rng.choice(outs), rng.choice(others)
            case["output"] = o; case["shares_type_dict_of"] = src
            graph.nodes[o] = nir.Output(graph.nodes[src].output_type)
        try:
            with quiet():
                graph.infer_types()
        except Exception as e:  # noqa
            ctx.violate(case, "infer_types raised on a consistent graph (edited after construction)",
                        {"site": "infer_types", "what": "raised", "edit": how}, observed=f"{type(e).__name__}: {e}")
            continue
        got = types_of(graph)
        bad = {n: {"got": list(got.get(n, (None, None))), "want": [ti, to]} for n, (ti, to) in want.items()
               if got.get(n) != ({"input": ti}, {"output": to})}
        if bad:
            ctx.violate(case, "inferred types differ from the fully annotated graph (graph edited after construction)",
                        {"site": "infer_types", "what": "types", "edit": how}, observed=dict(list(bad.items())[:4]))

    # shapes whose inferred entries outgrow the integer dtype the *Input* shape happens to be stored in (int8 / uint8 /
    # int16): restored annotations are the true numbers whatever width the seed had
    for i in range(ctx.n(40, 200)):
        dt = rng.choice(["int8", "uint8", "int8", "int16"])
        lim = np.iinfo(dt).max
        two_d = rng.random() < 0.6
        cin = rng.randrange(1, 4)
        sp = [rng.randrange(6, 12) for _ in range(2 if two_d else 1)]
        cout = rng.randrange(lim + 2, lim + 200) if dt != "int16" else rng.randrange(2, 5)
        k = [rng.randrange(1, 4) for _ in sp]
        w = np.zeros([cout, cin] + k, dtype="float32")
        conv = nir.Conv2d(None, w, 1, 0, 1, 1, np.zeros(cout)) if two_d else nir.Conv1d(None, w, 1, 0, 1, 1, np.zeros(cout))
        out_sp = [n - kk + 1 for n, kk in zip(sp, k)]
        conv_out = [cout] + out_sp
        nodes = {"in": nir.Input(np.array([cin] + sp, dtype=dt)), "conv": conv}
        edges = [("in", "conv")]
        want = {"in": ([cin] + sp, [cin] + sp), "conv": ([cin] + sp, conv_out)}
        last, cur = "conv", conv_out
        if rng.random() < 0.7:
            nodes["flat"] = nir.Flatten(None, 0, -1)
            flat = [int(np.prod(cur))]
            want["flat"] = (cur, flat); edges.append((last, "flat")); last, cur = "flat", flat
        nodes["out"] = nir.Output(None)
        edges.append((last, "out")); want["out"] = (cur, cur)
        rng.shuffle(edges)
        case = {"op": "narrow_seed_dtype", "input_dtype": dt, "input_shape": [cin] + sp, "weight_shape": list(w.shape),
                "nodes": list(nodes), "edges": [list(e) for e in edges]}
        ctx.case(case); ctx.count("narrow_seed_dtype")
        try:
            graph = nir.NIRGraph(nodes=nodes, edges=edges)
            with quiet():
                graph.infer_types()
                ok = graph._check_types()
        except Exception as e:  # noqa
            ctx.violate(case, "infer_types / the type check raised on a consistent graph whose Input shape is stored in a "
                        "narrow integer dtype", {"site": "infer_types", "what": "raised", "edit": "narrow-seed"},
                        observed=f"{type(e).__name__}: {e}")
            continue
        got = types_of(graph)
        bad = {n: {"got": list(got.get(n, (None, None))), "want": [ti, to]} for n, (ti, to) in want.items()
               if got.get(n) != ({"input": ti}, {"output": to})}
        if bad:
            ctx.violate(case, "inferred types differ from the fully annotated graph (Input shape stored in a narrow dtype)",
                        {"site": "infer_types", "what": "types", "edit": "narrow-seed"}, observed=dict(list(bad.items())[:4]))

    # a declared type that is wrong by one on a long axis (and so within any *relative* tolerance of the truth) is a wrong
    # annotation like any other: inference replaces it by the predecessor's shape, at every size
    for i in range(ctx.n(30, 120)):
        big = rng.choice([10 ** 5, 120000, 2 ** 17, 10 ** 6, 2 ** 20 + 1, 2 ** 31, 10 ** 12]) + rng.randrange(0, 3)
        rank = rng.randrange(1, 4)
        true = [rng.randrange(1, 4) for _ in range(rank)]
        ax = rng.randrange(rank); true[ax] = big
        wrong = list(true); wrong[ax] = big + rng.choice([-1, 1])
        mid = rng.choice([None, "flatten_noop"])
        nodes = {"in": nir.Input(np.array(true, dtype="int64"))}
        edges, want, last = [], {"in": (true, true)}, "in"
        if mid == "flatten_noop" and rank >= 2:
            nodes["flat"] = nir.Flatten(None, 0, 0)
            want["flat"] = (true, true); edges.append((last, "flat")); last = "flat"
        nodes["out"] = nir.Output(np.array(wrong, dtype=rng.choice(["int64", "int32"]) if big < 2 ** 31 - 1 else "int64"))
        edges.append((last, "out")); want["out"] = (true, true)
        case = {"op": "near_miss_long_axis", "true_shape": true, "declared_output": wrong, "nodes": list(nodes),
                "edges": [list(e) for e in edges]}
        ctx.case(case); ctx.count("near_miss_long_axis")
        try:
            graph = nir.NIRGraph(nodes=nodes, edges=edges)
            with quiet():
                graph.infer_types()
        except Exception as e:  # noqa
            ctx.violate(case, "infer_types raised on a graph whose only defect is a wrong Output annotation",
                        {"site": "infer_types", "what": "raised", "edit": "near-miss-long-axis"}, observed=f"{type(e).__name__}: {e}")
            continue
        got = types_of(graph)
        bad = {n: {"got": list(got.get(n, (None, None))), "want": [ti, to]} for n, (ti, to) in want.items()
               if got.get(n) != ({"input": ti}, {"output": to})}
        if bad:
            ctx.violate(case, "a declared type wrong by one on a long axis survives inference",
                        {"site": "infer_types", "what": "types", "edit": "near-miss-long-axis"}, observed=dict(list(bad.items())[:4]))


def run(ctx):
    _run_main(ctx)
    # history independence (harness/history.py): among the edits, a node swapped for a fresh one of the same class under
    # the same name with its annotations erased - a later infer_types types the graph as it is now
    import history
    history.run(ctx, ["infer", "check"], {"infer": "infer_types on a graph object with a history", "check": "the type check of a graph object with a history"})
