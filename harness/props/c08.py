"""C08 — type inference reconstructs exactly the erased shape annotations."""
import numpy as np

import gen
from core import run_graph_ops


def ints(v):
    return None if v is None else [int(x) for x in np.asarray(v).ravel()]


def types_of(g):
    out = {}
    for name, n in g.nodes.items():
        it = n.input_type
        ot = n.output_type
        out[name] = (None if it is None else {k: ints(v) for k, v in it.items()},
                     None if ot is None else {k: ints(v) for k, v in ot.items()})
    return out


def run(ctx):
    rng = ctx.rng
    cases, obs, reqs = [], [], []
    for i in range(ctx.n(250)):
        g, truth, erased = gen.consistent_graph(rng, max_nodes=(8 if i % 5 else 25))
        case = {"op": "graph", "graph": g, "ops": ["infer", "check"]}
        steps, graph = run_graph_ops(g, ["infer", "check"])
        ctx.case(case)
        ctx.count("graphs")
        ctx.count("erased_annotations", len(erased))
        kinds = set(r["type"] for _, r in g["nodes"])
        for k in kinds:
            ctx.count("kind_" + k)
        if graph is None:
            ctx.violate(case, "consistent graph rejected at construction", {"site": "construct"}, observed=steps)
        else:
            sig_kinds = sorted(set(dict(g["nodes"])[n]["type"] for n in erased))
            if steps[1]["err"] is not None:
                ctx.violate(case, "infer_types raised on a consistent graph", {"site": "infer_types", "what": "raised"},
                            observed=steps[1]["err"])
            else:
                got = types_of(graph)
                bad = {}
                for name, (ti, to) in truth.items():
                    gi, go = got[name]
                    if gi != {"input": ti} or go != {"output": to}:
                        bad[name] = {"got": [gi, go], "want": [ti, to], "kind": dict(g["nodes"])[name]["type"]}
                if bad:
                    kinds_bad = sorted(set(b["kind"] for b in bad.values()))
                    ctx.violate(case, "inferred types differ from the fully annotated graph",
                                {"site": "infer_types", "what": "types", "kinds": kinds_bad}, observed=bad)
                elif steps[2] != {"r": True}:
                    ctx.violate(case, "type check fails after inference on a consistent graph",
                                {"site": "_check_types", "what": "after-infer"}, observed=steps[2])
        cases.append(case); obs.append({"steps": steps}); reqs.append(case)
    ctx.compare("graphs", cases, obs, reqs)
