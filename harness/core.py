"""Shared run context: counters, correspondence bookkeeping, violations, evidence."""
import hashlib
import io
import json
import os
import random
import contextlib
import time

import driver as _driver
from canon import build, canon, canon_node, err_name, strip_layout

VERIF = os.path.dirname(os.path.dirname(os.path.abspath(__file__)))


def jhash(obj):
    return hashlib.sha1(json.dumps(obj, sort_keys=True, default=str).encode()).hexdigest()[:12]


class Ctx:
    def __init__(self, prop, tier, seed, model_ok=True, budget=1.0):
        self.prop = prop
        self.tier = tier
        self.seed = seed
        self.rng = random.Random(f"{prop}:{seed}")
        self.model_ok = model_ok
        self.budget = budget * (1.0 if tier == "quick" else 12.0)
        self.evaluations = 0
        self.distinct = set()
        self.samples = []
        self.dist = {}
        self.disagreements = []   # model vs implementation
        self.violations = []      # property broken by the implementation
        self.unmodelled = 0
        self.model_compared = 0
        self.exhaustive_parts = []
        self.t0 = time.time()

    # --- sizes ---------------------------------------------------------------------
    def n(self, quick, thorough=None):
        if self.tier == "quick":
            return max(1, int(quick * self.budget))
        return max(1, int((thorough if thorough is not None else quick * 12)))

    # --- bookkeeping -----------------------------------------------------------------
    def count(self, key, k=1):
        self.dist[key] = self.dist.get(key, 0) + k

    def case(self, case, nontrivial=True):
        self.evaluations += 1
        if nontrivial:
            self.distinct.add(jhash(case))
        if len(self.samples) < 4 and (self.evaluations % 97 == 1):
            self.samples.append(_trim(case))

    def disagree(self, suite, case, impl, model):
        self.disagreements.append({"suite": suite, "case": case, "impl": impl, "model": model})

    def violate(self, case, what, signature=None, observed=None, required=None):
        self.violations.append({"case": case, "what": what, "signature": signature or {},
                                "observed": observed, "required": required})

    # --- model access ----------------------------------------------------------------
    def model(self, requests):
        """Replies of the Lean driver, or None when the model is unavailable."""
        if not self.model_ok:
            return None
        reqs = [strip_layout(r) for r in requests]
        return _driver.run(reqs)

    def compare(self, suite, cases, impl_obs, requests):
        """Correspondence: the model's reply must equal the implementation's observation."""
        replies = self.model(requests)
        if replies is None:
            return
        for c, io_, r in zip(cases, impl_obs, replies):
            if "fatal" in r:
                self.disagree(suite, c, io_, r)
                continue
            if r.get("err") == "Other" and io_.get("err") != "Other":
                # the model declined this input (outside the modelled domain)
                self.unmodelled += 1
                continue
            self.model_compared += 1
            if r != io_:
                self.disagree(suite, c, io_, r)


def _trim(x, limit=400):
    s = json.dumps(x, default=str)
    if len(s) <= limit:
        return x
    return {"trimmed": s[:limit] + "..."}


@contextlib.contextmanager
def quiet():
    """The library prints warnings from inference; keep check output clean."""
    buf = io.StringIO()
    with contextlib.redirect_stdout(buf):
        yield


def impl_construct(recipe):
    """Run a leaf/graph recipe against the real library."""
    import nir
    kind = recipe["type"]
    if kind == "NIRGraph":
        nodes = {name: impl_construct(r) for name, r in recipe["nodes"]}
        kw = {}
        if recipe.get("meta") is not None:
            kw["metadata"] = build(recipe["meta"])
        return nir.NIRGraph(nodes=nodes, edges=[(a, b) for a, b in recipe["edges"]], **kw)
    cls = getattr(nir, kind)
    return cls(**{k: build(v) for k, v in recipe["kwargs"]})


def observe_construct(recipe):
    import warnings
    try:
        with warnings.catch_warnings():
            warnings.simplefilter("ignore")
            n = impl_construct(recipe)
    except Exception as e:  # noqa
        return {"err": err_name(e)}, None
    return canon_node(n), n
