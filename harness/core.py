"""Shared run context: counters, correspondence bookkeeping, violations, evidence."""
import hashlib
import io
import json
import os
import random
import contextlib
import time

import driver as _driver
from canon import build, canon, canon_node, err_name, strip_layout

VERIF = os.path.dirname(os.path.dirname(os.path.abspath(__file__)))


def jhash(obj):
    return hashlib.sha1(json.dumps(obj, sort_keys=True, default=str).encode()).hexdigest()[:12]


class Ctx:
    def __init__(self, prop, tier, seed, model_ok=True, budget=1.0):
        self.prop = prop
        self.tier = tier
        self.seed = seed
        self.rng = random.Random(f"{prop}:{seed}")
        self.model_ok = model_ok
        self.budget = budget * (1.0 if tier == "quick" else 12.0)
        self.evaluations = 0
        self.distinct = set()
        self.samples = []
        self.dist = {}
        self.disagreements = []   # model vs implementation
        self.violations = []      # property broken by the implementation
        self.unmodelled = 0
        self.model_compared = 0
        self.exhaustive_parts = []
        self.t0 = time.time()

    # --- sizes ---------------------------------------------------------------------
    def n(self, quick, thorough=None):
        if self.tier == "quick":
            return max(1, int(quick * self.budget))
        return max(1, int((thorough if thorough is not None else quick * 12)))

    # --- bookkeeping -----------------------------------------------------------------
    def count(self, key, k=1):
        self.dist[key] = self.dist.get(key, 0) + k

    def case(self, case, nontrivial=True):
        self.evaluations += 1
        if nontrivial:
            self.distinct.add(jhash(case))
        if len(self.samples) < 4 and (self.evaluations % 97 == 1):
            self.samples.append(_trim(case))

    def disagree(self, suite, case, impl, model):
        self.disagreements.append({"suite": suite, "case": case, "impl": impl, "model": model})

    def violate(self, case, what, signature=None, observed=None, required=None):
        self.violations.append({"case": case, "what": what, "signature": signature or {},
                                "observed": observed, "required": required})

    # --- model access ----------------------------------------------------------------
    def model(self, requests):
        """Replies of the Lean driver, or None when the model is unavailable."""
        if not self.model_ok:
            return None
        reqs = [strip_layout(r) for r in requests]
        return _driver.run(reqs)

    def compare(self, suite, cases, impl_obs, requests):
        """Correspondence: the model's reply must equal the implementation's observation."""
        replies = self.model(requests)
        if replies is None:
            return
        for c, io_, r in zip(cases, impl_obs, replies):
            if "fatal" in r:
                self.disagree(suite, c, io_, r)
                continue
            if _declined(r, io_):
                # the model declined this input (outside the modelled domain)
                self.unmodelled += 1
                continue
            self.model_compared += 1
            if r != io_:
                self.disagree(suite, c, io_, r)


def _declined(model, impl):
    """the model answered `unmodelled` (error kind Other) where the implementation did not"""
    if model.get("err") == "Other" and impl.get("err") != "Other":
        return True
    if model.get("construct_err") == "Other":      # (the recipe itself is outside the modelled constructor domain)
        return True
    ms, is_ = model.get("steps"), impl.get("steps")
    if isinstance(ms, list) and isinstance(is_, list):
        for a, b in zip(ms, is_):
            if isinstance(a, dict) and a.get("err") == "Other" and not (isinstance(b, dict) and b.get("err") == "Other"):
                return True
    return False


def _trim(x, limit=400):
    s = json.dumps(x, default=str)
    if len(s) <= limit:
        return x
    return {"trimmed": s[:limit] + "..."}


@contextlib.contextmanager
def quiet():
    """The library prints warnings from inference; keep check output clean."""
    buf = io.StringIO()
    with contextlib.redirect_stdout(buf):
        yield


def impl_construct(recipe):
    """Run a leaf/graph recipe against the real library."""
    import nir
    kind = recipe["type"]
    if kind == "NIRGraph":
        nodes = {name: impl_construct(r) for name, r in recipe["nodes"]}
        for a, b in recipe.get("share", []):
            if a in nodes and b in nodes:
                nodes[b] = nodes[a]          # one object under two names
        kw = {}
        if recipe.get("meta") is not None:
            kw["metadata"] = build(recipe["meta"])
        return nir.NIRGraph(nodes=nodes, edges=[(a, b) for a, b in recipe["edges"]], **kw)
    cls = getattr(nir, kind)
    n = cls(**{k: build(v) for k, v in recipe["kwargs"]})
    if "types" in recipe:       # explicit assignment of the public type attributes
        n.input_type = build(recipe["types"][0])
        n.output_type = build(recipe["types"][1])
    return n


def observe_construct(recipe):
    import warnings
    try:
        with warnings.catch_warnings():
            warnings.simplefilter("ignore")
            n = impl_construct(recipe)
    except Exception as e:  # noqa
        return {"err": err_name(e)}, None
    return canon_node(n), n


def run_graph_ops(recipe, ops, after=None):
    """Mirror of the driver's `graph` op on the real library.  Returns (steps, graph)."""
    import warnings
    steps = []
    try:
        with warnings.catch_warnings():
            warnings.simplefilter("ignore")
            g = impl_construct(recipe)
    except Exception as e:  # noqa
        return [{"err": err_name(e)}], None
    steps.append(canon_node(g))
    if after is not None:
        after("construct", g, steps[-1])
    for op in ops:
        if op == "infer":
            err = None
            try:
                with quiet(), warnings.catch_warnings():
                    warnings.simplefilter("ignore")
                    g.infer_types()
            except Exception as e:  # noqa
                err = err_name(e)
            steps.append({"err": err, "g": canon_node(g)})
        elif op == "check":
            try:
                with warnings.catch_warnings():
                    warnings.simplefilter("ignore")
                    r = g._check_types()
                steps.append({"r": bool(r)})
            except Exception as e:  # noqa
                steps.append({"err": err_name(e)})
        elif op in ("dict_rt", "file_rt"):
            import nir
            try:
                with warnings.catch_warnings():
                    warnings.simplefilter("ignore")
                    if op == "dict_rt":
                        g = nir.NIRGraph.from_dict(g.to_dict())
                    else:
                        g = file_roundtrip(g)
                steps.append({"err": None, "g": canon_node(g)})
            except Exception as e:  # noqa
                steps.append({"err": err_name(e), "g": canon_node(g)})
        elif op in ("to_dict_refused", "write_refused"):
            # an observer that is refused (a value in the graph's own metadata cannot be copied / stored); the
            # offending entry is removed again afterwards.  Harness-only op (never sent to the model).
            import io
            import threading
            import nir
            had = "lock" in g.metadata
            g.metadata["lock"] = threading.Lock() if op == "to_dict_refused" else object()
            try:
                with warnings.catch_warnings():
                    warnings.simplefilter("ignore")
                    g.to_dict() if op == "to_dict_refused" else nir.write(io.BytesIO(), g)
                steps.append({"err": None})
            except Exception as e:  # noqa
                steps.append({"err": err_name(e)})
            finally:
                if not had:
                    g.metadata.pop("lock", None)
        else:
            raise ValueError(op)
        if after is not None:
            after(op, g, steps[-1])
    return steps, g


def file_roundtrip(g, target="bytesio"):
    import io
    import nir
    bio = io.BytesIO()
    nir.write(bio, g)
    bio.seek(0)
    return nir.read(bio)


def jdiff(a, b, path="", out=None, limit=12):
    """paths at which two JSON values differ"""
    if out is None:
        out = []
    if len(out) >= limit:
        return out
    if type(a) != type(b):
        out.append((path, _short(a), _short(b)))
    elif isinstance(a, dict):
        for k in sorted(set(a) | set(b)):
            if k not in a or k not in b:
                out.append((f"{path}/{k}", _short(a.get(k, "<absent>")), _short(b.get(k, "<absent>"))))
            else:
                jdiff(a[k], b[k], f"{path}/{k}", out, limit)
    elif isinstance(a, list):
        if len(a) != len(b):
            out.append((path + "/len", len(a), len(b)))
        for i, (x, y) in enumerate(zip(a, b)):
            jdiff(x, y, f"{path}/{i}", out, limit)
    elif a != b:
        out.append((path, _short(a), _short(b)))
    return out


def _short(x):
    s = json.dumps(x, default=str)
    return s if len(s) < 160 else s[:160] + "..."
