"""Strict two-sided structural comparators on real NIR objects (independent of nir's own
helpers and of the Lean model)."""
import dataclasses

import numpy as np


def num_equal(a, b):
    """values compared as numbers and arrays: scalars/tuples/lists may come back as numpy
    scalars/arrays of equal value; dtype- and NaN-aware for arrays"""
    if a is None or b is None:
        return a is None and b is None
    if isinstance(a, (str, bytes)) or isinstance(b, (str, bytes)):
        return type(a) is type(b) and a == b
    if isinstance(a, dict) or isinstance(b, dict):
        if not (isinstance(a, dict) and isinstance(b, dict)) or set(a) != set(b):
            return False
        return all(num_equal(a[k], b[k]) for k in a)
    try:
        x, y = np.asarray(a), np.asarray(b)
    except Exception:
        return False
    if x.dtype == object or y.dtype == object:
        return False
    if x.shape != y.shape:
        return False
    if x.dtype.kind in "iu" and y.dtype.kind in "iu":
        return bool(np.array_equal(x.astype(object), y.astype(object)))   # integers compare as numbers, any width
    if isinstance(a, np.ndarray) and isinstance(b, np.ndarray):
        return x.dtype == y.dtype and np.ascontiguousarray(x).tobytes() == np.ascontiguousarray(y).tobytes()
    # container changed (python scalar/tuple/list -> numpy): equal as numbers
    if x.dtype.kind in "fc" or y.dtype.kind in "fc":
        return bool(np.array_equal(x, y, equal_nan=True))
    return bool(np.array_equal(x, y))


def strict_equal(a, b):
    """identical Python/numpy value types, dtypes, shapes and bytes"""
    if type(a) is not type(b):
        return False
    if a is None:
        return True
    if isinstance(a, np.ndarray):
        return a.dtype == b.dtype and a.shape == b.shape and \
            np.ascontiguousarray(a).tobytes() == np.ascontiguousarray(b).tobytes()
    if isinstance(a, np.generic):
        return a.dtype == b.dtype and a.tobytes() == b.tobytes()
    if isinstance(a, float):
        import struct
        return struct.pack("<d", a) == struct.pack("<d", b)
    if isinstance(a, (tuple, list)):
        return len(a) == len(b) and all(strict_equal(x, y) for x, y in zip(a, b))
    if isinstance(a, dict):
        return list(a.keys()) == list(b.keys()) and all(strict_equal(a[k], b[k]) for k in a)
    return a == b


def node_fields(n):
    return {f.name: getattr(n, f.name) for f in dataclasses.fields(n)
            if f.name not in ("input_type", "output_type", "metadata", "nodes", "edges")}


def graph_diff(a, b, strict=False, path="", types=True, out=None):
    """differences between two nodes/graphs, both directions"""
    import nir
    eq = strict_equal if strict else num_equal
    if out is None:
        out = []
    if type(a) is not type(b):
        out.append(f"{path}: kind {type(a).__name__} != {type(b).__name__}")
        return out
    fa, fb = node_fields(a), node_fields(b)
    for k in fa:
        if not eq(fa[k], fb[k]):
            out.append(f"{path}.{k}: value differs ({_d(fa[k])} -> {_d(fb[k])})")
    ma, mb = getattr(a, "metadata", {}), getattr(b, "metadata", {})
    if not eq(ma, mb):
        out.append(f"{path}.metadata differs")
    if types:
        for t in ("input_type", "output_type"):
            if isinstance(a, nir.NIRGraph):
                continue
            if not num_equal(getattr(a, t), getattr(b, t)):
                out.append(f"{path}.{t} differs")
            if strict and not strict_equal(getattr(a, t), getattr(b, t)):
                out.append(f"{path}.{t} differs in value types")
    if isinstance(a, nir.NIRGraph):
        if set(a.nodes) != set(b.nodes):
            out.append(f"{path}: node names {sorted(set(a.nodes) ^ set(b.nodes))} not on both sides")
        if strict and list(a.nodes) != list(b.nodes):
            out.append(f"{path}: node order differs")
        ea, eb = [tuple(e) for e in a.edges], [tuple(e) for e in b.edges]
        if ea != eb:
            out.append(f"{path}: edge list differs ({len(ea)} vs {len(eb)} edges)")
        for k in a.nodes:
            if k in b.nodes:
                graph_diff(a.nodes[k], b.nodes[k], strict, f"{path}/{k}", types, out)
    return out


def _d(v):
    if isinstance(v, np.ndarray):
        return f"ndarray[{v.dtype},{v.shape}]"
    return f"{type(v).__name__}"


def mutable_ids(obj, acc=None):
    """ids of every ndarray / dict / list reachable from a node, graph or plain value"""
    import nir
    if acc is None:
        acc = {}
    if isinstance(obj, np.ndarray):
        acc[id(obj)] = obj
        if obj.base is not None and isinstance(obj.base, np.ndarray):
            acc[id(obj.base)] = obj.base
    elif isinstance(obj, dict):
        acc[id(obj)] = obj
        for v in obj.values():
            mutable_ids(v, acc)
    elif isinstance(obj, (list, tuple)):
        if isinstance(obj, list):
            acc[id(obj)] = obj
        for v in obj:
            mutable_ids(v, acc)
    elif isinstance(obj, nir.NIRNode):
        for f in dataclasses.fields(obj):
            mutable_ids(getattr(obj, f.name), acc)
    return acc


def shares_memory(a_objs, b_objs):
    """pairs of arrays (one from each side) that overlap in memory"""
    A = [x for x in a_objs.values() if isinstance(x, np.ndarray) and x.size]
    B = [x for x in b_objs.values() if isinstance(x, np.ndarray) and x.size]
    return [(x.shape, y.shape) for x in A for y in B if np.shares_memory(x, y)]


def snapshot(obj):
    """deep structural snapshot: bytes of every array, ids of node objects, containers"""
    import nir
    if isinstance(obj, np.ndarray):
        return ("arr", str(obj.dtype), obj.shape, np.ascontiguousarray(obj).tobytes() if obj.dtype != object
                else repr(obj.tolist()))
    if isinstance(obj, np.generic):
        return ("np", str(obj.dtype), obj.tobytes())
    if isinstance(obj, dict):
        # the concrete mapping class is part of the value (a defaultdict / OrderedDict is not a plain dict)
        return ("dict", type(obj).__name__, [(k, snapshot(v)) for k, v in obj.items()])
    if isinstance(obj, (list, tuple)):
        return (type(obj).__name__, [snapshot(v) for v in obj])
    if isinstance(obj, nir.NIRNode):
        # ... and so is *which* metadata object a node holds: re-binding the field to an equal copy cuts the link to
        # the dictionary the caller attached
        return ("node", type(obj).__name__, id(obj), id(getattr(obj, "metadata", None)),
                [(f.name, snapshot(getattr(obj, f.name))) for f in dataclasses.fields(obj)])
    if isinstance(obj, float):
        import struct
        return ("float", struct.pack("<d", obj))
    return (type(obj).__name__, obj)
