"""Raw h5py traversal of a NIR file and an independent reference encoder of the published
layout (written from the docs and the shipped artefacts; never calls nir.to_dict/read)."""
import numpy as np

import h5py

from canon import build, dtype_str

# documented dataset names per primitive (docs/source: API parameter names; shipped .nir files)
REF_FIELDS = {
    "Affine": ["weight", "bias"], "Linear": ["weight"], "Scale": ["scale"], "Threshold": ["threshold"],
    "Delay": ["delay"], "I": ["r"], "IF": ["r", "v_threshold"], "LI": ["tau", "r", "v_leak"],
    "LIF": ["tau", "r", "v_leak", "v_threshold"],
    "CubaLIF": ["tau_syn", "tau_mem", "r", "v_leak", "v_threshold", "w_in"],
    "Conv1d": ["input_shape", "weight", "stride", "padding", "dilation", "groups", "bias"],
    "Conv2d": ["input_shape", "weight", "stride", "padding", "dilation", "groups", "bias"],
    "SumPool2d": ["kernel_size", "stride", "padding"], "AvgPool2d": ["kernel_size", "stride", "padding"],
    "Flatten": ["input_type", "start_dim", "end_dim"], "Input": ["shape"], "Output": ["shape"],
}


def ds_of_item(item):
    """descriptor of one dataset as found in the file"""
    sd = h5py.check_string_dtype(item.dtype)
    if sd is not None:
        v = item[()]
        if isinstance(v, (bytes, str)):
            s = v.decode("utf-8", "backslashreplace") if isinstance(v, bytes) else v
            return {"kind": "str", "vlen": sd.length is None, "enc": sd.encoding, "shape": list(item.shape), "v": s}
        vals = [x.decode("utf-8", "backslashreplace") if isinstance(x, bytes) else x for x in np.asarray(v).ravel().tolist()]
        return {"kind": "str", "vlen": sd.length is None, "enc": sd.encoding, "shape": list(item.shape), "v": vals}
    v = item[()]
    a = np.asarray(v, dtype=item.dtype)      # numpy scalars are native-endian; report the file's order
    return {"kind": "num", "dtype": dtype_str(item.dtype), "shape": list(item.shape),
            "x": np.ascontiguousarray(a).tobytes().hex()}


def traverse(group):
    out = []
    for name in group.keys():          # h5py's own iteration order (what the library's reader sees)
        item = group.get(name, getlink=False)
        if isinstance(item, h5py.Group):
            out.append([name, {"g": traverse(item)}])
        else:
            out.append([name, {"ds": ds_of_item(item)}])
    return out


def traverse_file(f):
    with h5py.File(f, "r") as h:
        return {"g": traverse(h)}


# ---------------------------------------------------------------------------------------
# reference encoder
# ---------------------------------------------------------------------------------------
def enc_value(v):
    """how a Python / numpy value is stored: dataset descriptor"""
    if isinstance(v, str):
        return {"ds": {"kind": "str", "vlen": True, "enc": "utf-8", "shape": [], "v": v}}
    if isinstance(v, dict):
        return {"g": sorted([[k, enc_value(x)] for k, x in v.items()], key=lambda kv: kv[0].encode("utf-8"))}
    a = np.asarray(v)
    if a.dtype.kind in "US":
        raise ValueError("string array")
    return {"ds": {"kind": "num", "dtype": dtype_str(a.dtype), "shape": list(a.shape),
                   "x": np.ascontiguousarray(a).tobytes().hex()}}


def pair_if_int(v):
    return (v, v) if isinstance(v, int) and not isinstance(v, bool) or isinstance(v, bool) else v


def ref_node(recipe):
    """expected HDF5 sub-tree of one node, from its construction recipe and the documented
    meaning of the parameters"""
    kind = recipe["type"]
    items = [["type", enc_value(kind)]]
    if kind == "NIRGraph":
        children = sorted([[name, ref_node(r)] for name, r in recipe["nodes"]], key=lambda kv: kv[0].encode("utf-8"))
        items.append(["nodes", {"g": children}])
        edges = recipe["edges"]
        if edges:
            items.append(["edges", {"ds": {"kind": "str", "vlen": True, "enc": "utf-8", "shape": [len(edges), 2],
                                           "v": [x for e in edges for x in e]}}])
        else:
            items.append(["edges", {"ds": {"kind": "num", "dtype": "<f8", "shape": [0], "x": ""}}])
        meta = build(recipe["meta"]) if recipe.get("meta") is not None else {}
    else:
        kw = {k: build(v) for k, v in recipe["kwargs"]}
        meta = kw.pop("metadata", {})
        vals = {}
        if kind in ("Input", "Output") and "types" in recipe:
            # the public type attributes were assigned after construction: `shape` documents the node's own side
            t = build(recipe["types"][0 if kind == "Input" else 1])
            s = list(t.values())[0]
            vals["shape"] = s if isinstance(s, np.ndarray) else np.array(s)
        elif kind in ("Input", "Output"):
            s = kw["input_type" if kind == "Input" else "output_type"]
            if isinstance(s, dict):
                s = list(s.values())[0]
            vals["shape"] = s if isinstance(s, np.ndarray) else np.array(s)
        elif kind == "Flatten":
            s = kw.get("input_type")
            if isinstance(s, dict):
                s = list(s.values())[0]
            vals["input_type"] = s if isinstance(s, np.ndarray) else np.array(s)
            vals["start_dim"] = kw.get("start_dim", 1)
            vals["end_dim"] = kw.get("end_dim", -1)
        else:
            for f in REF_FIELDS[kind]:
                if f in kw:
                    vals[f] = kw[f]
            if kind == "Conv2d":
                for f in ("stride", "padding", "dilation"):
                    vals[f] = pair_if_int(vals[f])
            if kind == "CubaLIF":
                vals["w_in"] = np.ones_like(kw["v_threshold"]) * kw.get("w_in", 1.0)
        for f in REF_FIELDS[kind]:
            items.append([f, enc_value(vals[f])])
    if meta:
        items.append(["metadata", enc_value(meta)])
    return {"g": sorted(items, key=lambda kv: kv[0].encode("utf-8"))}


def ref_file(recipe, version):
    return {"g": sorted([["node", ref_node(recipe)], ["version", enc_value(version)]], key=lambda kv: kv[0].encode("utf-8"))}
