"""./check Cxx --replay file: re-run one recorded case against the real code and the model."""
import json
import os

import driver
from canon import canon_node, err_name, strip_layout
from core import impl_construct, quiet


def run(prop, path):
    with open(path) as f:
        rp = json.load(f)
    print(json.dumps({k: rp.get(k) for k in ("property", "kind", "what", "signature")}, indent=1))
    if rp.get("kind") == "tie-broken":
        print("no failing input recorded; what no longer checks:")
        print(json.dumps(rp.get("no_longer_checks"), indent=1, default=str)[:4000])
        return 1
    case = rp["case"]
    print("case:", json.dumps(case)[:2000])
    print("recorded observed:", json.dumps(rp.get("observed"))[:1000])
    print("required:", json.dumps(rp.get("required"))[:1000])
    op = case.get("op")
    try:
        if op in ("conv_out", "flatten", "construct", "graph"):
            try:
                r = driver.run([strip_layout(case)])[0]
                print("model now:", json.dumps(r)[:1500])
            except Exception as e:  # noqa
                print("model unavailable:", e)
        if op == "construct":
            try:
                n = impl_construct(case)
                print("implementation now:", json.dumps(canon_node(n))[:1500])
            except Exception as e:  # noqa
                print("implementation now raises:", err_name(e), e)
    except Exception as e:  # noqa
        print("replay error:", e)
    return 1
