"""Steps 1-3 of the pipeline: regenerate Generated/*.lean, build, audit axioms."""
import fcntl
import os
import re
import shutil
import subprocess
import tempfile

import translate

HERE = os.path.dirname(os.path.abspath(__file__))
VERIF = os.path.dirname(HERE)
LEAN_DIR = os.path.join(VERIF, "lean")
ALLOWED_AXIOMS = {"propext", "Classical.choice", "Quot.sound"}
FORBIDDEN = re.compile(r"\bsorry\b|\badmit\b|^\s*axiom\s|native_decide|bv_decide|implemented_by|\bunsafe\s|maxHeartbeats\s+0")


class Infra(Exception):
    pass


def _run(cmd, timeout=3600):
    try:
        p = subprocess.run(cmd, cwd=LEAN_DIR, stdout=subprocess.PIPE, stderr=subprocess.STDOUT, timeout=timeout)
    except FileNotFoundError as e:
        raise Infra(f"toolchain missing: {e}")
    except subprocess.TimeoutExpired:
        raise Infra(f"timeout: {' '.join(cmd)}")
    return p.returncode, p.stdout.decode("utf-8", "replace")


def _strip_comments(text):
    text = re.sub(r"/-.*?-/", lambda m: "\n" * m.group(0).count("\n"), text, flags=re.S)
    return re.sub(r"--.*", "", text)


def grep_forbidden():
    hits = []
    for root in ("NirVerif", "Driver"):
        for dp, _, fns in os.walk(os.path.join(LEAN_DIR, root)):
            for fn in fns:
                if not fn.endswith(".lean"):
                    continue
                p = os.path.join(dp, fn)
                with open(p) as f:
                    body = _strip_comments(f.read())
                for i, line in enumerate(body.splitlines(), 1):
                    if FORBIDDEN.search(line):
                        hits.append(f"{os.path.relpath(p, LEAN_DIR)}:{i}: {line.strip()[:80]}")
    return hits


def theorem_at(path, line):
    """name of the theorem enclosing `line` in a Lean file"""
    try:
        with open(os.path.join(LEAN_DIR, path)) as f:
            lines = f.read().splitlines()
    except OSError:
        return None
    ns = None
    name = None
    for i, l in enumerate(lines[:line], 1):
        m = re.match(r"\s*namespace\s+(\S+)", l)
        if m:
            ns = m.group(1)
        m = re.match(r"\s*(?:private\s+)?(?:theorem|lemma|def|example)\s+(\S+)?", l)
        if m:
            name = m.group(1) or "example"
    if name is None:
        return None
    return f"{ns}.{name}" if ns else name


def parse_errors(out):
    errs = []
    for m in re.finditer(r"^error: (\S+?\.lean):(\d+):(\d+): (.*)$", out, flags=re.M):
        errs.append((m.group(1), int(m.group(2)), m.group(4)))
    for m in re.finditer(r"^(\S+?\.lean):(\d+):(\d+): error(?:\([^)]*\))?: (.*)$", out, flags=re.M):
        errs.append((m.group(1), int(m.group(2)), m.group(4)))
    return errs


def prepare(prop, reg, thorough=False):
    """Returns dict(driver_ok, broken, obligations, discharged, axioms, checker_cmd)."""
    os.makedirs(os.path.join(LEAN_DIR, ".lake"), exist_ok=True)
    lock = open(os.path.join(LEAN_DIR, ".lake", "verif.lock"), "w")
    fcntl.flock(lock, fcntl.LOCK_EX)
    try:
        return _prepare(prop, reg, thorough)
    finally:
        fcntl.flock(lock, fcntl.LOCK_UN)
        lock.close()


def _prepare(prop, reg, thorough):
    broken = []
    theorems = list(reg["theorems"])
    module = reg["module"]
    # 1. regenerate ------------------------------------------------------------------
    changed, refusals = translate.regenerate()
    relevant = set(reg.get("translator", []))
    for item, msg in refusals:
        if item in relevant or item in ("T1", "T2"):
            broken.append({"kind": "translator-refusal", "name": item, "detail": msg})
    # 2. build -----------------------------------------------------------------------
    rc, out = _run(["lake", "build", "driver"])
    driver_ok = rc == 0
    if not driver_ok:
        errs = parse_errors(out)
        if not errs and "error" not in out:
            raise Infra("lake build driver failed without Lean errors:\n" + out[-2000:])
        broken.append({"kind": "model-build", "name": "driver",
                       "detail": [f"{f}:{l}: {m}" for f, l, m in errs][:10] or out[-1500:]})
    rc, out = _run(["lake", "build", module])
    failed_thms = set()
    if rc != 0:
        errs = parse_errors(out)
        if not errs and "error" not in out:
            raise Infra(f"lake build {module} failed without Lean errors:\n" + out[-2000:])
        prop_file = module.replace(".", "/") + ".lean"
        located = False
        for f, l, m in errs:
            t = theorem_at(f, l)
            if f == prop_file and t in theorems:
                failed_thms.add(t)
                located = True
            broken.append({"kind": "proof", "name": t or f, "detail": f"{f}:{l}: {m}"[:400]})
        if not located:
            failed_thms = set(theorems)   # a dependency no longer builds: nothing is shown
    # 3. audit -----------------------------------------------------------------------
    axioms = {}
    checker_cmd = f"cd lean && lake build {module} && lake env lean <audit of {len(theorems)} theorems: #print axioms>"
    if rc == 0:
        d = tempfile.mkdtemp(prefix="nirverif-audit-", dir="/var/tmp")
        try:
            p = os.path.join(d, "Audit.lean")
            with open(p, "w") as f:
                f.write(f"import {module}\n" + "".join(f"#print axioms {t}\n" for t in theorems))
            rc2, out2 = _run(["lake", "env", "lean", p])
        finally:
            shutil.rmtree(d, ignore_errors=True)
        for t in theorems:
            m = re.search(r"'" + re.escape(t) + r"' depends on axioms: \[([^\]]*)\]", out2)
            m0 = re.search(r"'" + re.escape(t) + r"' does not depend on any axioms", out2)
            if m:
                ax = [a.strip() for a in m.group(1).replace("\n", " ").split(",") if a.strip()]
            elif m0:
                ax = []
            else:
                failed_thms.add(t)
                broken.append({"kind": "audit", "name": t, "detail": "theorem missing: " + out2[-300:]})
                continue
            axioms[t] = ax
            bad = [a for a in ax if a not in ALLOWED_AXIOMS]
            if bad:
                failed_thms.add(t)
                broken.append({"kind": "audit", "name": t, "detail": f"non-standard axioms {bad}"})
    hits = grep_forbidden()
    if hits:
        broken.append({"kind": "audit", "name": "forbidden-token", "detail": hits[:10]})
        failed_thms = set(theorems)
    res = {"driver_ok": driver_ok, "broken": broken, "obligations": theorems,
           "discharged": [t for t in theorems if t not in failed_thms], "axioms": axioms,
           "checker_cmd": checker_cmd}
    if thorough and rc == 0:
        rc3, out3 = _run(["lake", "env", "leanchecker", module], timeout=1800)
        res["leanchecker"] = {"module": module, "exit": rc3, "tail": out3[-200:]}
        if rc3 != 0:
            broken.append({"kind": "audit", "name": "leanchecker", "detail": out3[-500:]})
    return res
