"""Canonical JSON encoding of Python/numpy values and NIR nodes (shared by the model's
line protocol and the implementation side), and its inverse `build`."""
import struct

import numpy as np

ERR_ENUM = ["KeyError", "TypeError", "ValueError", "AssertionError", "NotImplementedError",
            "IndexError", "AttributeError"]


def err_name(exc):
    """Nearest class in the MRO that belongs to the enum; else Other."""
    for c in type(exc).__mro__:
        if c.__name__ in ERR_ENUM:
            return c.__name__
    return "Other"


def dtype_str(dt):
    dt = np.dtype(dt)
    if dt.kind == "O":
        return "|O"
    s = dt.str
    if s[0] == "=":
        s = "<" + s[1:]
    return s


def canon(v):
    if v is None:
        return None
    if isinstance(v, np.generic) and not isinstance(v, (np.str_, np.bytes_)):
        return {"n": dtype_str(v.dtype), "x": v.tobytes().hex()}
    if isinstance(v, bool):
        return {"b": v}
    if isinstance(v, int):
        return {"i": v}
    if isinstance(v, float):
        return {"f": struct.pack("<d", v).hex()}
    if isinstance(v, str) and not isinstance(v, np.str_):
        return {"s": v}
    if isinstance(v, bytes) and not isinstance(v, np.bytes_):
        return {"y": v.hex()}
    if isinstance(v, np.ndarray):
        if v.dtype.kind == "O":
            return {"a": "|O", "sh": list(v.shape), "o": [canon(x) for x in v.ravel().tolist()]}
        return {"a": dtype_str(v.dtype), "sh": list(v.shape), "x": np.ascontiguousarray(v).tobytes().hex()}
    if isinstance(v, np.generic):
        return {"n": dtype_str(v.dtype), "x": v.tobytes().hex()}
    if isinstance(v, tuple):
        return {"t": [canon(x) for x in v]}
    if isinstance(v, list):
        return {"l": [canon(x) for x in v]}
    if isinstance(v, dict):
        return {"d": [[k if isinstance(k, str) else repr(k), canon(x)] for k, x in v.items()]}
    return {"?": type(v).__name__}


def build(j):
    if j is None:
        return None
    if "b" in j:
        return bool(j["b"])
    if "i" in j:
        return int(j["i"])
    if "f" in j:
        return struct.unpack("<d", bytes.fromhex(j["f"]))[0]
    if "s" in j:
        return j["s"]
    if "y" in j:
        return bytes.fromhex(j["y"])
    if "n" in j:
        return np.frombuffer(bytes.fromhex(j["x"]), dtype=np.dtype(j["n"]))[0]
    if "a" in j:
        dt = np.dtype(j["a"])
        a = np.frombuffer(bytes.fromhex(j["x"]), dtype=dt).reshape(j["sh"]).copy()
        lay = j.get("layout")
        if lay:
            a = relayout(a, lay)
        return a
    if "t" in j:
        return tuple(build(x) for x in j["t"])
    if "l" in j:
        return [build(x) for x in j["l"]]
    if "d" in j:
        return {k: build(x) for k, x in j["d"]}
    raise ValueError(f"bad value {j!r}")


def relayout(a, lay):
    """Same values, different memory layout (must be inert)."""
    if lay == "F" and a.ndim >= 2:
        return np.asfortranarray(a)
    if lay == "neg" and a.ndim >= 1:
        return a[::-1].copy()[::-1]
    if lay == "step" and a.ndim >= 1:
        big = np.zeros((a.shape[0] * 2,) + a.shape[1:], dtype=a.dtype)
        big[::2] = a
        return big[::2]
    if lay == "T" and a.ndim >= 2:
        return np.ascontiguousarray(a.T).T
    if lay == "ro":
        a = a.copy()
        a.flags.writeable = False          # a frozen (read-only) array: still the node's own mutable-later state
        return a
    if lay == "bcast" and a.ndim >= 1 and a.size:
        item = a.reshape(-1)[:1]
        if a.tobytes() == item.tobytes() * a.size:
            return np.broadcast_to(item.reshape(()), a.shape)
    return a


def strip_layout(j):
    """The model never sees memory layout."""
    if isinstance(j, dict):
        return {k: strip_layout(v) for k, v in j.items() if k != "layout"}
    if isinstance(j, list):
        return [strip_layout(v) for v in j]
    return j


PLAIN_SKIP = ("input_type", "output_type", "metadata")


def canon_node(n):
    """Observation of a real NIR node, in the shape the driver prints."""
    import dataclasses

    import nir
    kind = type(n).__name__
    fields, children, edges = [], [], []
    for f in dataclasses.fields(n):
        if f.name in PLAIN_SKIP:
            continue
        v = getattr(n, f.name)
        if isinstance(n, nir.NIRGraph) and f.name == "nodes":
            children = [[k, canon_node(c)] for k, c in v.items()]
        elif isinstance(n, nir.NIRGraph) and f.name == "edges":
            edges = [[a, b] for a, b in v]
        else:
            fields.append([f.name, canon(v)])
    return {"type": kind, "fields": fields, "in": canon(n.input_type), "out": canon(n.output_type),
            "meta": canon(getattr(n, "metadata", {})), "nodes": children, "edges": edges}
