"""Per-property registry: Lean module + theorems (proof obligations), translator items,
the suite that runs correspondence and the oracle search."""
from props import c01, c02, c03, c04, c05, c06, c07, c08, c09, c10, c11, c12, c13, c14, c15, c16, c17, c18, c19, c20

TRUSTED_BASE = [
    "Lean 4.33 kernel; axioms limited to propext, Classical.choice, Quot.sound (audited by #print axioms on every run)",
    "harness/translate.py (source -> Generated/*.lean), cross-executed against the source on every run",
    "modelled, not verified: CPython semantics used by nir, dataclasses.asdict/deepcopy, numpy, h5py/libhdf5, the filesystem",
    "harness: generators, canonicaliser, independent oracles; the compiled Lean driver's JSON codec",
]

REG = {
    "C06": {
        "module": "NirVerif.Properties.C06Generated",
        "theorems": ["NirVerif.C06.axis", "NirVerif.C06.axis_no_fit", "NirVerif.C06.conv_out_slide", "NirVerif.C06.forms",
                     "NirVerif.C06.scalar_form", "NirVerif.C06.reads_tuple", "NirVerif.C06.reads_list",
                     "NirVerif.C06.reads_ndarray", "NirVerif.C06.same_keeps", "NirVerif.C06.valid_is_zero",
                     "NirVerif.C06.call_sites_generated"],
        "translator": ["T4", "T21"],
        "run": c06.run,
        "rule": "Per-axis (n,p,d,k,s) enumerated over the small scope, random 2-d hyper-parameter sets in every "
                "container form, Conv1d/Conv2d constructions and Input->X->Output inference chains; oracle = literal "
                "sliding-window loop (thorough: a real zero-padded strided dilated correlation).",
        "level_text": "Kernel-checked theorems: the per-axis formula the translator extracts from calculate_conv_output "
                      "equals the sliding-window position count for all sizes/kernels/strides/paddings/dilations (and is "
                      "<= 0 when the kernel does not fit); and about the hand-written model of the function around it "
                      "(isinstance dispatch, _index_tuple, 'valid'/'same'): on integer tuples with any number of axes it "
                      "returns exactly the sliding-window counts (conv_out_slide); any two argument tuples with the same "
                      "integer readings - scalar, tuple, list, ndarray of any integer dtype - give the same result (forms, "
                      "scalar_form, reads_*); 'same' keeps the spatial size and 'valid' is zero padding. The embedding in "
                      "the inference loop (Conv1d/Conv2d/pooling recomputation) is proved in C08 (stepNode_conv2d/1d/pool); "
                      "the Conv constructors are hand-modelled and tied by differential testing plus an independent oracle; which "
                      "expression each call site binds to which parameter, and how the declared output is assembled from the "
                      "result, is regenerated from the source (T21, call_sites_generated).",
        "level_note": "Lean kernel + translator T4, T21 + correspondence sampling for the glue; float64 vs exact rationals below 2^52.",
        "technique": "Lean 4 proof over translator-generated kernel (T4) and regenerated call-site table (T21) + model/implementation correspondence",
        "assumptions": ["calculate_conv_output computes in float64, the theorem in exact rationals: equal while "
                        "|numerator| < 2^52"],
    },
    "C07": {
        "module": "NirVerif.Properties.C07",
        "theorems": ["NirVerif.C07.flatten_eq_spec", "NirVerif.C07.count", "NirVerif.C07.rank"],
        "translator": ["T5"],
        "run": c07.run,
        "rule": "All shapes of rank 1..4 (thorough 1..5) with axis lengths 1..3 x all valid (start,end) pairs in all "
                "four sign combinations; Flatten nodes built from ndarray/list/tuple/dict shapes; Flatten typed by "
                "inference; oracle = reshaping a real numpy array.",
        "level_text": "Kernel-checked theorems about the translator-generated calc_flatten_output: for every shape and every "
                      "valid (start,end) incl. negative indices it equals take/product/drop, preserves the element count and "
                      "drops the rank by e-s. Construction, inference and file paths are tied by correspondence + numpy oracle.",
        "level_note": "Lean kernel + translator T5 + correspondence sampling for Flatten construction/inference.",
        "technique": "Lean 4 proof over translator-generated kernel + model/implementation correspondence",
        "assumptions": [],
    },
}


def _technique(translator):
    """names the deciding method: Lean 4 proof; which translator items regenerate definitions the theorems are about"""
    gen = [t for t in translator if t not in ("T1", "T2")]
    tables = [t for t in translator if t in ("T1", "T2")]
    parts = ["Lean 4 proof over hand-written model"]
    if gen:
        parts.append("and over definitions regenerated from the source on every run (translator " + ", ".join(gen) + ")")
    if tables:
        parts.append("with tables regenerated from the source (" + ", ".join(tables) + ")")
    return " ".join(parts) + " + model/implementation correspondence"


def _reg(pid, run, theorems=(), translator=("T1",), rule="", level_text="", level_note="", technique="", assumptions=(),
         module=None):
    REG[pid] = {"module": module or f"NirVerif.Properties.{pid}", "theorems": list(theorems), "translator": list(translator),
                "run": run, "rule": rule, "level_text": level_text, "level_note": level_note,
                "technique": technique or _technique(translator),
                "assumptions": list(assumptions)}


_reg("C01", c01.run, translator=("T1", "T2", "T3"), module="NirVerif.Properties.C01Meta",
     theorems=["NirVerif.C01.edges_roundtrip", "NirVerif.C01.transport", "NirVerif.C01.nothing_added", "NirVerif.C01.type_tag",
               "NirVerif.C01.leaf_end_to_end", "NirVerif.C01.leaf_native_roundtrip", "NirVerif.C01.leaf_exact",
               "NirVerif.C01.leaf_exact_conv2d", "NirVerif.C01.graph_end_to_end", "NirVerif.C01.graph_file_exact",
               "NirVerif.C01.fileExact_spec",
               "NirVerif.C01.child_step", "NirVerif.C01.backVal_array",
               "NirVerif.C01.backVal_npscalar", "NirVerif.C01.backVal_int",
               "NirVerif.C01.back_of_encodes", "NirVerif.C01.read_factors", "NirVerif.C01.leaf_end_to_end_meta",
               "NirVerif.C01.leaf_native_roundtrip_meta"],
     rule="Random graphs over all 17 primitives + nested graphs (depth <= 3), 0-8 nodes, arbitrary names (ASCII, Latin-1, "
          "CJK, emoji, whitespace, dots, reserved words, '/', NUL), arbitrary edge multisets (cyclic, self-loops, parallel, "
          "dangling, dotted), 16 dtypes, every hyper-parameter container form, metadata trees; str / pathlib.Path / "
          "BytesIO targets; strict two-sided comparator (values as numbers/arrays, dtype- and NaN-aware) plus fresh "
          "construction for the types clause; the model's written tree and read-back graph are compared as well.",
     level_text="Kernel-checked transport through the file form: every leaf value of the dictionary form, at any path and "
                "nesting depth, is found at the same path in the dictionary the reader hands to the constructors (nothing "
                "lost or renamed), no key is added, the type tag selects the same class, and the edge list comes back "
                "exactly, in order, with duplicates, self-loops, dotted and non-ASCII endpoints. End to end for a single "
                "leaf primitive with the generic dictionary form (leaf_end_to_end): whenever write succeeds, read of the "
                "file IS the class constructor applied to the transported field values (each value as create_dataset "
                "stores it and item[()] returns it), whatever order the file lists the members in, the empty metadata "
                "re-defaulted; for file-native values (arrays, little-endian numpy scalars - every node that itself came "
                "from a file) that is the constructor on the node's own field values (leaf_native_roundtrip), i.e. read o "
                "write agrees with the dictionary round trip of C13; and a node built by the constructor of a class that stores its "
                "parameters unchanged, or Conv2d (13 of the 17 classes), with native values is read back as EXACTLY the same node "
                "(leaf_exact: fields, value types, derived types, metadata). End to end for flat graphs (graph_end_to_end): for a graph "
                "whose children are leaf primitives of any class (Input/Output/Flatten with their class-specific from_dict "
                "included; any number of nodes, any names, any edge list; empty metadata), whenever write succeeds and "
                "read returns a graph, that graph has exactly the same edges in order, empty metadata, the same set of "
                "node names (in link-name order) and under every name the node the class constructor builds from the "
                "transported field values of the original; and when the children are constructor-built nodes of the parameter-"
                "storing classes or Conv2d with file-native values, Inputs and Outputs, the graph read back IS the original "
                "graph with its node dictionary re-ordered by link name (graph_file_exact: every node exactly itself, the "
                "edge list exactly itself). For EVERY node or graph, any nesting depth and any metadata (read_factors): "
                "whenever write succeeds, read of the file is from_dict applied to a dictionary that is Back-related to "
                "to_dict() of what was written - same keys and nesting at every depth (an empty metadata apart), every "
                "plain value transported, nothing added (Encodes / back_of_encodes). With NON-EMPTY METADATA "
                "(leaf_end_to_end_meta): read of a written leaf primitive is the class constructor on the transported field "
                "values and the metadata dictionary the file returns, which is Back-related to the original at every depth. "
                "PARTIAL: what from_dict builds for NESTED sub-graphs is not unfolded inside graph_end_to_end (it is "
                "covered by read_factors + the dictionary-level theorems of C13 and by the correspondence run and the "
                "oracle); that the constructor applied to transported values yields an *equivalent* node is C05/C19 + oracle.",
     level_note="Lean kernel; hand-written models of to_dict/from_dict/write/read and of the h5py contract (create_dataset conversions, item[()], link names, iteration order), validated against the real library and real files on every run.")
_reg("C02", c02.run, translator=("T1", "T18"), module="NirVerif.Properties.C02Generated",
     theorems=["NirVerif.C02.array_bits", "NirVerif.C02.scalar_bits", "NirVerif.C02.param_roundtrip", "NirVerif.C02.toDict_field",
               "NirVerif.C02.dispatch_generated", "NirVerif.C02.array_branch_generated", "NirVerif.C02.other_branches_generated"],
     rule="Every primitive with array-valued fields x 14 numeric dtypes x rank 0..5 (quick: 260 sampled combinations; "
          "thorough: all) with zero-length axes, random and special bit patterns (quiet/signalling NaN payloads, signed "
          "zeros, subnormals, infinities, integer extremes), six memory layouts (C, Fortran, negative/step strides, "
          "transposed, broadcast view), nesting depth 0..2, str/Path/BytesIO targets; comparator = dtype, shape, tobytes().",
     level_text="Kernel-checked for the NIR side of the pipeline: an array written with its own dtype and read back with "
                "item[()] has identical dtype, shape and bytes for every storable dtype, rank (0 incl.), shape and bit "
                "pattern; this holds for any field of any node at any depth of the written dictionary; to_dict passes "
                "fields unconverted. PARTIAL by nature: that h5py/libhdf5 store and return the same bits, and that memory "
                "layout is inert, are contract assumptions exercised only by the correspondence/oracle run.",
     level_note="Lean kernel; hand-written models of to_dict/from_dict/write/read and of the h5py contract (create_dataset conversions, item[()], link names, iteration order), validated against the real library and real files on every run.")
_reg("C03", c03.run, translator=("T1", "T2", "T3", "T13"), module="NirVerif.Properties.C03Generated",
     theorems=["NirVerif.C03.names", "NirVerif.C03.names_cover", "NirVerif.C03.toDict_keys_generic", "NirVerif.C03.root",
               "NirVerif.C03.edges_layout", "NirVerif.C03.value_layout", "NirVerif.Lemmas.write_encodes",
               "NirVerif.C03.file_exact", "NirVerif.C03.leaf_group", "NirVerif.C03.graph_group",
               "NirVerif.C03.write_shape_generated", "NirVerif.C03.badName_generated", "NirVerif.C03.root_generated"],
     rule="Random graphs of the C01 domain (all primitives, nesting, metadata, unicode names, 16 dtypes, every hyper-parameter "
          "container form): the raw h5py traversal of the written file is compared (a) with an independent Python reference "
          "encoder written from the documentation and (b) with the tree the Lean model's writer prints; read_version is "
          "checked on every file.",
     level_text="Kernel-checked: for each of the 18 serialisable classes the member names that to_dict/write produce - "
                "computed from the translator-generated dataclass field table - are exactly the documented ones (so a "
                "renamed, added or dropped field, or storing input_type/output_type, fails the build); the file root is "
                "exactly {node, version} and read_version returns the written version; edges are an n-by-2 string array in "
                "edge order (empty float64 dataset for no edges); strings, arrays and ints are stored as documented. The "
                "WHOLE FILE, for every node or graph at any nesting depth and with any metadata (file_exact): whenever "
                "write succeeds the file holds exactly version and node, and the node group is exactly the encoding of "
                "to_dict() - one dataset per plain entry holding what create_dataset makes of the value, one sub-group per "
                "dictionary entry (recursively), no metadata member for empty metadata, no name twice and NOTHING ELSE "
                "(Encodes / write_encodes); spelled out for a primitive's group (leaf_group) and for a graph's group "
                "(graph_group: type, edges, nodes/<name> per child and no other link, metadata only when non-empty).",
     level_note="Lean kernel + T1; h5py's create_dataset conversions are a modelled contract validated against real files on every run.")
_reg("C04", c04.run, translator=("T1", "T13", "T19"), module="NirVerif.Properties.C04Generated",
     theorems=["NirVerif.C04.width_invariance", "NirVerif.C04.scalar_width_invariance", "NirVerif.C04.string_decoded",
               "NirVerif.C04.order_invariance", "NirVerif.C04.optional_defaults", "NirVerif.C04.reader_generated"],
     rule="The 8 shipped artefacts (read, re-write, re-read); files produced by an independent raw-h5py encoder with, per "
          "dataset, variable/fixed-length x ASCII/UTF-8 x NUL/space-padded strings, integer widths int8..int64 / uint8.."
          "uint32 / big-endian, contiguous/chunked/gzip storage, creation-order tracking with shuffled member order, fixed-"
          "width edge arrays, optional members omitted; every choice once alone and in random combinations; the model's "
          "reader is fed the raw traversal of the same files.",
     level_text="Kernel-checked: shapes and hyper-parameters stored in ANY integer dtype that holds them (width, signedness, "
                "byte order) decode to the same integers (two's-complement round trip proved for all widths), member order "
                "cannot influence keyword binding, and the optional members have the documented defaults in the generated "
                "field table. Physical string encodings, chunking, compression are invisible to the model's reader by "
                "construction; that the real reader agrees is established by the correspondence run.",
     level_note="Lean kernel; hand-written models of to_dict/from_dict/write/read and of the h5py contract (create_dataset conversions, item[()], link names, iteration order), validated against the real library and real files on every run.")
_reg("C05", c05.run, translator=("T1", "T9", "T17"), module="NirVerif.Properties.C05Generated",
     theorems=["NirVerif.C05.affine_linear", "NirVerif.C05.elementwise1", "NirVerif.C05.neuron",
               "NirVerif.C05.io_ndarray", "NirVerif.C05.io_sequence", "NirVerif.C05.stable_dict", "NirVerif.C05.stable_file",
               "NirVerif.C05.matvec_generated", "NirVerif.C05.elementwise_generated", "NirVerif.C05.elementwise_source_generated"],
     rule="Every element-wise primitive x rank 0..3 (thorough 0..4) x axis lengths 1..3 with all 16 dtypes cycled; "
          "Affine/Linear weights of rank 2..5; Input/Output shapes as ndarray(int64/int32)/list/tuple/dict; each node "
          "also taken through a dict and a file round trip; oracle = numpy evaluating the documented equation.",
     level_text="Kernel-checked: for every weight batch++[m,n] Affine/Linear are built and declare int64 vectors "
                "batch++[n] / batch++[m], which is exactly the operand/result of the batched matrix-vector product; "
                "element-wise primitives and neuron models declare the parameter shape (any rank incl. 0); Input/Output "
                "mirror a given ndarray, list or tuple; the declared types are stable under the dictionary round trip "
                "and, for file-native parameter values, under the file round trip (stable_dict, stable_file: the node "
                "that comes back IS the original node, for the 12 classes that store their parameters unchanged). "
                "Constructors are tied to the model by differential testing of every primitive; round-trip stability "
                "of the remaining classes by the oracle.",
     level_note="Lean kernel; hand-written model of each __post_init__ over the translator-generated field table (T1); "
                "correspondence sampling; numpy shape semantics are modelled, not verified.")
_reg("C08", c08.run, translator=("T1", "T4", "T5"), module="NirVerif.Properties.C08Built",
     theorems=["NirVerif.C08.restore", "NirVerif.C08.localTyping_of_nodes", "NirVerif.C08.restoreG",
               "NirVerif.C08.localTypingK_of_nodes", "NirVerif.C08.restore_keyed", "NirVerif.C08.restore_settled",
               "NirVerif.C08.nodeOKK_of_declares", "NirVerif.C08.built_affine_linear", "NirVerif.C08.built_elementwise",
               "NirVerif.C08.built_neuron"],
     level_text="Kernel-checked: for every flat graph with unique names in which every node is an Input or reachable "
                "from one, and every typing tau that is consistent edge-by-edge with the partly erased graph, infer_types "
                "succeeds, leaves every node with exactly tau's shapes (Outputs included, none undefined) and the result "
                "passes the type check - for any topology, edge order, cycle, parallel edge, fan-in/out (work-list "
                "invariant: sources seen, soundness, closure under successors, untouched-if-unseen). The edge-local "
                "condition is itself proved (restore_keyed, with the standard port names) for every kind of annotation "
                "NIR allows to be undefined: erased/wrong Output shapes, erased input sides, erased Flatten output types, "
                "erased Conv1d/Conv2d types (input_shape=None) and pooling types - the loop body's recomputation of "
                "calc_flatten_output / calculate_conv_output from the restored input shape is part of the proved step, "
                "including the tuple-of-numpy-scalars / ndarray-tail readings of the shape values. The per-node "
                "hypothesis states the annotated output shape in terms of the (translator-generated) shape kernels "
                "applied to the canonical integer tuple; restore_settled adds that Output nodes mirror their input. For the "
                "parameterised primitives the per-node hypothesis is not assumed but derived from how nodes are built: "
                "whatever postInit returns for Affine / Linear / Scale / Threshold / Delay / I / IF / LI / LIF meets it for "
                "the shapes the mathematics implies (built_affine_linear, built_elementwise, built_neuron over C05).",
     level_note="Lean kernel; hand-written model of infer_types/_check_types; per-kind shape arithmetic of Conv/Flatten is "
                "covered by C06/C07 theorems over the translator-generated kernels, its embedding in the loop body by sampling.",
     rule="Consistent graphs built forwards from Inputs (all primitives, fan-in/out, residual/recurrent/self/parallel "
          "edges, shuffled edge and node order) with random subsets of erasable annotations erased or an Output shape "
          "replaced by a wrong one; ground truth known by construction.")
_reg("C09", c09.run, translator=("T1", "T15"), module="NirVerif.Properties.C09Generated",
     theorems=["NirVerif.C09.iff", "NirVerif.C09.rejects", "NirVerif.C09.check_errors_generated", "NirVerif.C09.checkEdge_errors"],
     rule="All multigraphs on 2 nodes with <=2 (thorough <=3) edges x 4 shape options per port, plus sampled graphs of "
          "1-5 nodes with shapes of rank 0..3, undefined ports, tuple/int32/int64 containers, cycles and parallel edges.",
     level_text="Kernel-checked: on every flat single-port graph (any topology, order, multiplicity) the modelled check "
                "returns True iff every edge joins a defined output shape to an equal defined input shape, and otherwise "
                "raises ValueError. The model is tied to _check_types by differential testing on enumerated and sampled graphs.",
     level_note="Lean kernel; hand-written model of _check_types and of np.array_equal on shape values; correspondence sampling.")
_reg("C10", c10.run, module="NirVerif.Properties.C10Consistent", translator=("T1", "T14"),
     theorems=["NirVerif.Model.workList", "NirVerif.C10.frame", "NirVerif.C10.untouched", "NirVerif.C10.reach",
               "NirVerif.C10.idempotent_partial", "NirVerif.C10.idempotent_consistent", "NirVerif.C10.worklist_generated",
               "NirVerif.C10.workList_pops_head"],
     rule="All multigraphs over 9 node archetypes (typed/untyped Input, element-wise, Flatten, Conv, pooling, typed/untyped "
          "Output) on <=2 nodes with <=2 edges (thorough: plus a 10% sample on 3 nodes); consistent graphs with cycles, "
          "self-loops, parallel edges under all edge permutations (<=4 edges); arbitrary graphs with unreachable "
          "components, dangling edges and nested sub-graphs. Each run under a 5 s watchdog, with deep snapshots before/"
          "after and a second run.",
     level_text="Kernel-checked: (1) termination - the modelled work-list is a well-founded recursion accepted by Lean "
                "with its decreasing proof for every multigraph; (2) frame - edges, names, order, kinds, metadata and "
                "every field are unchanged except an undefined-output Conv's input_shape, success or exception; (3) a "
                "node not reachable from an Input is returned unchanged; (4) after a successful run every reachable "
                "node has both types defined (closure of the work-list under successors); (5) idempotence: on a "
                "graph whose edges are all fixed points of the loop body a further run is the identity "
                "(idempotent_partial), and that hypothesis is discharged for every type-consistent graph with any subset "
                "of its erasable annotations erased (idempotent_consistent: the first run succeeds and a second run "
                "changes nothing). PARTIAL: for graphs that are *not* type-consistent the full statement is kept as "
                "`idempotent_full : Prop` and is only tested, not proved.",
     level_note="Lean kernel; hand-written model of _forward_type_inference (active definition); object identity and "
                "the real loop's termination are exhibited by the correspondence run (watchdog), not by the theorem.")
_reg("C11", c11.run,
     theorems=["NirVerif.C11.name_generated", "NirVerif.C11.names_injective", "NirVerif.C11.names_distinct",
               "NirVerif.C11.names_scheme", "NirVerif.C11.shape"],
     translator=("T1", "T2", "T8"),
     rule="Sequences of 1-8 (every 7th: 10-40) leaf primitives with repetition-heavy class choices favouring the "
          "i/if/li/lif prefix family, optional leading Input / trailing Output, all three calling conventions; oracle "
          "recomputes the expected names with an independent counter and checks identity, order, edges and end-point types.",
     level_text="Kernel-checked: (class, index) -> name is injective at string level for all 18 class names and every "
                "index (Nat.repr never contains '_'; no class name does), hence names are pairwise distinct for every "
                "repetition pattern; the k-th repetition is named <class>_k; for every admissible sequence from_list "
                "returns the graph [auto Input] ++ given nodes (same values, same order) ++ [auto Output] with distinct "
                "keys, chain edges and end-point types taken from the first/last node.",
     level_note="Lean kernel; hand-written model of from_list; class-name list tied to the source by T2; node-object "
                "identity is exhibited by the correspondence/oracle run only (the model has values, not object ids).")
_reg("C12", c12.run, translator=("T12",), module="NirVerif.Properties.C12Generated",
     theorems=["NirVerif.C12.init", "NirVerif.C12.fromList_mirror", "NirVerif.C12.infer_mirror", "NirVerif.C12.infer_history",
               "NirVerif.C12.fromDict_mirror", "NirVerif.C12.read_mirror", "NirVerif.C12.history_mirror",
               "NirVerif.C12.spec_generated", "NirVerif.C12.interface_generated"],
     rule="Graphs with 0..n Input/Output children under arbitrary names, optionally nested, edges into Input nodes, "
          "followed by random histories (<=4, thorough <=6 operations) over infer_types / to_dict+from_dict / write+read; "
          "after every operation graph.inputs/outputs/input_type/output_type are compared with a scan of graph.nodes at every depth.",
     level_text="Kernel-checked invariant: every constructed graph mirrors its Input/Output children; from_list and "
                "infer_types (also when it raises half-way) preserve it, hence any number of inference runs does; every graph that "
                "from_dict / read return mirrors its children; hence (history_mirror) after ANY sequence of to_dict+from_dict, "
                "write+read and infer_types the graph-level dictionaries are the children's current ones.",
     level_note="Lean kernel; hand-written model of __post_init__/infer_types; histories with round trips rely on the oracle.")
_reg("C13", c13.run, translator=("T1", "T2", "T11"), module="NirVerif.Properties.C13Generated",
     theorems=["NirVerif.C13.keys", "NirVerif.C13.no_types", "NirVerif.C13.roundtrip", "NirVerif.C13.roundtrip_exact",
               "NirVerif.C13.roundtrip_exact_conv2d", "NirVerif.C13.roundtrip_exact_input", "NirVerif.C13.roundtrip_exact_output",
               "NirVerif.C13.roundtrip_exact_flatten", "NirVerif.C13.graph_roundtrip_exact",
               "NirVerif.Lemmas.graph_dict_exactN", "NirVerif.C13.nested_roundtrip_exact", "NirVerif.C13.nested_graph",
               "NirVerif.C13.overrides_generated", "NirVerif.C13.toDict_override_generated"],
     rule="Graphs of the C01 domain plus consistent graphs with erased (None) annotations: to_dict output checked for "
          "plain values and documented keys, for shared ids and shared memory with the graph, for strict (type-identical) "
          "equivalence of from_dict(to_dict(g)), and by mutating the dictionary and re-snapshotting the graph; the model's "
          "to_dict and round trip are compared with the real ones.",
     level_text="Kernel-checked: the dictionary of a leaf primitive has exactly the node's fields, metadata and type as keys "
                "and never the derived types; from_dict(to_dict(n)) re-runs the constructor on exactly the node's own "
                "field values (None annotations carried); for a node built by the constructor of a class that stores its "
                "parameters unchanged (Affine, Linear, Scale, Threshold, Delay, I, IF, LI, LIF, SumPool2d, AvgPool2d, Conv1d), and for Conv2d "
                "(roundtrip_exact_conv2d: int -> pair normalisation is idempotent), "
                "and Input / Output / Flatten with their class-specific dictionaries (16 of the 17 leaf classes; CubaLIF's "
                "materialised w_in is not covered), that is EXACTLY the same node; a flat graph of such nodes with any "
                "edge list and any metadata round-trips to exactly the same graph (graph_roundtrip_exact), and so does every "
                "graph NESTED TO ANY DEPTH over such leaves (nested_roundtrip_exact: ExactTree, by induction over the nesting "
                "with the recursion fuel bounded by the dictionary's depth) (roundtrip_exact: a constructed node is the constructor applied to its own "
                "fields). Independence of mutable state cannot be expressed in a model of "
                "immutable values: it is observed on the real objects by the oracle (ids, shared memory, mutation).",
     level_note="Lean kernel; hand-written models of to_dict/from_dict/write/read and of the h5py contract (create_dataset conversions, item[()], link names, iteration order), validated against the real library and real files on every run.")
_reg("C14", c14.run, translator=("T1", "T4", "T5"), module="NirVerif.Properties.C14File",
     theorems=["NirVerif.C14.commute", "NirVerif.C14.commute_keyed", "NirVerif.C14.inferred_is_stable",
               "NirVerif.C14.inferableK_perm", "NirVerif.C14.dict_roundtrip_commutes", "NirVerif.C14.file_roundtrip_commutes",
               "NirVerif.C14.check_file_roundtrip", "NirVerif.C14.infer_perm", "NirVerif.C14.file_roundtrip_infer_any"],
     rule="Consistent graphs (C08 domain, plus grouped convolutions for the commutation clause) under 8 (thorough 32) "
          "operation histories of length 1-4 over {infer_types, write+read, to_dict+from_dict}: after every round trip of an "
          "inferred graph the carried annotations must be regained, and one more infer_types must give the ground-truth types.",
     level_text="Kernel-checked corollary of C08: two graphs with the same node names that are both locally consistent with a "
                "typing tau infer to the same shapes on every node (namely tau) - so inference commutes with any history of "
                "round trips that preserves local consistency; local consistency is itself proved from per-node conditions "
                "(commute_keyed) whatever subset of Output shapes, input sides, Flatten outputs, Conv types and pooling "
                "types each of the two graphs has erased - pooling types never survive a file round trip, Conv/Flatten/"
                "Input/Output annotations do; and an inferred graph is a fixed point of inference. The condition is "
                "discharged inside the model for both round trips: from_dict(to_dict(g)) IS g for graphs nested to any depth "
                "whose leaves the dictionary form reproduces (dict_roundtrip_commutes, no consistency hypothesis), and for a "
                "flat graph of file-exact nodes consistent with tau whatever read(write(g)) returns is again consistent with "
                "tau - the node dictionary comes back permuted by name, which inference does not see (inferableK_perm) - so "
                "inferring it gives tau on every node and passes the type check (file_roundtrip_commutes). Without any "
                "consistency hypothesis: inference sees the node dictionary through look-ups only (relational induction over "
                "the work-list, infer_perm), so on EVERY flat file-exact graph read(write(g)) infers with the same error as g "
                "and every name ends up holding the same node (file_roundtrip_infer_any), and the type check gives it the "
                "same verdict (check_file_roundtrip). That the real "
                "read / from_dict behave like the model's is the correspondence run on sampled histories.",
     level_note="Lean kernel; hand-written models of to_dict/from_dict/write/read and of the h5py contract (create_dataset conversions, item[()], link names, iteration order), validated against the real library and real files on every run.")
_reg("C15", c15.run, translator=("T1", "T3", "T16"), module="NirVerif.Properties.C15Generated",
     theorems=["NirVerif.C15.modes", "NirVerif.C15.step_refines", "NirVerif.C15.refines", "NirVerif.C15.read_after_history",
               "NirVerif.C15.no_hidden_state_generated"],
     rule="Random histories (3-8, thorough 3-15 calls) over write(g_i)/read/read_version on one real path with graphs of "
          "different sizes, kinds and metadata, path given as str or pathlib.Path; after every call the fd table, the file "
          "hash across reads and the result of read are checked; finally rename and delete; plus BytesIO/temporary-file "
          "targets written once and read 1-3 times.",
     level_text="Kernel-checked refinement of the file-path state machine (h5py mode table, handle bookkeeping) to the "
                "abstract register `content of the most recent write`: for every history every call leaves the handle count "
                "at 0, reads leave the content unchanged and return what reading that content returns, and after a "
                "successful write the content is exactly that write's file. The theorem is about the mode literals and "
                "`with` usage the translator extracts from serialization.py (T3); changing them breaks `modes`.",
     level_note="Lean kernel + T3; OS file-handle behaviour, truncation by libhdf5 and caching effects are outside the model "
                "and exhibited only by the correspondence/oracle run on a real path.")
_reg("C16", c16.run, translator=("T1", "T16"), module="NirVerif.Properties.C16Generated",
     theorems=["NirVerif.C16.leaf_back", "NirVerif.C16.carried", "NirVerif.C16.no_extra_keys", "NirVerif.C16.inert_members",
               "NirVerif.C16.inert_inference", "NirVerif.C16.inert_infer_types", "NirVerif.C16.inert_construction",
               "NirVerif.C16.inert_step", "NirVerif.C16.inert_check", "NirVerif.C16.no_shared_metadata_generated"],
     rule="Graphs with and without metadata trees (depth 0..4, unicode keys/strings, empty strings, bools, ints, floats, "
          "arrays, nested and empty dicts) on random subsets of nodes and sub-graphs: metadata compared after read, the raw "
          "HDF5 trees outside */metadata compared with and without metadata, node types / type check / inference compared.",
     level_text="Kernel-checked: every leaf of a metadata tree, at any depth on a graph or node at any depth, is returned "
                "under the same keys and nesting as the equal string/number/array, no key is added; the dataset stored for "
                "any other entry depends only on that entry (file inertness per member); inference never changes metadata; "
                "construction (__post_init__ of every primitive) with metadata attached gives the same node up to its "
                "metadata field (inert_construction, by exhausting all branches); the inference loop body computes the same "
                "types, input_shape and error whatever metadata the two nodes carry (inert_step); the type check gives the "
                "same verdict on every edge under any re-assignment of metadata (inert_check). Whole-file inertness is "
                "checked by the oracle.",
     level_note="Lean kernel; hand-written models of to_dict/from_dict/write/read and of the h5py contract (create_dataset conversions, item[()], link names, iteration order), validated against the real library and real files on every run.")
_reg("C17", c17.run, translator=("T1", "T16"), module="NirVerif.Properties.C17Generated",
     theorems=["NirVerif.C17.pure", "NirVerif.C17.pure_history", "NirVerif.C17.read_deterministic",
               "NirVerif.C17.observers_generated", "NirVerif.C17.no_shared_state_generated", "NirVerif.C17.no_hooks_generated"],
     rule="Graphs of the C01 domain under sequences of 1-6 observers (to_dict, write to BytesIO / path, type check, inputs, "
          "outputs), a quarter of them made to fail (unwritable, uncopyable, ragged or None metadata values; inconsistent "
          "types): deep snapshot (bytes of every array, ids of nodes and containers) before and after every call; pairs "
          "of reads of one file and of two files checked for shared objects, mutated and re-snapshotted.",
     level_text="In the model observers are functions of an immutable graph value, so the frame condition holds by "
                "construction (stated as theorems so the obligation is explicit). PARTIAL by nature: the substance of this "
                "property is the refinement check that the real observers behave like these pure functions - deep "
                "snapshots of the real objects around every observer call, failing ones included - which only the "
                "correspondence/oracle run provides. The syntactic half of that refinement is regenerated from the source on "
                "every run (T16): no statement of any observer body stores through an object reachable from the observed "
                "graph or hands it to code outside a table of readers, and nothing under nir/ keeps state between calls "
                "(observers_generated, no_shared_state_generated).",
     level_note="Lean kernel + T16 (effect analysis of the observer bodies, trusted as written); hand-written models of to_dict/from_dict/write/read and of the h5py contract (create_dataset conversions, item[()], link names, iteration order), validated against the real library and real files on every run.")
_reg("C18", c18.run, translator=("T1", "T2", "T20"), module="NirVerif.Properties.C18Generated",
     theorems=["NirVerif.C18.whitelist_documented", "NirVerif.C18.closed", "NirVerif.C18.closed_nonstring",
               "NirVerif.C18.no_type", "NirVerif.C18.mandatory_table", "NirVerif.C18.construct_missing",
               "NirVerif.C18.construct_extra", "NirVerif.C18.fromDict_generic", "NirVerif.C18.closed_at_depth",
               "NirVerif.C18.closed_child", "NirVerif.C18.fromDict_generated", "NirVerif.C18.generic_classes_generated"],
     rule="Every public and private name of nir, nir.ir, nir.ir.graph, nir.serialization and builtins, case/whitespace "
          "variants of the 18 whitelisted names and random unicode strings as `type` (full and bare dictionaries, top level "
          "and nested, via dict and via file); every single mandatory-field deletion and a non-field insertion for every "
          "primitive at nesting depth 0..2, via dict and via a raw-h5py file.",
     level_text="Kernel-checked over the generated whitelist and field table: a `type` outside the 18 documented names (or "
                "not a string, or missing) makes dict2NIRNode raise and construct nothing; the mandatory fields of every "
                "class are exactly the documented parameters; a missing mandatory field or an extra non-field key makes "
                "the constructor raise TypeError (never defaulted or ignored); for primitives without their own from_dict "
                "reading a dictionary is exactly cls(**d); and the closed world holds at EVERY nesting depth "
                "(closed_at_depth: whenever dict2NIRNode returns a node, the type tag of the dictionary and of every nested "
                "node dictionary is whitelisted; closed_child). The translator additionally checks that str2NIRNode still is "
                "`assert type in __all_ir; return globals()[type]`.",
     level_note="Lean kernel + T1/T2; CPython keyword binding and `assert` (no -O) are modelled; nested/graph-level strictness "
                "(class-specific from_dict of Input/Output/Flatten/NIRGraph) is covered by the correspondence run.")
_reg("C19", c19.run, translator=("T1", "T9", "T10"), module="NirVerif.Properties.C19Generated",
     theorems=["NirVerif.C19.neuron_IF", "NirVerif.C19.neuron_LI", "NirVerif.C19.neuron_LIF", "NirVerif.C19.weight_rank",
               "NirVerif.C19.padding_string", "NirVerif.C19.padding_bytes", "NirVerif.C19.cuba_w_in",
               "NirVerif.C19.shape_fields_generated", "NirVerif.C19.neuron_generated", "NirVerif.C19.guards_generated",
               "NirVerif.C19.weight_rank_generated", "NirVerif.C19.padding_generated"],
     rule="All shape tuples over 8 shapes of rank 0..3 for IF/LI (quick: sampled for LIF), CubaLIF with nine forms of "
          "w_in and mismatching parameter shapes, Affine/Linear weight ranks 0..5, ~25 (thorough ~100) padding strings "
          "incl. case/whitespace/unicode look-alikes and bytes; expected acceptance known by construction.",
     level_text="Kernel-checked two-sided characterisations: IF/LI/LIF accepted iff all parameter shapes are equal "
                "(AssertionError otherwise); Affine/Linear iff weight rank >= 2; a padding string iff it is 'same' or "
                "'valid' (ValueError otherwise, bytes always rejected); CubaLIF with equal parameter shapes iff w_in "
                "broadcasts to that shape, and w_in is then stored with that shape; accepted nodes have defined types.",
     level_note="Lean kernel; hand-written model of __post_init__; numpy broadcasting and `ones_like * w_in` are modelled "
                "on the dtype combinations the generators produce (same float dtype, Python float with float64).")
_reg("C20", c20.run, translator=("T6", "T7"), module="NirVerif.Properties.C20Cuba",
     theorems=["NirVerif.C20.zero", "NirVerif.C20.add", "NirVerif.C20.ode", "NirVerif.C20.relax", "NirVerif.C20.reset",
               "NirVerif.C20.spike_some", "NirVerif.C20.spike_none", "NirVerif.C20.cuba_euler",
               "NirVerif.C20.record_transparent", "NirVerif.C20.recorded_value",
               "NirVerif.C20.lif_flow", "NirVerif.C20.loop_spikes_independent", "NirVerif.C20.loop_records_independent",
               "NirVerif.C20.loop_record_value", "NirVerif.C20.lif_spikes_independent",
               "NirVerif.C20.lif_records_independent", "NirVerif.C20.runA", "NirVerif.C20.runB",
               "NirVerif.C20.argmin3_min", "NirVerif.C20.good_init", "NirVerif.C20.good_step", "NirVerif.C20.good_all",
               "NirVerif.C20.spike_event_at_threshold", "NirVerif.C20.below_between_events",
               "NirVerif.C20.below_after_last_event", "NirVerif.C20.cuba_go_euler", "NirVerif.C20.cuba_run_euler", "NirVerif.C20.cuba_run_length"],
     rule="Random tau in [1e-4,1], R, v_leak in [-2,2] (85% non-zero), v_threshold > v_leak, initial voltages below "
          "threshold: zero-step, split-step, long-time limit, RK4 comparison, threshold crossing of predicted spike "
          "times; event loop on 1-7 step currents with 5 recording intervals incl. non-dividing ones; CubaLIF reference "
          "on random and on exactly-representable (dyadic) parameters that land exactly on the threshold; the generated "
          "Float twins are executed against the Python bit-for-bit; the Lean event-loop model on Float against the Python "
          "loop bit-for-bit on schedules with crafted coincidences (input change on an accumulated record time, duplicate "
          "change times, initial voltage on the threshold, duration exactly on an event, zero/negative duration, record_dt=inf).",
     level_text="Kernel-checked over the reals, about definitions the translator regenerates from the paper scripts: the "
                "advance function is the flow of tau*dv/dt=(v_leak-v)+R*I (zero step = identity, additivity, the ODE "
                "itself via HasDerivAt, convergence to v_leak+R*I), a predicted spike time is >= 0, hits the threshold "
                "exactly and is the first crossing, `no spike` means the threshold is never reached, reset subtracts the "
                "threshold; the numpy CubaLIF step equals the forward-Euler step of the documented equations with strict "
                "threshold and subtractive reset. The event loop (run_event_based_simulation) has a hand-written model "
                "around the generated kernels, executed on Float against the Python loop bit for bit (spike times, "
                "record times, recorded voltages, final voltage; coinciding events, duration on an event, no recording); "
                "about that model it is proved by a simulation argument that any two runs with any two recording "
                "intervals that return give the same spike list (loop_spikes_independent) and the same voltage at every "
                "instant both record (loop_records_independent), each recorded voltage being the exact solution from the "
                "non-recording run's state (loop_record_value). A loop invariant (good_all: membrane below threshold at "
                "every loop state; a finite next_spike_time is an instant at which the current segment's exact solution "
                "reaches the threshold and not before; an infinite one means it never does) gives: every spike is recorded "
                "exactly at a threshold crossing (spike_event_at_threshold) and between consecutive events, and after the "
                "last one up to duration, the membrane stays strictly below threshold (below_between_events, "
                "below_after_last_event) - no crossing is missed - for 0<tau, 0<threshold, initial voltage below "
                "threshold, sorted non-negative change times. PARTIAL: over the reals; float64 rounding is outside the "
                "theorems (oracle with tolerances).",
     level_note="Lean kernel + Mathlib reals (Classical.choice); translator T6/T7 validated by bitwise execution of the "
                "generated Float twins against CPython; float64 rounding is outside the theorems.",
     assumptions=["theorems are over the reals; the scripts run in float64 (tolerances 1e-7..1e-12 in the oracle)"])

NOT_APPLICABLE = {}


def shrink(prop, violation):
    """Hook for case minimisation (identity where no shrinker is registered)."""
    fn = REG[prop].get("shrink")
    return fn(violation) if fn else violation
