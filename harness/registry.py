"""Per-property registry: Lean module + theorems (proof obligations), translator items,
the suite that runs correspondence and the oracle search."""
from props import c01, c02, c03, c04, c05, c06, c07, c08, c09, c10, c11, c12, c13, c14, c15, c16, c17, c18, c19, c20

TRUSTED_BASE = [
    "Lean 4.33 kernel; axioms limited to propext, Classical.choice, Quot.sound (audited by #print axioms on every run)",
    "harness/translate.py (source -> Generated/*.lean), cross-executed against the source on every run",
    "modelled, not verified: CPython semantics used by nir, dataclasses.asdict/deepcopy, numpy, h5py/libhdf5, the filesystem",
    "harness: generators, canonicaliser, independent oracles; the compiled Lean driver's JSON codec",
]

REG = {
    "C06": {
        "module": "NirVerif.Properties.C06",
        "theorems": ["NirVerif.C06.axis", "NirVerif.C06.axis_no_fit"],
        "translator": ["T4"],
        "run": c06.run,
        "rule": "Per-axis (n,p,d,k,s) enumerated over the small scope, random 2-d hyper-parameter sets in every "
                "container form, Conv1d/Conv2d constructions and Input->X->Output inference chains; oracle = literal "
                "sliding-window loop (thorough: a real zero-padded strided dilated correlation).",
        "level_text": "Kernel-checked theorems: the per-axis formula the translator extracts from calculate_conv_output "
                      "equals the sliding-window position count for all sizes/kernels/strides/paddings/dilations (and is "
                      "<= 0 when the kernel does not fit). The isinstance dispatch, Conv1d/Conv2d constructors and the "
                      "inference path are hand-modelled and tied by differential testing plus an independent oracle.",
        "level_note": "Lean kernel + translator T4 + correspondence sampling for the glue; float64 vs exact rationals below 2^52.",
        "technique": "Lean 4 proof over translator-generated kernel + model/implementation correspondence",
        "assumptions": ["calculate_conv_output computes in float64, the theorem in exact rationals: equal while "
                        "|numerator| < 2^52"],
    },
    "C07": {
        "module": "NirVerif.Properties.C07",
        "theorems": ["NirVerif.C07.flatten_eq_spec", "NirVerif.C07.count", "NirVerif.C07.rank"],
        "translator": ["T5"],
        "run": c07.run,
        "rule": "All shapes of rank 1..4 (thorough 1..5) with axis lengths 1..3 x all valid (start,end) pairs in all "
                "four sign combinations; Flatten nodes built from ndarray/list/tuple/dict shapes; Flatten typed by "
                "inference; oracle = reshaping a real numpy array.",
        "level_text": "Kernel-checked theorems about the translator-generated calc_flatten_output: for every shape and every "
                      "valid (start,end) incl. negative indices it equals take/product/drop, preserves the element count and "
                      "drops the rank by e-s. Construction, inference and file paths are tied by correspondence + numpy oracle.",
        "level_note": "Lean kernel + translator T5 + correspondence sampling for Flatten construction/inference.",
        "technique": "Lean 4 proof over translator-generated kernel + model/implementation correspondence",
        "assumptions": [],
    },
}


def _reg(pid, run, theorems=(), translator=("T1",), rule="", level_text="", level_note="", technique="", assumptions=()):
    REG[pid] = {"module": f"NirVerif.Properties.{pid}", "theorems": list(theorems), "translator": list(translator),
                "run": run, "rule": rule, "level_text": level_text, "level_note": level_note,
                "technique": technique or "Lean 4 proof over hand-written model + model/implementation correspondence",
                "assumptions": list(assumptions)}


_reg("C01", c01.run)
_reg("C02", c02.run)
_reg("C03", c03.run, translator=("T1", "T2", "T3"),
     theorems=["NirVerif.C03.names", "NirVerif.C03.names_cover", "NirVerif.C03.toDict_keys_generic", "NirVerif.C03.root",
               "NirVerif.C03.edges_layout", "NirVerif.C03.value_layout"],
     rule="Random graphs of the C01 domain (all primitives, nesting, metadata, unicode names, 16 dtypes, every hyper-parameter "
          "container form): the raw h5py traversal of the written file is compared (a) with an independent Python reference "
          "encoder written from the documentation and (b) with the tree the Lean model's writer prints; read_version is "
          "checked on every file.",
     level_text="Kernel-checked: for each of the 18 serialisable classes the member names that to_dict/write produce - "
                "computed from the translator-generated dataclass field table - are exactly the documented ones (so a "
                "renamed, added or dropped field, or storing input_type/output_type, fails the build); the file root is "
                "exactly {node, version} and read_version returns the written version; edges are an n-by-2 string array in "
                "edge order (empty float64 dataset for no edges); strings, arrays and ints are stored as documented. The "
                "full tree equality for arbitrary graphs is established by the correspondence run, not by a theorem.",
     level_note="Lean kernel + T1; h5py's create_dataset conversions are a modelled contract validated against real files on every run.")
_reg("C04", c04.run)
_reg("C05", c05.run,
     theorems=["NirVerif.C05.affine_linear", "NirVerif.C05.elementwise1", "NirVerif.C05.neuron",
               "NirVerif.C05.io_ndarray", "NirVerif.C05.io_sequence"],
     rule="Every element-wise primitive x rank 0..3 (thorough 0..4) x axis lengths 1..3 with all 16 dtypes cycled; "
          "Affine/Linear weights of rank 2..5; Input/Output shapes as ndarray(int64/int32)/list/tuple/dict; each node "
          "also taken through a dict and a file round trip; oracle = numpy evaluating the documented equation.",
     level_text="Kernel-checked: for every weight batch++[m,n] Affine/Linear are built and declare int64 vectors "
                "batch++[n] / batch++[m], which is exactly the operand/result of the batched matrix-vector product; "
                "element-wise primitives and neuron models declare the parameter shape (any rank incl. 0); Input/Output "
                "mirror a given ndarray, list or tuple. Constructors are tied to the model by differential testing of "
                "every primitive; round-trip stability by the oracle.",
     level_note="Lean kernel; hand-written model of each __post_init__ over the translator-generated field table (T1); "
                "correspondence sampling; numpy shape semantics are modelled, not verified.")
_reg("C08", c08.run, translator=("T1", "T4", "T5"),
     theorems=["NirVerif.C08.restore", "NirVerif.C08.localTyping_of_nodes"],
     level_text="Kernel-checked: for every flat graph with unique names in which every node is an Input or reachable "
                "from one, and every typing tau that is consistent edge-by-edge with the partly erased graph, infer_types "
                "succeeds, leaves every node with exactly tau's shapes (Outputs included, none undefined) and the result "
                "passes the type check - for any topology, edge order, cycle, parallel edge, fan-in/out (work-list "
                "invariant: sources seen, soundness, closure under successors, untouched-if-unseen). The edge-local "
                "condition is itself proved for erased/wrong Output shapes and erased input-side annotations; for erased "
                "Conv/Flatten/pooling annotations it is a hypothesis of the theorem, validated by the correspondence run "
                "against ground truth computed forwards by an independent oracle.",
     level_note="Lean kernel; hand-written model of infer_types/_check_types; per-kind shape arithmetic of Conv/Flatten is "
                "covered by C06/C07 theorems over the translator-generated kernels, its embedding in the loop body by sampling.",
     rule="Consistent graphs built forwards from Inputs (all primitives, fan-in/out, residual/recurrent/self/parallel "
          "edges, shuffled edge and node order) with random subsets of erasable annotations erased or an Output shape "
          "replaced by a wrong one; ground truth known by construction.")
_reg("C09", c09.run, theorems=["NirVerif.C09.iff", "NirVerif.C09.rejects"],
     rule="All multigraphs on 2 nodes with <=2 (thorough <=3) edges x 4 shape options per port, plus sampled graphs of "
          "1-5 nodes with shapes of rank 0..3, undefined ports, tuple/int32/int64 containers, cycles and parallel edges.",
     level_text="Kernel-checked: on every flat single-port graph (any topology, order, multiplicity) the modelled check "
                "returns True iff every edge joins a defined output shape to an equal defined input shape, and otherwise "
                "raises ValueError. The model is tied to _check_types by differential testing on enumerated and sampled graphs.",
     level_note="Lean kernel; hand-written model of _check_types and of np.array_equal on shape values; correspondence sampling.")
_reg("C10", c10.run,
     theorems=["NirVerif.Model.workList", "NirVerif.C10.frame", "NirVerif.C10.untouched", "NirVerif.C10.reach",
               "NirVerif.C10.idempotent_partial"],
     rule="All multigraphs over 9 node archetypes (typed/untyped Input, element-wise, Flatten, Conv, pooling, typed/untyped "
          "Output) on <=2 nodes with <=2 edges (thorough: plus a 10% sample on 3 nodes); consistent graphs with cycles, "
          "self-loops, parallel edges under all edge permutations (<=4 edges); arbitrary graphs with unreachable "
          "components, dangling edges and nested sub-graphs. Each run under a 5 s watchdog, with deep snapshots before/"
          "after and a second run.",
     level_text="Kernel-checked: (1) termination - the modelled work-list is a well-founded recursion accepted by Lean "
                "with its decreasing proof for every multigraph; (2) frame - edges, names, order, kinds, metadata and "
                "every field are unchanged except an undefined-output Conv's input_shape, success or exception; (3) a "
                "node not reachable from an Input is returned unchanged; (4) after a successful run every reachable "
                "node has both types defined (closure of the work-list under successors); (5) PARTIAL idempotence: on a "
                "graph whose edges are all fixed points of the loop body a further run is the identity. The full "
                "idempotence statement is kept as `idempotent_full : Prop` and is only tested, not proved.",
     level_note="Lean kernel; hand-written model of _forward_type_inference (active definition); object identity and "
                "the real loop's termination are exhibited by the correspondence run (watchdog), not by the theorem.")
_reg("C11", c11.run,
     theorems=["NirVerif.C11.names_injective", "NirVerif.C11.names_distinct", "NirVerif.C11.names_scheme", "NirVerif.C11.shape"],
     translator=("T1", "T2"),
     rule="Sequences of 1-8 (every 7th: 10-40) leaf primitives with repetition-heavy class choices favouring the "
          "i/if/li/lif prefix family, optional leading Input / trailing Output, all three calling conventions; oracle "
          "recomputes the expected names with an independent counter and checks identity, order, edges and end-point types.",
     level_text="Kernel-checked: (class, index) -> name is injective at string level for all 18 class names and every "
                "index (Nat.repr never contains '_'; no class name does), hence names are pairwise distinct for every "
                "repetition pattern; the k-th repetition is named <class>_k; for every admissible sequence from_list "
                "returns the graph [auto Input] ++ given nodes (same values, same order) ++ [auto Output] with distinct "
                "keys, chain edges and end-point types taken from the first/last node.",
     level_note="Lean kernel; hand-written model of from_list; class-name list tied to the source by T2; node-object "
                "identity is exhibited by the correspondence/oracle run only (the model has values, not object ids).")
_reg("C12", c12.run,
     theorems=["NirVerif.C12.init", "NirVerif.C12.fromList_mirror", "NirVerif.C12.infer_mirror", "NirVerif.C12.infer_history"],
     rule="Graphs with 0..n Input/Output children under arbitrary names, optionally nested, edges into Input nodes, "
          "followed by random histories (<=4, thorough <=6 operations) over infer_types / to_dict+from_dict / write+read; "
          "after every operation graph.inputs/outputs/input_type/output_type are compared with a scan of graph.nodes at every depth.",
     level_text="Kernel-checked invariant: every constructed graph mirrors its Input/Output children; from_list and "
                "infer_types (also when it raises half-way) preserve it, hence any number of inference runs does. Dict and "
                "file round trips rebuild the graph through the constructor; their histories are covered by the correspondence run.",
     level_note="Lean kernel; hand-written model of __post_init__/infer_types; histories with round trips rely on the oracle.")
_reg("C13", c13.run)
_reg("C14", c14.run)
_reg("C15", c15.run, translator=("T1", "T3"),
     theorems=["NirVerif.C15.modes", "NirVerif.C15.step_refines", "NirVerif.C15.refines", "NirVerif.C15.read_after_history"],
     rule="Random histories (3-8, thorough 3-15 calls) over write(g_i)/read/read_version on one real path with graphs of "
          "different sizes, kinds and metadata, path given as str or pathlib.Path; after every call the fd table, the file "
          "hash across reads and the result of read are checked; finally rename and delete; plus BytesIO/temporary-file "
          "targets written once and read 1-3 times.",
     level_text="Kernel-checked refinement of the file-path state machine (h5py mode table, handle bookkeeping) to the "
                "abstract register `content of the most recent write`: for every history every call leaves the handle count "
                "at 0, reads leave the content unchanged and return what reading that content returns, and after a "
                "successful write the content is exactly that write's file. The theorem is about the mode literals and "
                "`with` usage the translator extracts from serialization.py (T3); changing them breaks `modes`.",
     level_note="Lean kernel + T3; OS file-handle behaviour, truncation by libhdf5 and caching effects are outside the model "
                "and exhibited only by the correspondence/oracle run on a real path.")
_reg("C16", c16.run)
_reg("C17", c17.run)
_reg("C18", c18.run, translator=("T1", "T2"),
     theorems=["NirVerif.C18.whitelist_documented", "NirVerif.C18.closed", "NirVerif.C18.closed_nonstring",
               "NirVerif.C18.no_type", "NirVerif.C18.mandatory_table", "NirVerif.C18.construct_missing",
               "NirVerif.C18.construct_extra", "NirVerif.C18.fromDict_generic"],
     rule="Every public and private name of nir, nir.ir, nir.ir.graph, nir.serialization and builtins, case/whitespace "
          "variants of the 18 whitelisted names and random unicode strings as `type` (full and bare dictionaries, top level "
          "and nested, via dict and via file); every single mandatory-field deletion and a non-field insertion for every "
          "primitive at nesting depth 0..2, via dict and via a raw-h5py file.",
     level_text="Kernel-checked over the generated whitelist and field table: a `type` outside the 18 documented names (or "
                "not a string, or missing) makes dict2NIRNode raise and construct nothing; the mandatory fields of every "
                "class are exactly the documented parameters; a missing mandatory field or an extra non-field key makes "
                "the constructor raise TypeError (never defaulted or ignored); for primitives without their own from_dict "
                "reading a dictionary is exactly cls(**d). The translator additionally checks that str2NIRNode still is "
                "`assert type in __all_ir; return globals()[type]`.",
     level_note="Lean kernel + T1/T2; CPython keyword binding and `assert` (no -O) are modelled; nested/graph-level strictness "
                "(class-specific from_dict of Input/Output/Flatten/NIRGraph) is covered by the correspondence run.")
_reg("C19", c19.run,
     theorems=["NirVerif.C19.neuron_IF", "NirVerif.C19.neuron_LI", "NirVerif.C19.neuron_LIF", "NirVerif.C19.weight_rank",
               "NirVerif.C19.padding_string", "NirVerif.C19.padding_bytes", "NirVerif.C19.cuba_w_in"],
     rule="All shape tuples over 8 shapes of rank 0..3 for IF/LI (quick: sampled for LIF), CubaLIF with nine forms of "
          "w_in and mismatching parameter shapes, Affine/Linear weight ranks 0..5, ~25 (thorough ~100) padding strings "
          "incl. case/whitespace/unicode look-alikes and bytes; expected acceptance known by construction.",
     level_text="Kernel-checked two-sided characterisations: IF/LI/LIF accepted iff all parameter shapes are equal "
                "(AssertionError otherwise); Affine/Linear iff weight rank >= 2; a padding string iff it is 'same' or "
                "'valid' (ValueError otherwise, bytes always rejected); CubaLIF with equal parameter shapes iff w_in "
                "broadcasts to that shape, and w_in is then stored with that shape; accepted nodes have defined types.",
     level_note="Lean kernel; hand-written model of __post_init__; numpy broadcasting and `ones_like * w_in` are modelled "
                "on the dtype combinations the generators produce (same float dtype, Python float with float64).")
_reg("C20", c20.run, translator=("T6", "T7"),
     theorems=["NirVerif.C20.zero", "NirVerif.C20.add", "NirVerif.C20.ode", "NirVerif.C20.relax", "NirVerif.C20.reset",
               "NirVerif.C20.spike_some", "NirVerif.C20.spike_none", "NirVerif.C20.cuba_euler"],
     rule="Random tau in [1e-4,1], R, v_leak in [-2,2] (85% non-zero), v_threshold > v_leak, initial voltages below "
          "threshold: zero-step, split-step, long-time limit, RK4 comparison, threshold crossing of predicted spike "
          "times; event loop on 1-7 step currents with 5 recording intervals incl. non-dividing ones; CubaLIF reference "
          "on random and on exactly-representable (dyadic) parameters that land exactly on the threshold; the generated "
          "Float twins are executed against the Python bit-for-bit.",
     level_text="Kernel-checked over the reals, about definitions the translator regenerates from the paper scripts: the "
                "advance function is the flow of tau*dv/dt=(v_leak-v)+R*I (zero step = identity, additivity, the ODE "
                "itself via HasDerivAt, convergence to v_leak+R*I), a predicted spike time is >= 0, hits the threshold "
                "exactly and is the first crossing, `no spike` means the threshold is never reached, reset subtracts the "
                "threshold; the numpy CubaLIF step equals the forward-Euler step of the documented equations with strict "
                "threshold and subtractive reset. The event loop's independence from the recording interval is NOT "
                "proved; it is checked by the oracle on the real code.",
     level_note="Lean kernel + Mathlib reals (Classical.choice); translator T6/T7 validated by bitwise execution of the "
                "generated Float twins against CPython; float64 rounding is outside the theorems.",
     assumptions=["theorems are over the reals; the scripts run in float64 (tolerances 1e-7..1e-12 in the oracle)"])

NOT_APPLICABLE = {}


def shrink(prop, violation):
    """Hook for case minimisation (identity where no shrinker is registered)."""
    fn = REG[prop].get("shrink")
    return fn(violation) if fn else violation
