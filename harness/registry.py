"""Per-property registry: Lean module + theorems (proof obligations), translator items,
the suite that runs correspondence and the oracle search."""
from props import c01, c05, c06, c07, c08, c09, c12, c13, c19, c20

TRUSTED_BASE = [
    "Lean 4.33 kernel; axioms limited to propext, Classical.choice, Quot.sound (audited by #print axioms on every run)",
    "harness/translate.py (source -> Generated/*.lean), cross-executed against the source on every run",
    "modelled, not verified: CPython semantics used by nir, dataclasses.asdict/deepcopy, numpy, h5py/libhdf5, the filesystem",
    "harness: generators, canonicaliser, independent oracles; the compiled Lean driver's JSON codec",
]

REG = {
    "C06": {
        "module": "NirVerif.Properties.C06",
        "theorems": ["NirVerif.C06.axis", "NirVerif.C06.axis_no_fit"],
        "translator": ["T4"],
        "run": c06.run,
        "rule": "Per-axis (n,p,d,k,s) enumerated over the small scope, random 2-d hyper-parameter sets in every "
                "container form, Conv1d/Conv2d constructions and Input->X->Output inference chains; oracle = literal "
                "sliding-window loop (thorough: a real zero-padded strided dilated correlation).",
        "level_text": "Kernel-checked theorems: the per-axis formula the translator extracts from calculate_conv_output "
                      "equals the sliding-window position count for all sizes/kernels/strides/paddings/dilations (and is "
                      "<= 0 when the kernel does not fit). The isinstance dispatch, Conv1d/Conv2d constructors and the "
                      "inference path are hand-modelled and tied by differential testing plus an independent oracle.",
        "level_note": "Lean kernel + translator T4 + correspondence sampling for the glue; float64 vs exact rationals below 2^52.",
        "technique": "Lean 4 proof over translator-generated kernel + model/implementation correspondence",
        "assumptions": ["calculate_conv_output computes in float64, the theorem in exact rationals: equal while "
                        "|numerator| < 2^52"],
    },
    "C07": {
        "module": "NirVerif.Properties.C07",
        "theorems": ["NirVerif.C07.flatten_eq_spec", "NirVerif.C07.count", "NirVerif.C07.rank"],
        "translator": ["T5"],
        "run": c07.run,
        "rule": "All shapes of rank 1..4 (thorough 1..5) with axis lengths 1..3 x all valid (start,end) pairs in all "
                "four sign combinations; Flatten nodes built from ndarray/list/tuple/dict shapes; Flatten typed by "
                "inference; oracle = reshaping a real numpy array.",
        "level_text": "Kernel-checked theorems about the translator-generated calc_flatten_output: for every shape and every "
                      "valid (start,end) incl. negative indices it equals take/product/drop, preserves the element count and "
                      "drops the rank by e-s. Construction, inference and file paths are tied by correspondence + numpy oracle.",
        "level_note": "Lean kernel + translator T5 + correspondence sampling for Flatten construction/inference.",
        "technique": "Lean 4 proof over translator-generated kernel + model/implementation correspondence",
        "assumptions": [],
    },
}


def _reg(pid, run, theorems=(), translator=("T1",), rule="", level_text="", level_note="", technique="", assumptions=()):
    REG[pid] = {"module": f"NirVerif.Properties.{pid}", "theorems": list(theorems), "translator": list(translator),
                "run": run, "rule": rule, "level_text": level_text, "level_note": level_note,
                "technique": technique or "Lean 4 proof over hand-written model + model/implementation correspondence",
                "assumptions": list(assumptions)}


_reg("C01", c01.run)
_reg("C05", c05.run)
_reg("C08", c08.run, translator=("T1", "T4", "T5"),
     rule="Consistent graphs built forwards from Inputs (all primitives, fan-in/out, residual/recurrent/self/parallel "
          "edges, shuffled edge and node order) with random subsets of erasable annotations erased or an Output shape "
          "replaced by a wrong one; ground truth known by construction.")
_reg("C09", c09.run, theorems=["NirVerif.C09.iff", "NirVerif.C09.rejects"],
     rule="All multigraphs on 2 nodes with <=2 (thorough <=3) edges x 4 shape options per port, plus sampled graphs of "
          "1-5 nodes with shapes of rank 0..3, undefined ports, tuple/int32/int64 containers, cycles and parallel edges.",
     level_text="Kernel-checked: on every flat single-port graph (any topology, order, multiplicity) the modelled check "
                "returns True iff every edge joins a defined output shape to an equal defined input shape, and otherwise "
                "raises ValueError. The model is tied to _check_types by differential testing on enumerated and sampled graphs.",
     level_note="Lean kernel; hand-written model of _check_types and of np.array_equal on shape values; correspondence sampling.")
_reg("C12", c12.run)
_reg("C13", c13.run)
_reg("C19", c19.run)
_reg("C20", c20.run)

NOT_APPLICABLE = {}


def shrink(prop, violation):
    """Hook for case minimisation (identity where no shrinker is registered)."""
    fn = REG[prop].get("shrink")
    return fn(violation) if fn else violation
