"""Development tool (not a registered command): confirm seeded changes and run checks on them.

  mutants.py confirm <src_dir> <id>     # src_dir has patch.diff demo.py meta.json; uses a scratch worktree
  mutants.py run <id> [props...]        # apply seeded/<id>/patch.diff to /repo, run ./check, revert
"""
import json
import os
import shutil
import subprocess
import sys

VERIF = os.path.dirname(os.path.dirname(os.path.abspath(__file__)))
PY = "/venv/bin/python"


def sh(cmd, cwd=None, env=None, timeout=1800):
    e = dict(os.environ)
    if env:
        e.update(env)
    p = subprocess.run(cmd, shell=True, cwd=cwd, env=e, stdout=subprocess.PIPE, stderr=subprocess.STDOUT, timeout=timeout)
    return p.returncode, p.stdout.decode("utf-8", "replace")


def confirm(src, mid):
    wt = f"/tmp/mutconfirm-{mid}"
    sh(f"git -C /repo worktree remove --force {wt}")
    rc, out = sh(f"git -C /repo worktree add -q --detach {wt} HEAD")
    assert rc == 0, out
    res = {}
    try:
        env = {"PYTHONPATH": wt}
        rc, out = sh(f"{PY} {src}/demo.py", cwd=wt, env=env)
        res["demo_clean"] = rc
        rc, out = sh(f"git apply {src}/patch.diff", cwd=wt)
        res["apply"] = rc
        if rc != 0:
            res["apply_out"] = out[-300:]
            return res
        rc, out = sh(f"{PY} -m pytest -q -p no:cacheprovider tests", cwd=wt, env=env)
        res["tests"] = rc
        res["tests_tail"] = out.strip().splitlines()[-1] if out.strip() else ""
        rc, out = sh(f"{PY} {src}/demo.py", cwd=wt, env=env)
        res["demo_mutant"] = rc
        res["demo_tail"] = out.strip().splitlines()[-1][:200] if out.strip() else ""
    finally:
        sh(f"git -C /repo worktree remove --force {wt}")
    ok = res.get("demo_clean") == 0 and res.get("apply") == 0 and res.get("tests") == 0 and res.get("demo_mutant", 0) != 0
    res["confirmed"] = ok
    if ok:
        dst = os.path.join(VERIF, "seeded", mid)
        os.makedirs(dst, exist_ok=True)
        for f in ("patch.diff", "demo.py"):
            shutil.copy(os.path.join(src, f), os.path.join(dst, f))
        meta = {}
        try:
            meta = json.load(open(os.path.join(src, "meta.json")))
        except Exception:
            pass
        meta["confirmed_by"] = {"tests_with_change": res["tests_tail"], "demo_with_change": f"exit {res['demo_mutant']}: {res['demo_tail']}",
                                "demo_without_change": "exit 0",
                                "commands": ["git worktree add (scratch)", "PYTHONPATH=<wt> python demo.py", "git apply patch.diff",
                                             "PYTHONPATH=<wt> python -m pytest -q tests", "PYTHONPATH=<wt> python demo.py"]}
        json.dump(meta, open(os.path.join(dst, "meta.json"), "w"), indent=1)
    return res


def run(mid, props):
    d = os.path.join(VERIF, "seeded", mid)
    rc, out = sh("git status --porcelain", cwd="/repo")
    assert out.strip() == "", "repo not clean: " + out
    rc, out = sh(f"git apply {d}/patch.diff", cwd="/repo")
    assert rc == 0, out
    res = {}
    try:
        for p in props:
            rc, out = sh(f"./check {p}", cwd=VERIF, timeout=3600)
            lines = [l for l in out.splitlines() if l.startswith(("VIOLATION", "OK", "KNOWN", "INFRA"))]
            res[p] = {"exit": rc, "lines": lines[:4]}
    finally:
        sh("git checkout -- .", cwd="/repo")
        sh("rm -f replays/*.json", cwd=VERIF)
    return res


def sweep(ids):
    """run every seeded change against its own property's quick check and record the outcome in meta.json"""
    summary = {}
    for mid in ids:
        prop = mid.split("-")[0]
        r = run(mid, [prop])[prop]
        lines = r["lines"]
        if r["exit"] == 1 and any(l.startswith("VIOLATION") and not l.endswith("no-failing-input-found") for l in lines):
            result = "exit 1, VIOLATION with failing-input replay"
        elif r["exit"] == 1:
            result = "exit 1, VIOLATION no-failing-input-found (tie broken, no failing input located)"
        else:
            result = f"exit {r['exit']}: NOT DETECTED ({lines[:1]})"
        mp = os.path.join(VERIF, "seeded", mid, "meta.json")
        meta = json.load(open(mp))
        meta["breaks_property"] = prop
        meta["checked_with"] = {"command": f"git -C /repo apply seeded/{mid}/patch.diff && ./check {prop} ; git -C /repo checkout -- .",
                                "result": result}
        json.dump(meta, open(mp, "w"), indent=1)
        summary[mid] = result
        print(mid, result, flush=True)
    return summary


def _lane(args):
    """one lane of the parallel sweep: its own copy of /verif (with build output) and its own worktree of /repo"""
    lane, ids, root = args
    vd, rd = f"{root}/verif_{lane}", f"{root}/repo_{lane}"
    sh(f"git -C /repo worktree remove --force {rd}")
    sh(f"rm -rf {vd} {rd}")
    rc, out = sh(f"git -C /repo worktree add -q --detach {rd} HEAD")
    assert rc == 0, out
    rc, out = sh(f"mkdir -p {vd} && rsync -a --exclude .git --exclude replays --exclude seeded {VERIF}/ {vd}/")
    assert rc == 0, out
    res = {}
    try:
        for mid in ids:
            prop = mid.split("-")[0]
            rc, out = sh(f"git apply {VERIF}/seeded/{mid}/patch.diff", cwd=rd)
            if rc != 0:
                res[mid] = "patch does not apply: " + out[-200:]
                continue
            try:
                rc, out = sh(f"./check {prop}", cwd=vd, env={"NIR_REPO": rd}, timeout=3600)
                lines = [l for l in out.splitlines() if l.startswith(("VIOLATION", "OK", "KNOWN", "INFRA"))]
                if rc == 1 and any(l.startswith("VIOLATION") and not l.endswith("no-failing-input-found") for l in lines):
                    res[mid] = "exit 1, VIOLATION with failing-input replay"
                elif rc == 1:
                    res[mid] = "exit 1, VIOLATION no-failing-input-found (tie broken, no failing input located)"
                else:
                    res[mid] = f"exit {rc}: NOT DETECTED ({lines[:1]})"
            finally:
                sh("git checkout -- .", cwd=rd)
            print(mid, res[mid], flush=True)
    finally:
        sh(f"git -C /repo worktree remove --force {rd}")
        sh(f"rm -rf {vd} {rd}")
    return res


def psweep(ids, lanes=8, root="/var/tmp/nirverif-sweep"):
    """the sweep on `lanes` private copies in parallel (NIR_REPO points each check at its own worktree; /repo and
    /verif's own build output are not touched); outcomes are recorded in meta.json like `sweep` does"""
    import multiprocessing as mp
    os.makedirs(root, exist_ok=True)
    parts = [(i, ids[i::lanes], root) for i in range(lanes)]
    with mp.get_context("fork").Pool(lanes) as pool:
        outs = pool.map(_lane, parts)
    summary = {}
    for o in outs:
        summary.update(o)
    for mid, result in summary.items():
        prop = mid.split("-")[0]
        mp_ = os.path.join(VERIF, "seeded", mid, "meta.json")
        meta = json.load(open(mp_))
        meta["breaks_property"] = prop
        meta["checked_with"] = {"command": f"git -C /repo apply seeded/{mid}/patch.diff && ./check {prop} ; git -C /repo checkout -- .",
                                "result": result}
        json.dump(meta, open(mp_, "w"), indent=1)
    sh(f"rm -rf {root}")
    return summary


if __name__ == "__main__":
    if sys.argv[1] == "psweep":
        ids = sys.argv[2:] or sorted(os.listdir(os.path.join(VERIF, "seeded")))
        out = psweep(ids)
        bad = {k: v for k, v in out.items() if "failing-input replay" not in v}
        print(json.dumps(bad, indent=1))
    elif sys.argv[1] == "sweep":
        ids = sys.argv[2:] or sorted(os.listdir(os.path.join(VERIF, "seeded")))
        sweep(ids)
    elif sys.argv[1] == "confirm":
        print(json.dumps(confirm(sys.argv[2], sys.argv[3]), indent=1))
    elif sys.argv[1] == "run":
        mid = sys.argv[2]
        props = sys.argv[3:] or [mid.split("-")[0]]
        print(json.dumps(run(mid, props), indent=1))
