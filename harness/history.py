"""History independence ("fresh twin") oracle, shared by several properties.

Every property is stated for *every graph*, and a graph object reaches its current value through some history:
construction, in-place edits of parameters / metadata / edge list / node table, earlier observer calls, earlier
inference, earlier saves.  The library's observable behaviour must be a function of the graph's current *value*.

A history is generated on a live graph object; before each probed call a **twin** is rebuilt from nothing but the
public state of the live object (fresh node objects from the current field values, current types assigned, fresh
containers), the same call is made on both, and the canonical observations must agree.  Any cache keyed by object
identity, by call count, by a stale snapshot of a mutable field, or kept on the object itself shows as a difference.
The Lean model is the same oracle in the value world (its functions are pure); the twin is total where the model
declines.

`run(ctx, probes, prop)` is called from the property suites with the probes that property speaks about.
"""
import copy
import dataclasses
import io
import os
import warnings

import numpy as np

import gen
from canon import canon, canon_node, err_name
from core import impl_construct, quiet, jdiff


def rebuild(n):
    """a fresh object with the same public state (no attribute outside the dataclass fields is carried over)"""
    import nir
    if isinstance(n, nir.NIRGraph):
        g = nir.NIRGraph(nodes={k: rebuild(v) for k, v in n.nodes.items()},
                         edges=[(a, b) for a, b in n.edges], metadata=copy.deepcopy(n.metadata))
        # the graph-level type attributes are public state as well (they are refreshed at construction, from_list,
        # from_dict, read and infer_types only, so after a direct edit of a port node they may lag behind: that lag is
        # part of the value the twin has to share, not something the oracle judges)
        g.input_type = copy.deepcopy(n.input_type)
        g.output_type = copy.deepcopy(n.output_type)
        return g
    kw = {}
    for f in dataclasses.fields(n):
        if f.name in ("input_type", "output_type"):
            continue
        kw[f.name] = copy.deepcopy(getattr(n, f.name))
    if isinstance(n, (nir.Input, nir.Flatten)):
        kw["input_type"] = copy.deepcopy(n.input_type)
    if isinstance(n, nir.Output):
        kw["output_type"] = copy.deepcopy(n.output_type)
    with warnings.catch_warnings():
        warnings.simplefilter("ignore")
        m = type(n)(**kw)
    # the types as they are now (inference or the caller may have set them)
    m.input_type = copy.deepcopy(n.input_type)
    m.output_type = copy.deepcopy(n.output_type)
    return m


def observe(g, probe, tmpdir):
    """canonical observation of one call; (obs, graph to continue with)"""
    import nir
    try:
        with quiet(), warnings.catch_warnings():
            warnings.simplefilter("ignore")
            if probe == "to_dict":
                return {"d": canon(g.to_dict())}
            if probe == "dict_rt":
                return {"g": canon_node(nir.NIRGraph.from_dict(g.to_dict()))}
            if probe == "file_rt":
                bio = io.BytesIO(); nir.write(bio, g); bio.seek(0)
                return {"g": canon_node(nir.read(bio))}
            if probe == "path_rt":
                p = os.path.join(tmpdir, "h.nir")
                nir.write(p, g)
                return {"g": canon_node(nir.read(p))}
            if probe == "check":
                return {"r": bool(g._check_types())}
            if probe == "infer":
                g.infer_types()
                return {"g": canon_node(g)}
            if probe == "ports":
                return {"in": sorted(g.inputs), "out": sorted(g.outputs),
                        "it": canon(g.input_type), "ot": canon(g.output_type)}
            raise ValueError(probe)
    except Exception as e:  # noqa
        out = {"err": err_name(e)}
        if probe == "infer":
            out["g"] = canon_node(g)          # what a failing inference leaves behind is behaviour too
        return out


def _fresh_same_class(rng, n):
    """a new node of the same class with its annotations erased where the class allows it (what a user does who swaps in
    another layer under the same name and lets inference type it)"""
    import nir
    if isinstance(n, nir.Flatten):
        return nir.Flatten(None, n.start_dim, n.end_dim)
    if isinstance(n, nir.Output):
        return nir.Output(None)
    if isinstance(n, nir.Conv2d):
        w = np.zeros((n.weight.shape[0] + 1,) + n.weight.shape[1:])
        return nir.Conv2d(None, w, n.stride, n.padding, n.dilation, n.groups, np.zeros(w.shape[0]))
    if isinstance(n, nir.Conv1d):
        w = np.zeros((n.weight.shape[0] + 1,) + n.weight.shape[1:])
        return nir.Conv1d(None, w, n.stride, n.padding, n.dilation, n.groups, np.zeros(w.shape[0]))
    if isinstance(n, (nir.SumPool2d, nir.AvgPool2d)):
        return type(n)(n.kernel_size, n.stride, n.padding)
    return None


EDITS = ["replace_same_class", "replace_same_class", "scale_param", "flip_param", "reassign_param", "meta_add", "meta_del", "meta_nested", "edge_item", "edge_assign",
         "edge_append", "edge_remove", "replace_node", "add_node", "set_types", "erase_output", "none"]


def _leafs(g):
    import nir
    return [(k, n) for k, n in g.nodes.items() if not isinstance(n, nir.NIRGraph)]


def _array_fields(n):
    out = []
    for f in dataclasses.fields(n):
        v = getattr(n, f.name)
        if isinstance(v, np.ndarray) and f.name not in ("input_type", "output_type") and v.size and v.dtype.kind in "fiu" \
                and v.flags.writeable:
            out.append(f.name)
    return out


def edit(rng, g, how):
    """one in-place edit of the live graph object; returns a JSON description (or None if not applicable)"""
    import nir
    leafs = _leafs(g)
    names = list(g.nodes)
    if how in ("scale_param", "flip_param", "reassign_param"):
        cands = [(k, n, f) for k, n in leafs for f in _array_fields(n) if f not in ("kernel_size", "stride", "padding", "dilation")]
        if not cands:
            return None
        k, n, f = rng.choice(cands)
        a = getattr(n, f)
        if how == "scale_param":
            a *= 2
        elif how == "flip_param":
            a.reshape(-1)[0] = a.reshape(-1)[0] + 3
        else:
            setattr(n, f, (a + 1).astype(a.dtype))
        return [how, k, f]
    if how == "meta_add":
        t = rng.choice([g] + [n for _, n in leafs])
        t.metadata["note%d" % rng.randrange(3)] = rng.choice(["x", 3, 0.5, np.arange(3)])
        return [how]
    if how == "meta_del":
        t = rng.choice([g] + [n for _, n in leafs])
        if not t.metadata:
            return None
        t.metadata.pop(next(iter(t.metadata)))
        return [how]
    if how == "meta_nested":
        t = rng.choice([g] + [n for _, n in leafs])
        t.metadata.setdefault("deep", {})["k%d" % rng.randrange(3)] = np.ones(2) * rng.randrange(5)
        return [how]
    if how.startswith("edge_"):
        if not names:
            return None
        new = (rng.choice(names), rng.choice(names))
        if how == "edge_item" and g.edges:
            j = rng.randrange(len(g.edges)); g.edges[j] = new
        elif how == "edge_assign" and g.edges:
            e = list(g.edges); e[rng.randrange(len(e))] = new; g.edges = e
        elif how == "edge_append":
            g.edges.append(new)
        elif how == "edge_remove" and g.edges:
            del g.edges[rng.randrange(len(g.edges))]
        else:
            return None
        return [how, list(new)]
    if how == "replace_same_class":
        cands = [(k, n) for k, n in leafs if _fresh_same_class(rng, n) is not None]
        if not cands:
            return None
        k, n = rng.choice(cands)
        g.nodes[k] = _fresh_same_class(rng, n)
        return [how, k, type(n).__name__]
    if how == "replace_node":
        if not leafs:
            return None
        k, n = rng.choice(leafs)
        sh = [int(x) for x in np.asarray(n.input_type.get("input")).ravel()] if isinstance(n.input_type, dict) and \
            n.input_type.get("input") is not None else [2]
        if isinstance(n, (nir.Input, nir.Output)):
            return None
        g.nodes[k] = nir.Scale(scale=np.ones(sh) * rng.randrange(1, 4)) if sh else nir.Scale(scale=np.array(2.0))
        return [how, k]
    if how == "add_node":
        k = "added%d" % rng.randrange(4)
        src = rng.choice(names) if names else None
        sh = [rng.randrange(1, 4)]
        g.nodes[k] = nir.Threshold(threshold=np.ones(sh))
        if src is not None:
            g.edges.append((src, k))
        return [how, k]
    if how == "set_types":
        if not leafs:
            return None
        k, n = rng.choice(leafs)
        sh = np.array([rng.randrange(1, 4) for _ in range(rng.randrange(1, 3))])
        if rng.random() < 0.5:
            n.input_type = {"input": sh}
        else:
            n.output_type = {"output": sh}
        return [how, k]
    if how == "erase_output":
        outs = [(k, n) for k, n in leafs if isinstance(n, nir.Output)]
        if not outs:
            return None
        k, n = rng.choice(outs)
        n.output_type = {"output": None}; n.input_type = {"input": None}
        return [how, k]
    return ["none"]


def run(ctx, probes, prop_sites, n_quick=40, n_thorough=200, mutators=None):
    """histories of edits and calls on live graph objects; each probed call is compared with the same call on a twin
    rebuilt from the live object's public state.  `prop_sites` maps probe -> violation text."""
    import shutil
    import tempfile
    rng = ctx.rng
    tmpdir = tempfile.mkdtemp(prefix="nirverif-hist-", dir="/var/tmp")
    all_calls = ["to_dict", "dict_rt", "file_rt", "path_rt", "check", "infer", "ports"]
    try:
        for i in range(ctx.n(n_quick, n_thorough)):
            if i % 2 == 0:
                recipe = gen.consistent_graph(rng, max_nodes=5)[0]
            else:
                recipe = gen.random_graph(rng, maxdepth=1, max_nodes=5, meta_p=0.4)
            try:
                with warnings.catch_warnings():
                    warnings.simplefilter("ignore")
                    live = impl_construct(recipe)
            except Exception:
                ctx.count("history_construct_rejected"); continue
            hist = []
            case = {"op": "history_twin", "graph": recipe, "history": hist}
            ctx.case(case); ctx.count("history_twin_runs")
            bad = None
            # every fourth history follows a script: call, swap a node for a fresh one of its class, same call again
            script = None
            if i % 4 == 0:
                c0 = rng.choice([c for c in all_calls if c in probes] or all_calls)
                script = [("call", c0), ("edit", "replace_same_class"), ("call", c0), ("edit", rng.choice(["edge_item", "scale_param", "meta_nested"])),
                          ("call", c0), ("call", rng.choice(all_calls))]
            for step in range(len(script) if script else rng.randrange(3, 9)):
                forced = script[step] if script else None
                if (forced and forced[0] == "edit") or (not forced and rng.random() < 0.5):
                    how = forced[1] if forced else rng.choice(mutators or EDITS)
                    try:
                        d = edit(rng, live, how)
                    except Exception as e:  # noqa
                        d = None
                    if d is None:
                        continue
                    hist.append(["edit"] + d)
                    ctx.count("history_edit_" + how)
                    continue
                call = forced[1] if forced else rng.choice(all_calls)
                try:
                    with warnings.catch_warnings():
                        warnings.simplefilter("ignore")
                        twin = rebuild(live)
                except Exception as e:  # noqa
                    ctx.count("history_twin_not_rebuildable"); break
                o_twin = observe(twin, call, tmpdir)
                o_live = observe(live, call, tmpdir)
                hist.append(["call", call])
                ctx.count("history_call_" + call)
                if call in probes and o_live != o_twin:
                    bad = {"step": len(hist) - 1, "call": call, "diff": [list(map(str, d)) for d in jdiff(o_twin, o_live)[:4]]}
                    break
            if bad:
                ctx.violate(case, prop_sites.get(bad["call"], "a call on a graph object with a history") +
                            " differs from the same call on a freshly built graph of the same value",
                            {"site": "history-" + bad["call"], "what": "history-dependence"}, observed=bad)
    finally:
        shutil.rmtree(tmpdir, ignore_errors=True)
