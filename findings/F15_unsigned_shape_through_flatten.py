"""F15 (C08, C14): replay of the recorded defect against the real library.

    /venv/bin/python findings/F15_unsigned_shape_through_flatten.py      # prints the chain of declared types and the exception

A shape handed over as an *unsigned* ndarray comes out of a Flatten as uint64 (np.prod of unsigned integers), the next pooling
node assembles np.array([<uint64 entry>, *<int64 entries>]) - float64 -, and a later Flatten -> Conv1d(input_shape=None) makes
infer_types raise TypeError on a type-consistent graph.  The same graph with a signed shape array infers fine.
"""
import contextlib
import io

import numpy as np

import nir


def build(dtype):
    return nir.NIRGraph(
        nodes={"in": nir.Input(np.array([2, 11, 5], dtype=dtype)),
               "f0": nir.Flatten(np.array([2, 11, 5], dtype=dtype), 1, 1),          # a no-op flatten: types [2, 11, 5]
               "pool": nir.AvgPool2d(kernel_size=(1, 3), stride=np.array([1, 2]), padding=0),
               "f1": nir.Flatten(None, 1, -1),
               "conv": nir.Conv1d(None, np.zeros((2, 2, 2)), 1, "same", 2, 1, np.zeros(2)),
               "out": nir.Output(None)},
        edges=[("in", "f0"), ("f0", "pool"), ("pool", "f1"), ("f1", "conv"), ("conv", "out")])


for dt in ("<i4", ">u4"):
    g = build(dt)
    try:
        with contextlib.redirect_stdout(io.StringIO()):
            g.infer_types()
        verdict = "infers; conv output " + str(g.nodes["conv"].output_type["output"])
    except Exception as e:  # noqa
        verdict = f"RAISED {type(e).__name__}: {e}"
    chain = {k: (None if n.output_type is None or n.output_type.get("output") is None
                 else (str(n.output_type["output"].dtype), n.output_type["output"].tolist()))
             for k, n in g.nodes.items()}
    print(dt, verdict)
    print("   declared outputs:", chain)
