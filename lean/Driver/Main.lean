import Driver.Codec
import NirVerif.Model.Graph
import NirVerif.Model.FS
import NirVerif.Generated.LifExactFloat
import NirVerif.Generated.CubaRefFloat
import NirVerif.Model.EventLoop
import NirVerif.Model.CubaRun
/-
  Line-protocol driver: one JSON request per line on stdin, one JSON reply per line on
  stdout.  Imports Model / Spec / Generated only (no Mathlib), so it builds as a native exe.
-/
namespace NirVerif.Driver
open Lean NirVerif NirVerif.Py NirVerif.Model

def intsJson (xs : List Int) : Json := .arr (xs.map fun i => Json.num (JsonNumber.fromInt i)).toArray

/-- build a node (leaf or nested graph) from a recipe -/
partial def buildRecipe (j : Json) : Except String (Except PyErr Node) := do
  let kind ← (← j.getObjVal? "type").getStr?
  if kind == "NIRGraph" then
    let nodesJ ← (← j.getObjVal? "nodes").getArr?
    let mut children : Nodes := []
    for nj in nodesJ.toList do
      let a ← nj.getArr?
      if a.size != 2 then throw "bad node entry"
      let name ← a[0]!.getStr?
      match ← buildRecipe a[1]! with
      | .error e => return .error e
      | .ok c => children := Py.insert name c children
    let edges ← (← (← j.getObjVal? "edges").getArr?).toList.mapM fun e => do
      let a ← e.getArr?
      if a.size != 2 then throw "bad edge"
      pure ((← a[0]!.getStr?), (← a[1]!.getStr?))
    let md ← match j.getObjVal? "meta" with
      | .ok .null => pure (Val.dict [])
      | .ok m => valOfJson m
      | .error _ => pure (Val.dict [])
    pure (.ok (mkGraph children edges md))
  else
    let kwargs ← kvsOfJson (← j.getObjVal? "kwargs")
    match j.getObjVal? "types" with
    | .ok tj =>
      let a ← tj.getArr?
      if a.size != 2 then throw "bad types"
      let i ← valOfJson a[0]!
      let o ← valOfJson a[1]!
      pure ((construct kind kwargs).map fun n => n.setTypes i o)
    | .error _ => pure (construct kind kwargs)

def errOpt : Option PyErr → Json
  | none => .null
  | some e => .str e.name

def runOps (g : Node) : List String → List Json → Except String (List Json)
  | [], acc => pure acc.reverse
  | op :: rest, acc =>
    match op with
    | "infer" =>
      let (g', err) := inferTypes g
      runOps g' rest (Json.mkObj [("err", errOpt err), ("g", nodeToJson g')] :: acc)
    | "dict_rt" =>
      match (toDict g).bind fromDict with
      | .ok g' => runOps g' rest (Json.mkObj [("err", .null), ("g", nodeToJson g')] :: acc)
      | .error e => runOps g rest (Json.mkObj [("err", .str e.name), ("g", nodeToJson g)] :: acc)
    | "file_rt" =>
      match (write "v" g).bind read with
      | .ok g' => runOps g' rest (Json.mkObj [("err", .null), ("g", nodeToJson g')] :: acc)
      | .error e => runOps g rest (Json.mkObj [("err", .str e.name), ("g", nodeToJson g)] :: acc)
    | "check" =>
      match checkTypes g with
      | .ok b => runOps g rest (Json.mkObj [("r", .bool b)] :: acc)
      | .error e => runOps g rest (errJson e :: acc)
    | _ => throw s!"unknown graph op {op}"

def floatOfHex (s : String) : Except String Float := do
  let b ← parseHex s
  if b.length != 8 then throw "float needs 8 bytes"
  pure (Float.ofBits (UInt64.ofNat (Py.leNat b)))

def floatToHex (x : Float) : String := toHex (Py.natLE 8 x.toBits.toNat)

def handle (j : Json) : Except String Json := do
  let op ← (← j.getObjVal? "op").getStr?
  match op with
  | "conv_axis" =>
    let a ← (← (← j.getObjVal? "args").getArr?).toList.mapM (·.getInt?)
    match a with
    | [n, p, d, k, s] => pure (Json.mkObj [("r", .num (JsonNumber.fromInt (Generated.convAxis n p d k s)))])
    | _ => throw "conv_axis arity"
  | "conv_out" =>
    let a ← (← (← j.getObjVal? "args").getArr?).toList.mapM valOfJson
    match a with
    | [n, p, d, k, s] =>
      match calculateConvOutput n p d k s with
      | .ok r => pure (Json.mkObj [("r", valToJson (shapeArray r))])
      | .error e => pure (errJson e)
    | _ => throw "conv_out arity"
  | "flatten" =>
    let shape ← (← (← j.getObjVal? "shape").getArr?).toList.mapM (·.getInt?)
    let s ← (← j.getObjVal? "s").getInt?
    let e ← (← j.getObjVal? "e").getInt?
    pure (Json.mkObj [("r", intsJson (calcFlattenOutput shape s e))])
  | "construct" =>
    let kind ← (← j.getObjVal? "type").getStr?
    let kwargs ← kvsOfJson (← j.getObjVal? "kwargs")
    match construct kind kwargs with
    | .ok n => pure (nodeToJson n)
    | .error e => pure (errJson e)
  | "graph" =>
    let ops ← (← (← j.getObjVal? "ops").getArr?).toList.mapM (·.getStr?)
    match ← buildRecipe (← j.getObjVal? "graph") with
    | .error e => pure (Json.mkObj [("steps", .arr #[errJson e])])
    | .ok g =>
      let steps ← runOps g ops [nodeToJson g]
      pure (Json.mkObj [("steps", .arr steps.toArray)])
  | "lif_kernel" =>
    let a ← (← (← j.getObjVal? "args").getArr?).toList.mapM fun x => do floatOfHex (← x.getStr?)
    match a with
    | [tau, r, vl, vt, v, i, dt] =>
      let adv := Generated.LifFloat.advance tau r vl vt v i dt
      let nxt := Generated.LifFloat.nextSpikeTime tau r vl vt v i
      let rst := Generated.LifFloat.applyReset tau r vl vt v
      pure (Json.mkObj [("advance", .str (floatToHex adv)),
        ("next", match nxt with | some t => .str (floatToHex t) | none => .null), ("reset", .str (floatToHex rst))])
    | _ => throw "lif_kernel arity"
  | "lif_events" =>
    -- the event loop of lif_exact_sim.py on Float: hand-written loop around the generated kernels
    let fl (k : String) : Except String Float := do floatOfHex (← (← j.getObjVal? k).getStr?)
    let fls (k : String) : Except String (List Float) := do
      (← (← j.getObjVal? k).getArr?).toList.mapM fun x => do floatOfHex (← x.getStr?)
    let tau ← fl "tau"; let r ← fl "r"; let vl ← fl "v_leak"; let vt ← fl "v_threshold"
    let v0 ← fl "v0"; let dur ← fl "duration"
    let recDt ← match j.getObjVal? "record_dt" with
      | .ok .null => pure none
      | .ok x => do pure (some (← floatOfHex (← x.getStr?)))
      | .error _ => pure none
    let times ← fls "times"; let amps ← fls "amps"
    let fuel ← (← j.getObjVal? "fuel").getNat?
    let inputs := times.zip amps
    let K : EventLoop.Kern Float :=
      ⟨Generated.LifFloat.advance tau r vl vt, Generated.LifFloat.nextSpikeTime tau r vl vt,
       Generated.LifFloat.applyReset tau r vl vt⟩
    match EventLoop.init K (0.0 : Float) v0 inputs recDt with
    | none => pure (Json.mkObj [("err", .str "IndexError")])
    | some s0 =>
      match EventLoop.run K inputs recDt dur fuel s0 with
      | none => pure (Json.mkObj [("err", .str "Other")])
      | some s =>
        pure (Json.mkObj [("spikes", .arr (s.spikes.map fun x => Json.str (floatToHex x)).toArray),
          ("times", .arr (s.recs.map fun x => Json.str (floatToHex x.1)).toArray),
          ("voltages", .arr (s.recs.map fun x => Json.str (floatToHex x.2)).toArray),
          ("v", .str (floatToHex s.v))])
  | "cuba_run" =>
    -- run_cuba_reference_model for one neuron: the hand-written fold around the generated Float kernel
    let a ← (← (← j.getObjVal? "args").getArr?).toList.mapM fun x => do floatOfHex (← x.getStr?)
    let xs ← (← (← j.getObjVal? "xs").getArr?).toList.mapM fun x => do floatOfHex (← x.getStr?)
    -- the state the run starts from (a fresh model: zero; a model that has been run before: where it stopped)
    let st (k : String) : Except String Float := match j.getObjVal? k with
      | .ok (.str h) => floatOfHex h
      | _ => pure 0.0
    let i0 ← st "I0"; let v0 ← st "v0"
    match a with
    | [dt, ts, tm, r, vl, vt, w] =>
      let out := CubaRun.go (Generated.CubaFloat.cubaForward dt ts tm r vl vt w) i0 v0 xs
      pure (Json.mkObj [("z", .arr (out.map fun o => Json.str (floatToHex o.1)).toArray),
        ("v", .arr (out.map fun o => Json.str (floatToHex o.2.1)).toArray),
        ("I", .arr (out.map fun o => Json.str (floatToHex o.2.2)).toArray)])
    | _ => throw "cuba_run arity"
  | "cuba_kernel" =>
    let a ← (← (← j.getObjVal? "args").getArr?).toList.mapM fun x => do floatOfHex (← x.getStr?)
    match a with
    | [dt, ts, tm, r, vl, vt, w, I, v, x] =>
      let (z, v', I') := Generated.CubaFloat.cubaForward dt ts tm r vl vt w I v x
      pure (Json.mkObj [("z", .str (floatToHex z)), ("v", .str (floatToHex v')), ("I", .str (floatToHex I'))])
    | _ => throw "cuba_kernel arity"
  | "fs_history" =>
    let version ← (← j.getObjVal? "version").getStr?
    let recs ← (← j.getObjVal? "graphs").getArr?
    let mut graphs : Array Node := #[]
    for r in recs do
      match ← buildRecipe r with
      | .ok g => graphs := graphs.push g
      | .error _ => return (Json.mkObj [("err", .str "Other")])   -- the model declines this pool (outside its domain)
    let opsJ ← (← j.getObjVal? "ops").getArr?
    let mut fs : FS := { content := none, openHandles := 0 }
    let mut outs : Array Json := #[]
    for oj in opsJ do
      let a ← oj.getArr?
      let name ← a[0]!.getStr?
      let op ← match name with
        | "write" => do
            let k ← a[1]!.getNat?
            match graphs[k]? with
            | some g => pure (FsOp.write g)
            | none => throw "bad graph index"
        | "read" => pure FsOp.read
        | "read_version" => pure FsOp.readVersion
        | _ => throw "bad fs op"
      let (fs', o) := fsStep version fs op
      fs := fs'
      outs := outs.push (match o with
        | .done => Json.mkObj [("done", .bool true), ("open", .num (JsonNumber.fromNat fs'.openHandles))]
        | .graph g => Json.mkObj [("g", nodeToJson g), ("open", .num (JsonNumber.fromNat fs'.openHandles))]
        | .version v => Json.mkObj [("v", .str v), ("open", .num (JsonNumber.fromNat fs'.openHandles))]
        | .failed e => Json.mkObj [("err", .str e.name), ("open", .num (JsonNumber.fromNat fs'.openHandles))])
    pure (Json.mkObj [("outs", .arr outs)])
  | "to_dict" =>
    match ← buildRecipe (← j.getObjVal? "graph") with
    | .error e => pure (errJson e)
    | .ok g => match toDict g with
      | .ok d => pure (Json.mkObj [("d", valToJson d)])
      | .error e => pure (errJson e)
  | "from_dict" =>
    let d ← valOfJson (← j.getObjVal? "d")
    match fromDict d with
    | .ok g => pure (nodeToJson g)
    | .error e => pure (errJson e)
  | "write" =>
    let version ← (← j.getObjVal? "version").getStr?
    match ← buildRecipe (← j.getObjVal? "graph") with
    | .error e => pure (Json.mkObj [("construct_err", .str e.name)])
    | .ok g => match write version g with
      | .ok f => pure (Json.mkObj [("file", h5ToJson f)])
      | .error _ => pure (Json.mkObj [("rejected", .bool true)])
  | "read_tree" =>
    let f ← h5OfJson (← j.getObjVal? "file")
    match read f with
    | .ok g => pure (nodeToJson g)
    | .error e => pure (errJson e)
  | "from_list" =>
    let recs ← (← j.getObjVal? "nodes").getArr?
    let mut nodes : List Node := []
    for r in recs.toList do
      match ← buildRecipe r with
      | .error e => return errJson e
      | .ok n => nodes := nodes ++ [n]
    match fromList nodes with
    | .ok g => pure (nodeToJson g)
    | .error e => pure (errJson e)
  | _ => throw s!"unknown op {op}"

partial def loop (h : IO.FS.Stream) (out : IO.FS.Stream) : IO Unit := do
  let line ← h.getLine
  if line.isEmpty then return ()
  let reply := match Json.parse line with
    | .error e => Json.mkObj [("fatal", .str s!"parse: {e}")]
    | .ok j => match handle j with
      | .ok r => r
      | .error e => Json.mkObj [("fatal", .str e)]
  out.putStrLn reply.compress
  loop h out

end NirVerif.Driver

def main : IO Unit := do
  let out ← IO.getStdout
  NirVerif.Driver.loop (← IO.getStdin) out
  out.flush
