import Driver.Codec
/-
  Line-protocol driver: one JSON request per line on stdin, one JSON reply per line on
  stdout.  Imports Model / Spec / Generated only (no Mathlib), so it builds as a native exe.
-/
namespace NirVerif.Driver
open Lean NirVerif NirVerif.Py NirVerif.Model

def intsJson (xs : List Int) : Json := .arr (xs.map fun i => Json.num (JsonNumber.fromInt i)).toArray

def handle (j : Json) : Except String Json := do
  let op ← (← j.getObjVal? "op").getStr?
  match op with
  | "conv_axis" =>
    let a ← (← (← j.getObjVal? "args").getArr?).toList.mapM (·.getInt?)
    match a with
    | [n, p, d, k, s] => pure (Json.mkObj [("r", .num (JsonNumber.fromInt (Generated.convAxis n p d k s)))])
    | _ => throw "conv_axis arity"
  | "conv_out" =>
    let a ← (← (← j.getObjVal? "args").getArr?).toList.mapM valOfJson
    match a with
    | [n, p, d, k, s] =>
      match calculateConvOutput n p d k s with
      | .ok r => pure (Json.mkObj [("r", valToJson (shapeArray r))])
      | .error e => pure (errJson e)
    | _ => throw "conv_out arity"
  | "flatten" =>
    let shape ← (← (← j.getObjVal? "shape").getArr?).toList.mapM (·.getInt?)
    let s ← (← j.getObjVal? "s").getInt?
    let e ← (← j.getObjVal? "e").getInt?
    pure (Json.mkObj [("r", intsJson (calcFlattenOutput shape s e))])
  | "construct" =>
    let kind ← (← j.getObjVal? "type").getStr?
    let kwargs ← kvsOfJson (← j.getObjVal? "kwargs")
    match construct kind kwargs with
    | .ok n => pure (nodeToJson n)
    | .error e => pure (errJson e)
  | _ => throw s!"unknown op {op}"

partial def loop (h : IO.FS.Stream) (out : IO.FS.Stream) : IO Unit := do
  let line ← h.getLine
  if line.isEmpty then return ()
  let reply := match Json.parse line with
    | .error e => Json.mkObj [("fatal", .str s!"parse: {e}")]
    | .ok j => match handle j with
      | .ok r => r
      | .error e => Json.mkObj [("fatal", .str e)]
  out.putStrLn reply.compress
  loop h out

end NirVerif.Driver

def main : IO Unit := do
  let out ← IO.getStdout
  NirVerif.Driver.loop (← IO.getStdin) out
  out.flush
