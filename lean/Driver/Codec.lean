import Lean.Data.Json
import NirVerif.Model.Node
import NirVerif.Model.File
/-
  JSON codec for the line protocol (driver only; not part of the verified model).
-/
namespace NirVerif.Driver
open Lean NirVerif NirVerif.Py NirVerif.Model

def hexDigit (c : Char) : Option Nat :=
  if '0' ≤ c ∧ c ≤ '9' then some (c.toNat - '0'.toNat)
  else if 'a' ≤ c ∧ c ≤ 'f' then some (c.toNat - 'a'.toNat + 10)
  else none

def parseHex (s : String) : Except String Bytes :=
  let rec go : List Char → List UInt8 → Except String Bytes
    | [], acc => .ok acc.reverse
    | a :: b :: rest, acc =>
      match hexDigit a, hexDigit b with
      | some x, some y => go rest (UInt8.ofNat (16 * x + y) :: acc)
      | _, _ => .error "bad hex"
    | _, _ => .error "odd hex"
  go s.toList []

def toHex (b : Bytes) : String :=
  let d (n : Nat) : Char := if n < 10 then Char.ofNat (48 + n) else Char.ofNat (87 + n)
  String.ofList (b.flatMap fun x => [d (x.toNat / 16), d (x.toNat % 16)])

/-- numpy `dtype.str`, e.g. `<i8`, `|b1`, `>f4`, `|u1`, `<c16`, `|S5`, `|O` -/
def parseDType (s : String) : Except String DType :=
  match s.toList with
  | bo :: k :: rest =>
    let kind? : Option DKind := match k with
      | 'i' => some .int | 'u' => some .uint | 'f' => some .float | 'b' => some .bool
      | 'c' => some .complex | 'S' => some .bytesS | 'U' => some .unicodeU | 'O' => some .object
      | _ => none
    match kind?, (String.ofList rest).toNat? with
    | some kind, some sz => .ok { kind, size := sz, big := bo == '>' }
    | some kind, none => if rest.isEmpty then .ok { kind, size := 8, big := false } else .error s!"bad dtype {s}"
    | _, _ => .error s!"bad dtype {s}"
  | _ => .error s!"bad dtype {s}"

def dtypeStr (d : DType) : String :=
  let k := match d.kind with
    | .int => "i" | .uint => "u" | .float => "f" | .bool => "b" | .complex => "c"
    | .bytesS => "S" | .unicodeU => "U" | .object => "O"
  let bo := if d.kind == .object then "|"
    else if d.size == 1 || d.kind == .bytesS then "|" else if d.big then ">" else "<"
  if d.kind == .object then "|O" else s!"{bo}{k}{d.size}"

partial def valOfJson (j : Json) : Except String Val := do
  match j with
  | .null => pure .none
  | .obj _ =>
    if let .ok b := j.getObjVal? "b" then return .bool (← b.getBool?)
    if let .ok i := j.getObjVal? "i" then return .int (← i.getInt?)
    if let .ok f := j.getObjVal? "f" then return .float (← parseHex (← f.getStr?))
    if let .ok s := j.getObjVal? "s" then return .str (← s.getStr?)
    if let .ok y := j.getObjVal? "y" then return .bytes (← parseHex (← y.getStr?))
    if let .ok n := j.getObjVal? "n" then
      return .npscalar (← parseDType (← n.getStr?)) (← parseHex (← (← j.getObjVal? "x").getStr?))
    if let .ok a := j.getObjVal? "a" then
      let sh ← (← (← j.getObjVal? "sh").getArr?).toList.mapM (·.getNat?)
      return .arr (← parseDType (← a.getStr?)) sh (← parseHex (← (← j.getObjVal? "x").getStr?))
    if let .ok t := j.getObjVal? "t" then return .tuple (← (← t.getArr?).toList.mapM valOfJson)
    if let .ok l := j.getObjVal? "l" then return .list (← (← l.getArr?).toList.mapM valOfJson)
    if let .ok d := j.getObjVal? "d" then
      let kvs ← (← d.getArr?).toList.mapM fun kv => do
        let a ← kv.getArr?
        if a.size != 2 then throw "bad kv"
        pure ((← a[0]!.getStr?), (← valOfJson a[1]!))
      return .dict kvs
    throw s!"bad value {j.compress}"
  | _ => throw s!"bad value {j.compress}"

partial def valToJson : Val → Json
  | .none => .null
  | .bool b => Json.mkObj [("b", .bool b)]
  | .int i => Json.mkObj [("i", .num (JsonNumber.fromInt i))]
  | .float f => Json.mkObj [("f", .str (toHex f))]
  | .str s => Json.mkObj [("s", .str s)]
  | .bytes b => Json.mkObj [("y", .str (toHex b))]
  | .npscalar dt d => Json.mkObj [("n", .str (dtypeStr dt)), ("x", .str (toHex d))]
  | .arr dt sh d => Json.mkObj [("a", .str (dtypeStr dt)),
      ("sh", .arr (sh.map fun n => Json.num (JsonNumber.fromNat n)).toArray), ("x", .str (toHex d))]
  | .tuple xs => Json.mkObj [("t", .arr (xs.map valToJson).toArray)]
  | .list xs => Json.mkObj [("l", .arr (xs.map valToJson).toArray)]
  | .dict kvs => Json.mkObj [("d", .arr (kvs.map fun (k, v) => Json.arr #[.str k, valToJson v]).toArray)]

def kvsOfJson (j : Json) : Except String (List (String × Val)) := do
  (← j.getArr?).toList.mapM fun kv => do
    let a ← kv.getArr?
    if a.size != 2 then throw "bad kv"
    pure ((← a[0]!.getStr?), (← valOfJson a[1]!))

partial def nodeToJson (n : Node) : Json :=
  Json.mkObj [
    ("type", .str n.kind),
    ("fields", .arr (n.fields.map fun (k, v) => Json.arr #[.str k, valToJson v]).toArray),
    ("in", valToJson n.inputType),
    ("out", valToJson n.outputType),
    ("meta", valToJson n.metadata),
    ("nodes", .arr (n.children.map fun (k, c) => Json.arr #[.str k, nodeToJson c]).toArray),
    ("edges", .arr (n.edges.map fun (a, b) => Json.arr #[.str a, .str b]).toArray)]

def shapeJson (sh : List Nat) : Json := .arr (sh.map fun n => Json.num (JsonNumber.fromNat n)).toArray

def dsetToJson : DsetVal → Json
  | .str s => Json.mkObj [("kind", .str "str"), ("shape", .arr #[]), ("v", .str s)]
  | .num dt sh d => Json.mkObj [("kind", .str "num"), ("dtype", .str (dtypeStr dt)), ("shape", shapeJson sh), ("x", .str (toHex d))]
  | .strs sh items => Json.mkObj [("kind", .str "str"), ("shape", shapeJson sh), ("v", .arr (items.map Json.str).toArray)]

partial def h5ToJson : H5 → Json
  | .group items => Json.mkObj [("g", .arr (items.map fun (k, v) => Json.arr #[.str k, h5ToJson v]).toArray)]
  | .dset v => Json.mkObj [("ds", dsetToJson v)]

def dsetOfJson (j : Json) : Except String DsetVal := do
  let kind ← (← j.getObjVal? "kind").getStr?
  let sh ← (← (← j.getObjVal? "shape").getArr?).toList.mapM (·.getNat?)
  if kind == "str" then
    match ← j.getObjVal? "v" with
    | .str s => pure (.str s)
    | .arr xs => pure (.strs sh (← xs.toList.mapM (·.getStr?)))
    | _ => throw "bad str dataset"
  else
    pure (.num (← parseDType (← (← j.getObjVal? "dtype").getStr?)) sh (← parseHex (← (← j.getObjVal? "x").getStr?)))

partial def h5OfJson (j : Json) : Except String H5 := do
  if let .ok g := j.getObjVal? "g" then
    let items ← (← g.getArr?).toList.mapM fun kv => do
      let a ← kv.getArr?
      if a.size != 2 then throw "bad h5 entry"
      pure ((← a[0]!.getStr?), (← h5OfJson a[1]!))
    return .group items
  if let .ok d := j.getObjVal? "ds" then
    return .dset (← dsetOfJson d)
  throw "bad h5 node"

def errJson (e : PyErr) : Json := Json.mkObj [("err", .str e.name)]

end NirVerif.Driver
