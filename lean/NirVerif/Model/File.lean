import NirVerif.Model.Dict
/-
  F layer: the HDF5 file form.  `H5` is what a raw traversal of a file reports; the small
  contract model of h5py (`h5Create`, `h5Load`, link names, iteration order) is *modelled, not
  verified* — the `files` correspondence suite compares it with real h5py on every run.
-/
namespace NirVerif.Model
open NirVerif NirVerif.Py

/-- what a dataset holds, as a raw traversal reports it -/
inductive DsetVal where
  | str (s : String)                                   -- scalar variable-length UTF-8 string
  | num (dt : DType) (shape : List Nat) (data : Bytes) -- numeric dataset (scalar: shape [])
  | strs (shape : List Nat) (items : List String)      -- array of variable-length UTF-8 strings
  deriving Repr, DecidableEq, Inhabited

/-- an HDF5 object tree; a group's members are kept in link-name order (UTF-8 byte order),
which is also h5py's default iteration order -/
inductive H5 where
  | group (items : List (String × H5))
  | dset (v : DsetVal)
  deriving Repr, Inhabited

/-- lexicographic order on code points; UTF-8 preserves it, so this is HDF5's byte-wise
`strcmp` order of link names -/
def codesLE : List Nat → List Nat → Bool
  | [], _ => true
  | _ :: _, [] => false
  | a :: as, b :: bs => if a < b then true else if b < a then false else codesLE as bs

def nameLE (a b : String) : Bool := codesLE (a.toList.map Char.toNat) (b.toList.map Char.toNat)

/-- place a link at its position in name order -/
def insertSorted (name : String) (item : H5) : List (String × H5) → List (String × H5)
  | [] => [(name, item)]
  | (k, v) :: rest =>
    if nameLE name k then (name, item) :: (k, v) :: rest
    else (k, v) :: insertSorted name item rest

/-- insert a new link into a group (name order); `none`: the name already exists -/
def h5Insert (name : String) (item : H5) (acc : List (String × H5)) : Option (List (String × H5)) :=
  if hasKey name acc then Option.none else some (insertSorted name item acc)

/-- link-name rules of `create_group` / `create_dataset` (after the library's own check for
'/' and NUL): the empty name and "." cannot be created -/
def nameCreatable (name : String) : Bool := name != "" && name != "."

/-! ## h5py contract: Python value -> dataset -/

def isStrVal : Val → Bool | .str _ => true | _ => false

/-- element dtype and bytes of a scalar usable inside a numeric sequence -/
def scalarItem : Val → Option (DType × Bytes)
  | .int i => if fitsInt DType.int64 i then some (DType.int64, encodeInt DType.int64 i) else Option.none
  | .bool b => some (DType.bool_, [if b then 1 else 0])
  | .float bits => some (DType.float64, bits)
  | .npscalar dt d => some (dt, d)
  | _ => Option.none

def strOf? : Val → Option String | .str s => some s | _ => Option.none

/-- a pair of strings (one `edges` row) -/
def strPair? : Val → Option (List String)
  | .tuple [.str a, .str b] | .list [.str a, .str b] => some [a, b]
  | _ => Option.none

/-- `create_dataset(k, data=v)` for the generic `else` branch and the explicit branches of
`write_recursive`; `none` stands for the exception h5py / numpy raises -/
def h5Create (v : Val) : Option DsetVal :=
  match v with
  | .str s => if s.toList.contains (Char.ofNat 0) then Option.none else some (.str s)
  | .arr dt sh d =>
      match dt.kind with
      | .object | .unicodeU => Option.none
      | _ => some (.num dt sh d)
  | .int i =>
      -- np.asarray(python int): int64 when it fits, uint64 for 2^63 .. 2^64-1, an object array (refused by h5py) beyond
      if fitsInt DType.int64 i then some (.num DType.int64 [] (encodeInt DType.int64 i))
      else if fitsInt { kind := .uint, size := 8 } i then
        some (.num { kind := .uint, size := 8 } [] (encodeInt { kind := .uint, size := 8 } i))
      else Option.none
  | .bool _ | .float _ | .npscalar _ _ =>
      (scalarItem v).map fun (dt, d) => .num dt [] d
  | .none | .dict _ | .bytes _ => Option.none     -- (bytes would be stored as an opaque string; never produced by to_dict)
  | .tuple xs | .list xs =>
      if xs.isEmpty then some (.num DType.float64 [0] [])
      else if xs.all isStrVal then
        some (.strs [xs.length] (xs.filterMap strOf?))
      else
        -- rows of strings (the `edges` list of pairs)
        let rows := xs.filterMap strPair?
        if rows.length == xs.length then some (.strs [xs.length, 2] rows.flatten)
        else
          -- a flat homogeneous numeric sequence
          match xs.mapM scalarItem with
          | some items =>
            match items with
            | [] => Option.none
            | (dt0, _) :: _ =>
              if items.all (fun it => it.1 == dt0) then some (.num dt0 [xs.length] (items.map (·.2)).flatten)
              else Option.none
          | Option.none => Option.none

/-! ## the writer -/

/-- create one link in the group being written -/
def addMember (k : String) (item : H5) (acc : List (String × H5)) : Except PyErr (List (String × H5)) :=
  if !nameCreatable k then .error .valueError
  else match h5Insert k item acc with
    | some acc' => .ok acc'
    | Option.none => .error .valueError

def badName (k : String) : Bool := k.toList.contains '/' || k.toList.contains (Char.ofNat 0)

/-- `write_recursive(group, node)` returning the members it creates -/
def writeRecursiveFuel : Nat → List (String × Val) → List (String × H5) → Except PyErr (List (String × H5))
  | 0, _, _ => .error unmodelled
  | _, [], acc => .ok acc
  | fuel + 1, (k, v) :: rest, acc =>
    if badName k then .error .valueError else
    -- the member this entry creates (`none`: empty metadata is skipped)
    let item? : Except PyErr (Option H5) :=
      match v with
      | .dict kvs =>
          if k == "metadata" && kvs.isEmpty then .ok Option.none
          else match writeRecursiveFuel fuel kvs [] with
            | .ok sub => .ok (some (.group sub))
            | .error e => .error e
      | _ =>
          if k == "metadata" then .error .attributeError
          else match h5Create v with
            | some ds => .ok (some (.dset ds))
            | Option.none => .error .typeError
    match item? with
    | .error e => .error e
    | .ok Option.none => writeRecursiveFuel fuel rest acc
    | .ok (some item) =>
      match addMember k item acc with
      | .error e => .error e
      | .ok acc' => writeRecursiveFuel fuel rest acc'

def Val.size : Val → Nat
  | .dict kvs => 1 + sizeList kvs
  | _ => 1
where
  sizeList : List (String × Val) → Nat
    | [] => 0
    | (_, v) :: rest => Val.size v + sizeList rest

/-- `nir.write(file, graph)`: the file as a raw traversal sees it -/
def write (version : String) (g : Node) : Except PyErr H5 := do
  let d ← toDict g
  match d with
  | .dict kvs =>
      let node ← writeRecursiveFuel (Val.size d + 1) kvs []
      let root := [("node", H5.group node), ("version", H5.dset (.str version))]
      pure (.group root)
  | _ => throw .typeError

/-! ## the reader -/

/-- `item[()]` followed by `try_byte_to_str` -/
def h5Load : DsetVal → Val
  | .str s => .str s                    -- bytes from h5py, decoded by try_byte_to_str
  | .num dt [] d =>
      -- numpy scalars are always native-endian: a big-endian scalar dataset is byte-swapped
      if dt.big then
        let swapped := if dt.kind == .complex then (d.take (dt.size / 2)).reverse ++ (d.drop (dt.size / 2)).reverse
                       else d.reverse
        .npscalar { dt with big := false } swapped
      else .npscalar dt d
  | .num dt sh d => .arr dt sh d
  | .strs [_, 2] items =>               -- object array of bytes, only ever iterated row-wise
      .list (pairs items)
  | .strs _ items => .list (items.map fun s => .bytes s.toUTF8.data.toList)
where
  pairs : List String → List Val
    | a :: b :: rest => .list [.bytes a.toUTF8.data.toList, .bytes b.toUTF8.data.toList] :: pairs rest
    | _ => []

/-- `hdf2dict` -/
def hdf2dict : H5 → Val
  | .group items => .dict (hdf2dictItems items)
  | .dset v => h5Load v
where
  hdf2dictItems : List (String × H5) → List (String × Val)
    | [] => []
    | (k, v) :: rest => (k, hdf2dict v) :: hdf2dictItems rest

def h5Get (f : H5) (name : String) : Except PyErr H5 :=
  match f with
  | .group items => match lookup name items with | some x => .ok x | Option.none => .error .keyError
  | .dset _ => .error .typeError

/-- `nir.read(file)` -/
def read (f : H5) : Except PyErr Node := do
  let node ← h5Get f "node"
  fromDict (hdf2dict node)

/-- `read_version(file)` -/
def readVersion (f : H5) : Except PyErr String := do
  match ← h5Get f "version" with
  | .dset (.str s) => pure s
  | _ => throw .attributeError

end NirVerif.Model
