import NirVerif.Py.Value
import NirVerif.Generated.ConvAxis
import NirVerif.Generated.Flatten
/-
  S layer: the shape kernels of `nir/ir/utils.py` over the Py value universe.
  `calculateConvOutput` and `calcFlattenOutput` delegate their arithmetic to the
  *generated* definitions; the `isinstance` dispatch around them is hand-modelled.
-/
namespace NirVerif.Model
open NirVerif NirVerif.Py

/-- Marker for inputs the model deliberately does not cover (the driver prints it, the
harness counts it; generators stay inside the modelled domain). -/
def unmodelled : PyErr := .other

/-- `isinstance(x, (int, np.integer))`-style integer reading of a scalar. -/
def Val.asInt? : Val → Option Int
  | .int i => some i
  | .bool b => some (if b then 1 else 0)
  | .npscalar dt d => if dt.isInteger then some (decodeInt dt d) else Option.none
  | _ => Option.none

/-- Is the value an instance of `collections.abc.Sequence`?  (tuple, list, str, bytes;
ndarray is *not*). -/
def Val.isSequence : Val → Bool
  | .tuple _ | .list _ | .str _ | .bytes _ => true
  | _ => false

/-- Elements of an integer-valued 1-d container (tuple/list of int-likes, or 1-d integer
ndarray), as Python would iterate them. -/
def Val.intElems? : Val → Option (List Int)
  | .tuple xs | .list xs => xs.mapM Val.asInt?
  | .arr dt [_] d => if dt.isInteger then some (decodeInts dt d) else Option.none
  | _ => Option.none

/-- `len(x)` for the containers that occur; `none` is TypeError. -/
def Val.len? : Val → Option Nat
  | .tuple xs | .list xs => some xs.length
  | .str s => some s.length
  | .bytes b => some b.length
  | .arr _ (n :: _) _ => some n
  | .dict kvs => some kvs.length
  | _ => Option.none

/-- Result of `_index_tuple`: either an integer-valued numpy object, or a one-character
string array (arithmetic on which raises), abstracted to what later code can observe. -/
inductive Idx where
  | int (i : Int)
  | strChar
  deriving Repr, DecidableEq

/-- `_index_tuple(x, i)`. -/
def indexTuple (x : Val) (i : Nat) : Except PyErr Idx :=
  match x with
  | .arr dt [n] d =>
      if i < n then
        (if dt.isInteger then .ok (.int ((decodeInts dt d).getD i 0)) else .error unmodelled)
      else .error .indexError
  | .arr _ _ _ => .error .indexError            -- 0-d (and n-d rows: unmodelled, never generated)
  | .tuple xs | .list xs =>
      match xs[i]? with
      | some v => (match Val.asInt? v with | some k => .ok (.int k) | Option.none => .error unmodelled)
      | Option.none => .error .indexError
  | .str s => if i < s.length then .ok .strChar else .error .indexError
  | .bytes b => match b[i]? with | some c => .ok (.int c.toNat) | Option.none => .error .indexError
  | .int k => .ok (.int k)
  | .bool b => .ok (.int (if b then 1 else 0))
  | .npscalar dt d => if dt.isInteger then .ok (.int (decodeInt dt d)) else .error .indexError
  | .none | .float _ | .dict _ => .error .typeError

def Idx.toInt : Idx → Except PyErr Int
  | .int i => .ok i
  | .strChar => .error .typeError      -- numpy: no ufunc loop for a string operand

/-- `padding == "same"` -/
def isSamePadding (padding : Val) : Bool :=
  match padding with | .str s => s == "same" | _ => false

/-- `if padding == "valid": padding = [0] * ndim` -/
def normalisePadding (ndim : Nat) (padding : Val) : Val :=
  match padding with
  | .str s => if s == "valid" then Val.list (List.replicate ndim (.int 0)) else padding
  | _ => padding

/-- One axis of the `for` loop in `calculate_conv_output`. -/
def convAxisVal (inputShape padding dilation kernel stride : Val) (i : Nat) : Except PyErr Int := do
  if isSamePadding padding then
    (← indexTuple inputShape i).toInt
  else
    let n ← (← indexTuple inputShape i).toInt
    let p ← (← indexTuple padding i).toInt
    let d ← (← indexTuple dilation i).toInt
    let k ← (← indexTuple kernel i).toInt
    let s ← (← indexTuple stride i).toInt
    if s = 0 then
      -- float division by zero: nan (-> ValueError in int()) or ±inf (-> OverflowError)
      (if n + 2 * p - d * (k - 1) - 1 = 0 then .error .valueError else .error .other)
    else
      .ok (Generated.convAxis n p d k s)

/-- `calculate_conv_output`: an int64 vector with one entry per spatial axis. -/
def calculateConvOutput (inputShape padding dilation kernel stride : Val) : Except PyErr (List Int) := do
  let ndim ← match Val.asInt? inputShape with
    | some _ => pure 1
    | Option.none => match Val.len? inputShape with
      | some n => pure n
      | Option.none => .error .typeError
  let padding := normalisePadding ndim padding
  (List.range ndim).mapM (convAxisVal inputShape padding dilation kernel stride)

/-- `np.array(shapes)` at the end of `calculate_conv_output` / of `[c, *shape]` displays:
an int64 vector, except that the empty display is a float64 vector (numpy's default). -/
def shapeArray (xs : List Int) : Val :=
  if xs.isEmpty then .arr DType.float64 [0] [] else Val.ofInts xs

/-- `np.array([*start, np.prod(middle), *end])` of `calc_flatten_output`: `np.prod` of an
unsigned array is uint64, which makes the whole result uint64; otherwise int64. -/
def flattenArray (input : Val) (xs : List Int) : Val :=
  match input with
  | .arr dt _ _ =>
      if dt.kind == .uint && !xs.isEmpty then
        .arr { kind := .uint, size := 8 } [xs.length] (encodeInts { kind := .uint, size := 8 } xs)
      else shapeArray xs
  | _ => shapeArray xs

/-- `calc_flatten_output` on an integer shape container. -/
def calcFlattenOutput (inputShape : List Int) (startDim endDim : Int) : List Int :=
  Generated.calcFlattenOutput inputShape startDim endDim

end NirVerif.Model
