/-
  Hand-written model of `run_event_based_simulation` (paper/01_lif/lif_exact_sim.py), the
  event loop around the three *generated* kernels (T6).  Generic in the number type, so the very
  same definition is run on `Float` by the driver (compared bit for bit with the Python loop on
  every run) and reasoned about over `ℝ` in `Properties/C20Loop.lean`.  Core Lean only.

  `math.inf` is `none` (`Option α` as a time extended by +∞), exactly as the generated
  `nextSpikeTime` reports "no spike".
-/
namespace NirVerif.Model.EventLoop

variable {α : Type}

/-- the three neuron kernels the loop calls (`advance_by_delta_t`, `calc_next_spike_time`,
`apply_reset`), already applied to the neuron's parameters -/
structure Kern (α : Type) where
  adv : α → α → α → α        -- voltage, input current, delta_t ↦ new voltage
  nsp : α → α → Option α     -- voltage, input current ↦ time to next spike (`none` = inf)
  rst : α → α

/-- the local variables of the loop plus the neuron's voltage and the record -/
structure St (α : Type) where
  t : α                      -- current_time
  v : α                      -- neuron.state.v
  amp : α                    -- current_input_amplitude
  idx : Nat                  -- current_input_index
  nSpike : Option α          -- next_spike_time
  nRec : Option α            -- next_record_time
  nIn : Option α             -- next_input_change_time
  spikes : List α            -- record.spikes
  recs : List (α × α)        -- zip(record.times, record.voltages)

section
variable [LT α] [LE α] [DecidableLT α] [DecidableLE α] [Add α] [Sub α]

/-- `<` on times extended by `+inf` -/
def ltInf : Option α → Option α → Bool
  | some a, some b => decide (a < b)
  | some _, none => true
  | none, _ => false

def addInf : Option α → Option α → Option α
  | some a, some b => some (a + b)
  | _, _ => none

/-- `np.argmin([a, b, c])` (first index of the minimum) together with the minimum -/
def argmin3 (a b c : Option α) : Nat × Option α :=
  let km : Nat × Option α := if ltInf b a then (1, b) else (0, a)
  if ltInf c km.2 then (2, c) else km

/-- head of one loop iteration: the `while` condition, the choice of the next event and the
`if next_time > duration: break`; `none` = the loop is left -/
def pick (dur : α) (s : St α) : Option (Nat × α) :=
  if s.t ≤ dur then
    match argmin3 s.nSpike s.nRec s.nIn with
    | (k, some T) => if T > dur then none else some (k, T)
    | (_, none) => none
  else none

/-- body of one loop iteration for the chosen event `(k, T)` -/
def fire (K : Kern α) (inputs : List (α × α)) (recDt : Option α) (s : St α) (k : Nat) (T : α) : Option (St α) :=
  let v1 := K.adv s.v s.amp (T - s.t)
  if k = 0 then
    let v2 := K.rst v1
    some { s with t := T, v := v2, spikes := s.spikes ++ [T], nSpike := (K.nsp v2 s.amp).map (T + ·) }
  else if k = 1 then
    some { s with t := T, v := v1, recs := s.recs ++ [(T, v1)], nRec := addInf s.nRec recDt }
  else
    match inputs[s.idx]? with
    | none => none     -- not reachable: `nIn` is finite only while `idx` is a valid index
    | some (_, a) =>
      some { s with t := T, v := v1, amp := a, idx := s.idx + 1, nIn := (inputs[s.idx + 1]?).map (·.1),
                    nSpike := (K.nsp v1 a).map (T + ·) }

/-- one iteration of the `while` loop; `none` = the loop is left -/
def step (K : Kern α) (inputs : List (α × α)) (recDt : Option α) (dur : α) (s : St α) : Option (St α) :=
  match pick dur s with
  | none => none
  | some (k, T) => fire K inputs recDt s k T

/-- one iteration, staying put once the loop has been left -/
def next (K : Kern α) (inputs : List (α × α)) (recDt : Option α) (dur : α) (s : St α) : St α :=
  (step K inputs recDt dur s).getD s

/-- the state after `n` iterations -/
def iter (K : Kern α) (inputs : List (α × α)) (recDt : Option α) (dur : α) : Nat → St α → St α
  | 0, s => s
  | n + 1, s => iter K inputs recDt dur n (next K inputs recDt dur s)

/-- run with fuel; `none` = fuel exhausted (the driver then declines the case) -/
def run (K : Kern α) (inputs : List (α × α)) (recDt : Option α) (dur : α) : Nat → St α → Option (St α)
  | 0, _ => none
  | n + 1, s =>
    match step K inputs recDt dur s with
    | none => some s
    | some s' => run K inputs recDt dur n s'
end

/-- the state in which the loop is entered: `inputs.times[0]` raises for an empty schedule; the first
spike prediction is made for the input current in force before the first change (zero) -/
def init [Add α] (K : Kern α) (zero : α) (v0 : α) (inputs : List (α × α)) (recDt : Option α) : Option (St α) :=
  match inputs with
  | [] => none
  | (t0, _) :: _ =>
    some { t := zero, v := v0, amp := zero, idx := 0, nSpike := (K.nsp v0 zero).map (zero + ·), nRec := recDt,
           nIn := some t0, spikes := [], recs := [] }

end NirVerif.Model.EventLoop
