import NirVerif.Model.File
import NirVerif.Generated.FileModes
/-
  File-system layer for C15: one path, the h5py mode table, open-handle bookkeeping.
  The modes and the use of `with` come from the *generated* constants (T3).
-/
namespace NirVerif.Model
open NirVerif NirVerif.Py

/-- the state of one filesystem path -/
structure FS where
  content : Option H5        -- `none`: the path does not exist
  openHandles : Nat
  deriving Inhabited

inductive FsOp where
  | write (g : Node)
  | read
  | readVersion

inductive FsOut where
  | done                       -- a successful write
  | graph (g : Node)           -- a successful read
  | version (s : String)
  | failed (e : PyErr)

/-- `h5py.File(path, mode)` followed by creating `version` and `node`: the resulting file
content, per mode.  Only `w` truncates; `a` / `r+` keep the old members, so creating `version`
again fails; `x` / `w-` refuse an existing path. -/
def openForWrite (mode : String) (existing : Option H5) (version : String) (g : Node) : Except PyErr H5 :=
  if mode == "w" then write version g
  else if mode == "a" then
    match existing with
    | Option.none => write version g
    | some _ => .error .valueError           -- "name already exists"
  else if mode == "r+" then
    match existing with
    | Option.none => .error .other           -- FileNotFoundError
    | some _ => .error .valueError
  else if mode == "x" || mode == "w-" then
    match existing with
    | Option.none => write version g
    | some _ => .error .other                -- FileExistsError
  else .error .valueError

def readable (mode : String) : Bool := mode == "r" || mode == "r+" || mode == "a"

def closeIf (usesWith : Bool) (n : Nat) : Nat := if usesWith then n else n + 1

/-- one public call on the path -/
def fsStep (version : String) (fs : FS) : FsOp → FS × FsOut
  | .write g =>
    match openForWrite Generated.writeMode fs.content version g with
    | .ok f => ({ content := some f, openHandles := closeIf Generated.writeUsesWith fs.openHandles }, .done)
    | .error e =>
      -- a failing write under mode "w" has already truncated the file
      let content := if Generated.writeMode == "w" then some (H5.group []) else fs.content
      ({ content := content, openHandles := closeIf Generated.writeUsesWith fs.openHandles }, .failed e)
  | .read =>
    let fs' := { fs with openHandles := closeIf Generated.readUsesWith fs.openHandles }
    if !(readable Generated.readMode) then (fs', .failed .valueError) else
    match fs.content with
    | Option.none => (fs', .failed .other)
    | some f => match read f with
      | .ok g => (fs', .graph g)
      | .error e => (fs', .failed e)
  | .readVersion =>
    let fs' := { fs with openHandles := closeIf Generated.versionUsesWith fs.openHandles }
    if !(readable Generated.versionMode) then (fs', .failed .valueError) else
    match fs.content with
    | Option.none => (fs', .failed .other)
    | some f => match readVersion f with
      | .ok s => (fs', .version s)
      | .error e => (fs', .failed e)

def fsRun (version : String) : FS → List FsOp → FS × List FsOut
  | fs, [] => (fs, [])
  | fs, op :: rest =>
    let (fs1, o) := fsStep version fs op
    let (fs2, os) := fsRun version fs1 rest
    (fs2, o :: os)

end NirVerif.Model
