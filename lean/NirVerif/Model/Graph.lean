import NirVerif.Model.Node
import NirVerif.Model.WorkList
/-
  G layer: NIRGraph construction, from_list, the edge-wise type check and forward type
  inference (the *active*, second definitions in nir/ir/graph.py).
-/
namespace NirVerif.Model
open NirVerif NirVerif.Py

abbrev Nodes := List (String × Node)

def Node.isKind (n : Node) (k : String) : Bool := n.kind == k

/-- `NIRGraph.__post_init__`: graph-level dictionaries mirror the Input / Output children. -/
def graphInputType (children : Nodes) : Val :=
  let ins := children.filter (fun kv => kv.2.isKind "Input")
  if ins.isEmpty then .none else .dict (ins.map fun kv => (kv.1, kv.2.inputType))

def graphOutputType (children : Nodes) : Val :=
  .dict ((children.filter (fun kv => kv.2.isKind "Output")).map fun kv => (kv.1, kv.2.outputType))

def mkGraph (children : Nodes) (edges : List Edge) (metadata : Val := .dict []) : Node :=
  Node.mk "NIRGraph" [] (graphInputType children) (graphOutputType children) metadata children edges

/-- refresh of the graph-level dictionaries -/
def Node.refreshIO (g : Node) : Node :=
  g.setTypes (graphInputType g.children) (graphOutputType g.children)

def graphInputs (g : Node) : Nodes := g.children.filter (fun kv => kv.2.isKind "Input")
def graphOutputs (g : Node) : Nodes := g.children.filter (fun kv => kv.2.isKind "Output")

/-! ## from_list -/

def uniqueName (basename : String) (id : Nat) : String :=
  if id > 0 then basename ++ "_" ++ toString id else basename

/-- names handed out by the per-class counter, left to right -/
def assignNames : List Node → List (String × Nat) → List (String × Node)
  | [], _ => []
  | n :: rest, counts =>
    let base := n.kind.toLower
    let id := (lookup base counts).getD 0
    (uniqueName base id, n) :: assignNames rest (insert base (id + 1) counts)

def insertAll {α : Type} (d : List (String × α)) : List (String × α) → List (String × α)
  | [] => d
  | (k, v) :: rest => insertAll (insert k v d) rest

/-- `NIRGraph.from_list(*nodes)` (the three calling conventions differ only in how the
sequence reaches this function). -/
def fromList (nodes : List Node) : Except PyErr Node := do
  match nodes with
  | [] => throw .indexError
  | first :: _ =>
    let last := nodes.getLast?.getD first
    let d0 : Nodes ← if first.isKind "Input" then pure [] else do
      let inp ← construct "Input" [("input_type", first.inputType)]
      pure [("input", inp)]
    let d1 := insertAll d0 (assignNames nodes [])
    let d2 : Nodes ← if last.isKind "Output" then pure d1 else do
      let out ← construct "Output" [("output_type", last.outputType)]
      pure (insert "output" out d1)
    let names := d2.map Prod.fst
    pure (mkGraph d2 (names.zip names.tail))

/-! ## type values -/

/-- `t is None or any(v is None for v in t.values())` -/
def typeUndefined (t : Val) : Bool :=
  match t with
  | .none => true
  | .dict kvs => kvs.any (fun kv => match kv.2 with | .none => true | _ => false)
  | _ => false

def typeLen (t : Val) : Except PyErr Nat :=
  match t with
  | .dict kvs => .ok kvs.length
  | _ => .error .typeError

/-- the (shape, integer content) of a shape value, container-insensitively; `none` for None -/
def shapeContent (v : Val) : Except PyErr (Option (List Int)) :=
  match v with
  | .none => .ok Option.none
  | .arr dt [n] d =>
      if dt.isInteger then .ok (some (decodeInts dt d))
      else if n == 0 then .ok (some [])
      else .error unmodelled
  | .tuple xs | .list xs =>
      match xs.mapM Val.asInt? with | some is => .ok (some is) | Option.none => .error unmodelled
  | _ => .error unmodelled

/-- `np.array_equal` on two shape values -/
def shapeEq (a b : Val) : Except PyErr Bool := do
  let x ← shapeContent a
  let y ← shapeContent b
  pure (x == y)

/-- `{k.replace(a, b): v for k, v in d.items()}` -/
def renameKeys (a b : String) (d : Val) : Except PyErr Val :=
  match d with
  | .dict kvs => .ok (.dict (insertAll [] (kvs.map fun kv => (pyReplace kv.1 a b, kv.2))))
  | _ => .error .attributeError

def singleValue (t : Val) : Except PyErr Val :=
  match t with
  | .dict [(_, v)] => .ok v
  | .dict _ => .error unmodelled
  | _ => .error .typeError

/-! ## the type check -/

def checkEdge (nodes : Nodes) (e : Edge) : Except PyErr Unit :=
  match lookup e.1 nodes, lookup e.2 nodes with
  | Option.none, _ => .error .keyError
  | _, Option.none => .error .keyError
  | some pre, some post =>
    if pre.isKind "NIRGraph" || post.isKind "NIRGraph" then .error unmodelled
    else if typeUndefined pre.outputType then .error .valueError
    else if typeUndefined post.inputType then .error .valueError
    else match typeLen pre.outputType, typeLen post.inputType with
      | .ok lo, .ok li =>
        if lo != li then .error .valueError
        else if lo == 1 then
          match singleValue post.inputType, singleValue pre.outputType with
          | .ok a, .ok b =>
            match shapeEq a b with
            | .ok true => .ok ()
            | .ok false => .error .valueError
            | .error err => .error err
          | .error err, _ => .error err
          | _, .error err => .error err
        else .error .notImplementedError
      | .error err, _ => .error err
      | _, .error err => .error err

/-- `for edge in self.edges: …` — stops at the first error -/
def forEachEdge (f : Edge → Except PyErr Unit) : List Edge → Except PyErr Unit
  | [] => .ok ()
  | e :: es => match f e with
    | .ok () => forEachEdge f es
    | .error err => .error err

/-- `_check_types()`: `True`, or the first error in edge order. -/
def checkTypes (g : Node) : Except PyErr Bool :=
  match forEachEdge (checkEdge g.children) g.edges with
  | .ok () => .ok true
  | .error err => .error err

/-! ## forward type inference -/

def setNode (nodes : Nodes) (k : String) (n : Node) : Nodes := insert k n nodes

/-- an element taken out of an ndarray is a numpy scalar, and numpy scalars are always native-endian (little-endian
here): the element of a big-endian array comes out byte-swapped, with the native dtype -/
def nativeScalar (dt : DType) (b : Bytes) : Val :=
  .npscalar { dt with big := false } (if dt.big then b.reverse else b)

/-- `v[1]`, `v[1:]`, `v[0]` on a shape value (ndarray or tuple) -/
def shapeIndex (v : Val) (i : Nat) : Except PyErr Val :=
  match v with
  | .none => .error .typeError
  | .arr dt [n] d =>
      if i < n then .ok (nativeScalar dt ((chunks dt.size d).getD i []))
      else .error .indexError
  | .tuple xs | .list xs => match xs[i]? with | some x => .ok x | Option.none => .error .indexError
  | _ => .error unmodelled

def shapeTail (v : Val) : Except PyErr Val :=
  match v with
  | .none => .error .typeError
  | .arr dt [n] d => .ok (.arr dt [n - 1] (d.drop dt.size))
  | .tuple xs => .ok (.tuple xs.tail)
  | .list xs => .ok (.list xs.tail)
  | _ => .error unmodelled

/-- `tuple(v[1:])` -/
def tupleOfTail (v : Val) : Except PyErr Val :=
  match v with
  | .none => .error .typeError
  | .arr dt [_] d => .ok (.tuple (((chunks dt.size d).drop 1).map fun b => nativeScalar dt b))
  | .tuple xs | .list xs => .ok (.tuple xs.tail)
  | _ => .error unmodelled

/-- `post_node.input_type["input"][1]` (Conv1d) / `tuple(post_node.input_type["input"][1:])` -/
def convInputShape (post2 : Node) : Except PyErr Val := do
  let it ← getItem post2.inputType "input"
  if post2.kind == "Conv1d" then shapeIndex it 1 else tupleOfTail it

/-- the Conv output type recomputed from its (just set) `input_shape` -/
def convOutputType (post3 : Node) (ishape : Val) : Except PyErr Val := do
  let w ← match post3.field? "weight" with | some w => pure w | Option.none => throw .attributeError
  let wsh ← getShape w
  if wsh.length < 1 then throw .indexError
  let kernel := Val.tuple ((wsh.drop 2).map fun k => Val.int (Int.ofNat k))
  let out ← calculateConvOutput ishape ((post3.field? "padding").getD .none)
    ((post3.field? "dilation").getD .none) kernel ((post3.field? "stride").getD .none)
  pure (typeDict "output" (shapeArray (Int.ofNat (wsh.getD 0 0) :: out)))

/-- Step 3 of the loop body for a Conv node whose output type is undefined. -/
def inferConv (post2 : Node) : Node × Option PyErr :=
  match convInputShape post2 with
  | .error e => (post2, some e)
  | .ok ishape =>
    match convOutputType (post2.setField "input_shape" ishape) ishape with
    | .ok t => ((post2.setField "input_shape" ishape).setOutputType t, Option.none)
    | .error e => (post2.setField "input_shape" ishape, some e)

/-- `np.array([c, *out])` of the pooling branch: a lone numpy integer keeps its own dtype; a
uint64 next to the int64 entries of `out` makes numpy promote the whole array to float64, which
the model declines -/
def poolArray (c : Int) (out : List Int) (cv : Val) : Except PyErr Val :=
  match out, cv with
  | [], .npscalar dt d => .ok (Val.arr dt [1] d)
  | _, .npscalar dt _ =>
      if dt.kind == .uint && dt.size == 8 then .error unmodelled else .ok (shapeArray (c :: out))
  | _, _ => .ok (shapeArray (c :: out))

/-- the pooled output type -/
def poolOutputType (pre post2 : Node) : Except PyErr Val := do
  let po ← getItem pre.outputType "output"
  let spatial ← shapeTail po
  let out ← calculateConvOutput spatial ((post2.field? "padding").getD .none) (.int 1)
    ((post2.field? "kernel_size").getD .none) ((post2.field? "stride").getD .none)
  let cv ← shapeIndex (← getItem post2.inputType "input") 0
  let c ← match Val.asInt? cv with | some c => pure c | Option.none => throw unmodelled
  -- `np.array([c, *out])`: a lone numpy integer keeps its own dtype; a uint64 next to the
  -- int64 entries of `out` makes numpy promote the whole array to float64 (declined)
  let arr ← poolArray c out cv
  pure (typeDict "output" arr)

/-- Step 3 for a pooling node. -/
def inferPool (pre post2 : Node) : Node × Option PyErr :=
  match poolOutputType pre post2 with
  | .ok t => (post2.setOutputType t, Option.none)
  | .error e => (post2, some e)

/-- the flattened output shape of a Flatten node, and whether the element count is preserved -/
def flattenShapes (post2 : Node) : Except PyErr (Val × Bool) := do
  let it ← getItem post2.inputType "input"
  let shp ← shapeInts it
  let s ← match (post2.field? "start_dim").bind Val.asInt? with | some s => pure s | Option.none => throw unmodelled
  let e ← match (post2.field? "end_dim").bind Val.asInt? with | some s => pure s | Option.none => throw unmodelled
  let out := calcFlattenOutput shp s e
  pure (flattenArray it out, Py.prod shp == Py.prod out)

/-- Step 3 for a Flatten node. -/
def inferFlatten (post2 : Node) : Node × Option PyErr :=
  match flattenShapes post2 with
  | .error e => (post2, some e)
  | .ok (out, countOk) =>
    -- the element-count assertion comes after the assignment
    if countOk then (post2.setOutputType (typeDict "output" out), Option.none)
    else (post2.setOutputType (typeDict "output" out), some .assertionError)

/-- `undef_post_input_type or type_mismatch` (both are evaluated before either is used, so an
error while comparing is raised even when the input type is undefined) -/
def needsInput (pre post : Node) : Except PyErr Bool := do
  let lo ← typeLen pre.outputType
  let li ← typeLen post.inputType
  let mismatch ← if lo != li then pure true else do
    let a ← singleValue pre.outputType
    let b ← singleValue post.inputType
    pure (!(← shapeEq a b))
  pure (typeUndefined post.inputType || mismatch)

/-- Step 1 of the loop body: the successor's input type (taken from the predecessor's output
type when undefined or different). -/
def inferInput (pre post : Node) : Except PyErr Node :=
  match needsInput pre post with
  | .error e => .error e
  | .ok false => .ok post
  | .ok true =>
    match renameKeys "output" "input" pre.outputType with
    | .error e => .error e
    | .ok t => .ok (post.setInputType t)

/-- Step 2: Output nodes mirror their input type. -/
def mirrorOutput (post1 : Node) : Except PyErr Node :=
  if post1.isKind "Output" then do
    pure (post1.setOutputType (← renameKeys "input" "output" post1.inputType))
  else pure post1

/-- Step 3: the successor's output type, if still undefined. -/
def inferOutput (pre post2 : Node) : Node × Option PyErr :=
  if !(typeUndefined post2.outputType) then (post2, Option.none)
  else if post2.isKind "Conv1d" || post2.isKind "Conv2d" then inferConv post2
  else if post2.isKind "SumPool2d" || post2.isKind "AvgPool2d" then inferPool pre post2
  else if post2.isKind "Flatten" then inferFlatten post2
  else (post2, Option.none)

/-- The body of the `while` loop, on the two node objects: the successor as the step leaves
it (mutations performed before an exception is raised persist) and the error, if raised. -/
def stepNode (pre post : Node) : Node × Option PyErr :=
  match inferInput pre post with
  | .error e => (post, some e)
  | .ok post1 =>
    match mirrorOutput post1 with
    | .error e => (post1, some e)
    | .ok post2 => inferOutput pre post2

/-- The body of the `while` loop for one popped edge, on the node table. -/
def processEdge (nodes : Nodes) (preKey postKey : String) : Nodes × Option PyErr :=
  match lookup preKey nodes, lookup postKey nodes with
  | Option.none, _ => (nodes, some .keyError)
  | _, Option.none => (nodes, some .keyError)
  | some pre, some post =>
    if pre.isKind "NIRGraph" || post.isKind "NIRGraph" then (nodes, some .notImplementedError)
    else
      let r := stepNode pre post
      (setNode nodes postKey r.1, r.2)

/-- `_forward_type_inference()`: final node table, final `seen`, error if raised. -/
def forwardInference (g : Node) : Nodes × List String × Option PyErr :=
  let inputs := (graphInputs g).map Prod.fst
  workList g.edges processEdge g.children (initialStack g.edges inputs) (initialSeen g.edges inputs)

/-- `infer_types()`: the graph afterwards (children mutated in place, graph-level
dictionaries refreshed) and the error, if one was raised. -/
def inferTypes (g : Node) : Node × Option PyErr :=
  if (graphInputs g).isEmpty then (g, some .notImplementedError)
  else
    let (nodes, _, err) := forwardInference g
    ((g.setChildren nodes).refreshIO, err)

end NirVerif.Model
