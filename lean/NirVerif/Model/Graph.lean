import NirVerif.Model.Node
import NirVerif.Model.WorkList
/-
  G layer: NIRGraph construction, from_list, the edge-wise type check and forward type
  inference (the *active*, second definitions in nir/ir/graph.py).
-/
namespace NirVerif.Model
open NirVerif NirVerif.Py

abbrev Nodes := List (String × Node)

def Node.isKind (n : Node) (k : String) : Bool := n.kind == k

/-- `NIRGraph.__post_init__`: graph-level dictionaries mirror the Input / Output children. -/
def graphInputType (children : Nodes) : Val :=
  let ins := children.filter (fun kv => kv.2.isKind "Input")
  if ins.isEmpty then .none else .dict (ins.map fun kv => (kv.1, kv.2.inputType))

def graphOutputType (children : Nodes) : Val :=
  .dict ((children.filter (fun kv => kv.2.isKind "Output")).map fun kv => (kv.1, kv.2.outputType))

def mkGraph (children : Nodes) (edges : List Edge) (metadata : Val := .dict []) : Node :=
  Node.mk "NIRGraph" [] (graphInputType children) (graphOutputType children) metadata children edges

/-- refresh of the graph-level dictionaries -/
def Node.refreshIO (g : Node) : Node :=
  g.setTypes (graphInputType g.children) (graphOutputType g.children)

def graphInputs (g : Node) : Nodes := g.children.filter (fun kv => kv.2.isKind "Input")
def graphOutputs (g : Node) : Nodes := g.children.filter (fun kv => kv.2.isKind "Output")

/-! ## from_list -/

def uniqueName (basename : String) (id : Nat) : String :=
  if id > 0 then basename ++ "_" ++ toString id else basename

/-- names handed out by the per-class counter, left to right -/
def assignNames : List Node → List (String × Nat) → List (String × Node)
  | [], _ => []
  | n :: rest, counts =>
    let base := n.kind.toLower
    let id := (lookup base counts).getD 0
    (uniqueName base id, n) :: assignNames rest (insert base (id + 1) counts)

def insertAll {α : Type} (d : List (String × α)) : List (String × α) → List (String × α)
  | [] => d
  | (k, v) :: rest => insertAll (insert k v d) rest

/-- `NIRGraph.from_list(*nodes)` (the three calling conventions differ only in how the
sequence reaches this function). -/
def fromList (nodes : List Node) : Except PyErr Node := do
  match nodes with
  | [] => throw .indexError
  | first :: _ =>
    let last := nodes.getLast?.getD first
    let d0 : Nodes ← if first.isKind "Input" then pure [] else do
      let inp ← construct "Input" [("input_type", first.inputType)]
      pure [("input", inp)]
    let d1 := insertAll d0 (assignNames nodes [])
    let d2 : Nodes ← if last.isKind "Output" then pure d1 else do
      let out ← construct "Output" [("output_type", last.outputType)]
      pure (insert "output" out d1)
    let names := d2.map Prod.fst
    pure (mkGraph d2 (names.zip names.tail))

/-! ## type values -/

/-- `t is None or any(v is None for v in t.values())` -/
def typeUndefined (t : Val) : Bool :=
  match t with
  | .none => true
  | .dict kvs => kvs.any (fun kv => match kv.2 with | .none => true | _ => false)
  | _ => false

def typeLen (t : Val) : Except PyErr Nat :=
  match t with
  | .dict kvs => .ok kvs.length
  | _ => .error .typeError

/-- the (shape, integer content) of a shape value, container-insensitively; `none` for None -/
def shapeContent (v : Val) : Except PyErr (Option (List Int)) :=
  match v with
  | .none => .ok Option.none
  | .arr dt [n] d =>
      if dt.isInteger then .ok (some (decodeInts dt d))
      else if n == 0 then .ok (some [])
      else .error unmodelled
  | .tuple xs | .list xs =>
      match xs.mapM Val.asInt? with | some is => .ok (some is) | Option.none => .error unmodelled
  | _ => .error unmodelled

/-- `np.array_equal` on two shape values -/
def shapeEq (a b : Val) : Except PyErr Bool := do
  let x ← shapeContent a
  let y ← shapeContent b
  pure (x == y)

/-- `{k.replace(a, b): v for k, v in d.items()}` -/
def renameKeys (a b : String) (d : Val) : Except PyErr Val :=
  match d with
  | .dict kvs => .ok (.dict (insertAll [] (kvs.map fun kv => (kv.1.replace a b, kv.2))))
  | _ => .error .attributeError

def singleValue (t : Val) : Except PyErr Val :=
  match t with
  | .dict [(_, v)] => .ok v
  | .dict _ => .error unmodelled
  | _ => .error .typeError

/-! ## the type check -/

def checkEdge (nodes : Nodes) (e : Edge) : Except PyErr Unit :=
  match lookup e.1 nodes, lookup e.2 nodes with
  | Option.none, _ => .error .keyError
  | _, Option.none => .error .keyError
  | some pre, some post =>
    if pre.isKind "NIRGraph" || post.isKind "NIRGraph" then .error unmodelled
    else if typeUndefined pre.outputType then .error .valueError
    else if typeUndefined post.inputType then .error .valueError
    else match typeLen pre.outputType, typeLen post.inputType with
      | .ok lo, .ok li =>
        if lo != li then .error .valueError
        else if lo == 1 then
          match singleValue post.inputType, singleValue pre.outputType with
          | .ok a, .ok b =>
            match shapeEq a b with
            | .ok true => .ok ()
            | .ok false => .error .valueError
            | .error err => .error err
          | .error err, _ => .error err
          | _, .error err => .error err
        else .error .notImplementedError
      | .error err, _ => .error err
      | _, .error err => .error err

/-- `for edge in self.edges: …` — stops at the first error -/
def forEachEdge (f : Edge → Except PyErr Unit) : List Edge → Except PyErr Unit
  | [] => .ok ()
  | e :: es => match f e with
    | .ok () => forEachEdge f es
    | .error err => .error err

/-- `_check_types()`: `True`, or the first error in edge order. -/
def checkTypes (g : Node) : Except PyErr Bool :=
  match forEachEdge (checkEdge g.children) g.edges with
  | .ok () => .ok true
  | .error err => .error err

/-! ## forward type inference -/

def setNode (nodes : Nodes) (k : String) (n : Node) : Nodes := insert k n nodes

/-- `v[1]`, `v[1:]`, `v[0]` on a shape value (ndarray or tuple) -/
def shapeIndex (v : Val) (i : Nat) : Except PyErr Val :=
  match v with
  | .none => .error .typeError
  | .arr dt [n] d =>
      if i < n then .ok (.npscalar dt ((chunks dt.size d).getD i []))
      else .error .indexError
  | .tuple xs | .list xs => match xs[i]? with | some x => .ok x | Option.none => .error .indexError
  | _ => .error unmodelled

def shapeTail (v : Val) : Except PyErr Val :=
  match v with
  | .none => .error .typeError
  | .arr dt [n] d => .ok (.arr dt [n - 1] (d.drop dt.size))
  | .tuple xs => .ok (.tuple xs.tail)
  | .list xs => .ok (.list xs.tail)
  | _ => .error unmodelled

/-- `tuple(v[1:])` -/
def tupleOfTail (v : Val) : Except PyErr Val :=
  match v with
  | .none => .error .typeError
  | .arr dt [_] d => .ok (.tuple (((chunks dt.size d).drop 1).map fun b => Val.npscalar dt b))
  | .tuple xs | .list xs => .ok (.tuple xs.tail)
  | _ => .error unmodelled

/-- The body of the `while` loop for one popped edge.  Mutations performed before an
exception is raised persist, so the node table is returned in both cases. -/
def processEdge (nodes : Nodes) (preKey postKey : String) : Nodes × Option PyErr :=
  match lookup preKey nodes, lookup postKey nodes with
  | Option.none, _ => (nodes, some .keyError)
  | _, Option.none => (nodes, some .keyError)
  | some pre, some post =>
    if pre.isKind "NIRGraph" || post.isKind "NIRGraph" then (nodes, some .notImplementedError) else
    -- 1. input type of the successor
    let undefIn := typeUndefined post.inputType
    let step1 : Except PyErr Node := do
      let lo ← typeLen pre.outputType
      let li ← typeLen post.inputType
      let mismatch ← if lo != li then pure true else do
        let a ← singleValue pre.outputType
        let b ← singleValue post.inputType
        pure (!(← shapeEq a b))
      if undefIn || mismatch then
        pure (post.setInputType (← renameKeys "output" "input" pre.outputType))
      else pure post
    match step1 with
    | .error e => (nodes, some e)
    | .ok post1 =>
      -- 2. Output nodes mirror their input type
      let step2 : Except PyErr Node :=
        if post1.isKind "Output" then do
          pure (post1.setOutputType (← renameKeys "input" "output" post1.inputType))
        else pure post1
      match step2 with
      | .error e => (setNode nodes postKey post1, some e)
      | .ok post2 =>
        -- 3. output type of the successor
        if !(typeUndefined post2.outputType) then (setNode nodes postKey post2, Option.none) else
        match post2.kind with
        | "Conv1d" | "Conv2d" =>
          let r : Except PyErr Node × Node := 
            match (do
              let it ← getItem post2.inputType "input"
              if post2.kind == "Conv1d" then shapeIndex it 1 else tupleOfTail it) with
            | .error e => (.error e, post2)
            | .ok ishape =>
              let post3 := post2.setField "input_shape" ishape
              ((do
                let w ← match post3.field? "weight" with | some w => pure w | Option.none => throw .attributeError
                let wsh ← getShape w
                if wsh.length < 1 then throw .indexError
                let kernel := Val.tuple ((wsh.drop 2).map fun k => Val.int (Int.ofNat k))
                let out ← calculateConvOutput ishape ((post3.field? "padding").getD .none)
                  ((post3.field? "dilation").getD .none) kernel ((post3.field? "stride").getD .none)
                pure (post3.setOutputType (typeDict "output" (shapeArray (Int.ofNat (wsh.getD 0 0) :: out)))))
               , post3)
          match r with
          | (.ok post4, _) => (setNode nodes postKey post4, Option.none)
          | (.error e, partialNode) => (setNode nodes postKey partialNode, some e)
        | "SumPool2d" | "AvgPool2d" =>
          let r : Except PyErr Node := do
            let po ← getItem pre.outputType "output"
            let spatial ← shapeTail po
            let out ← calculateConvOutput spatial ((post2.field? "padding").getD .none) (.int 1)
              ((post2.field? "kernel_size").getD .none) ((post2.field? "stride").getD .none)
            let cv ← shapeIndex (← getItem post2.inputType "input") 0
            let c ← match Val.asInt? cv with | some c => pure c | Option.none => throw unmodelled
            -- `np.array([c, *out])`: a lone numpy integer keeps its own dtype
            let arr := match out, cv with
              | [], .npscalar dt d => Val.arr dt [1] d
              | _, _ => shapeArray (c :: out)
            pure (post2.setOutputType (typeDict "output" arr))
          match r with
          | .ok post4 => (setNode nodes postKey post4, Option.none)
          | .error e => (setNode nodes postKey post2, some e)
        | "Flatten" =>
          let r : Except PyErr Node := do
            let it ← getItem post2.inputType "input"
            let shp ← shapeInts it
            let s ← match (post2.field? "start_dim").bind Val.asInt? with | some s => pure s | Option.none => throw unmodelled
            let e ← match (post2.field? "end_dim").bind Val.asInt? with | some s => pure s | Option.none => throw unmodelled
            let out := calcFlattenOutput shp s e
            pure (post2.setOutputType (typeDict "output" (shapeArray out)))
          match r with
          | .ok post4 =>
            -- the element-count assertion comes after the assignment
            let ok := (do
              let a ← shapeInts (← getItem post4.inputType "input")
              let b ← shapeInts (← getItem post4.outputType "output")
              pure (Py.prod a == Py.prod b) : Except PyErr Bool)
            match ok with
            | .ok true => (setNode nodes postKey post4, Option.none)
            | .ok false => (setNode nodes postKey post4, some .assertionError)
            | .error e => (setNode nodes postKey post4, some e)
          | .error e => (setNode nodes postKey post2, some e)
        | _ => (setNode nodes postKey post2, Option.none)

/-- `_forward_type_inference()`: final node table, final `seen`, error if raised. -/
def forwardInference (g : Node) : Nodes × List String × Option PyErr :=
  let inputs := (graphInputs g).map Prod.fst
  workList g.edges processEdge g.children (initialStack g.edges inputs) (initialSeen g.edges inputs)

/-- `infer_types()`: the graph afterwards (children mutated in place, graph-level
dictionaries refreshed) and the error, if one was raised. -/
def inferTypes (g : Node) : Node × Option PyErr :=
  if (graphInputs g).isEmpty then (g, some .notImplementedError)
  else
    let (nodes, _, err) := forwardInference g
    ((g.setChildren nodes).refreshIO, err)

end NirVerif.Model
