import NirVerif.Model.Graph
import NirVerif.Generated.Whitelist
/-
  D layer: `to_dict` / `from_dict` / `dict2NIRNode` / `str2NIRNode`.
  Dictionaries are `Val.dict` (insertion-ordered association lists).
-/
namespace NirVerif.Model
open NirVerif NirVerif.Py

/-- `d[key]` of a type dictionary as used by the `to_dict` overrides (`self.input_type["input"]`) -/
def typeEntry (t : Val) (key : String) : Except PyErr Val := getItem t key

/-- edges as `to_dict` (i.e. `asdict`) leaves them: a list of tuples of str -/
def edgesVal (edges : List Edge) : Val :=
  .list (edges.map fun e => .tuple [.str e.1, .str e.2])

/-- `node.to_dict()`.  `asdict` deep-copies every field (values are immutable here, so a copy
is the value itself); the derived types are dropped, `type` is added, and Input / Output /
Flatten / NIRGraph add or replace their class-specific entries. -/
def toDict : Node → Except PyErr Val
  | Node.mk kind fields it ot md children edges =>
    match kind with
    | "NIRGraph" => do
        let kids ← toDictChildren children
        pure (.dict [("nodes", .dict kids), ("edges", edgesVal edges), ("metadata", md), ("type", .str kind)])
    | "Input" => do
        let s ← typeEntry it "input"
        pure (.dict (fields ++ [("metadata", md), ("type", .str kind), ("shape", s)]))
    | "Output" => do
        let s ← typeEntry ot "output"
        pure (.dict (fields ++ [("metadata", md), ("type", .str kind), ("shape", s)]))
    | "Flatten" => do
        let s ← typeEntry it "input"
        pure (.dict (fields ++ [("metadata", md), ("type", .str kind), ("input_type", s)]))
    | _ => pure (.dict (fields ++ [("metadata", md), ("type", .str kind)]))
where
  toDictChildren : List (String × Node) → Except PyErr (List (String × Val))
    | [] => pure []
    | (k, n) :: rest => do
        let d ← toDict n
        let ds ← toDictChildren rest
        pure ((k, d) :: ds)

/-- `ensure_str` -/
def ensureStr : Val → Except PyErr String
  | .str s => .ok s
  | .bytes b => match String.fromUTF8? (ByteArray.mk b.toArray) with
      | some s => .ok s
      | Option.none => .error .valueError      -- UnicodeDecodeError is a ValueError
  | _ => .error .typeError

/-- `[(ensure_str(a), ensure_str(b)) for a, b in node["edges"]]` -/
def decodeEdges : Val → Except PyErr (List Edge)
  | .list rows | .tuple rows =>
      rows.mapM fun r => match r with
        | .tuple [a, b] | .list [a, b] => do pure ((← ensureStr a), (← ensureStr b))
        | .tuple _ | .list _ => .error .valueError      -- not enough / too many values to unpack
        | _ => .error .typeError
  | .arr _ [0] _ => .ok []                              -- the empty float64 dataset
  | .arr _ _ _ => .error unmodelled
  | _ => .error .typeError

/-- `str2NIRNode`: the whitelist guard in front of the `globals()` lookup -/
def str2NIRNode (t : Val) : Except PyErr String :=
  match t with
  | .str s => if Generated.whitelist.contains s then .ok s else .error .assertionError
  | .bytes _ | .int _ | .float _ | .bool _ | .none | .tuple _ | .npscalar _ _ => .error .assertionError
  | _ => .error .typeError                               -- unhashable / array operand of `in`

/-- fuel-indexed `dict2NIRNode` (the dictionary is finite; fuel = its nesting depth bound) -/
def fromDictFuel : Nat → Val → Except PyErr Node
  | 0, _ => .error unmodelled
  | fuel + 1, d =>
    match d with
    | .dict kvs => do
      let t ← match lookup "type" kvs with | some t => pure t | Option.none => throw .keyError
      let kind ← str2NIRNode t
      -- cls.from_dict(node): class-specific rewriting of the dictionary, then `cls(**node)`
      let kvs ← match kind with
        | "Input" => do
            let s ← match lookup "shape" kvs with | some s => pure s | Option.none => throw .keyError
            pure (erase "shape" (insert "input_type" (typeDict "input" s) kvs))
        | "Output" => do
            let s ← match lookup "shape" kvs with | some s => pure s | Option.none => throw .keyError
            pure (erase "shape" (insert "output_type" (typeDict "output" s) kvs))
        | "Flatten" =>
            pure (insert "input_type" (typeDict "input" ((lookup "input_type" kvs).getD .none)) kvs)
        | _ => pure kvs
      if kind == "NIRGraph" then
        let nodesV ← match lookup "nodes" kvs with | some v => pure v | Option.none => throw .keyError
        let childDicts ← match nodesV with
          | .dict c => pure c
          | _ => throw .attributeError
        let children ← childDicts.mapM fun (k, v) => do pure (k, ← fromDictFuel fuel v)
        let children := insertAll [] children
        let edgesV ← match lookup "edges" kvs with | some v => pure v | Option.none => throw .keyError
        let edges ← decodeEdges edgesV
        -- base from_dict: type tag checked, removed, remaining keys bound as keyword arguments
        let kwargs := erase "type" kvs
        let spec := (lookup "NIRGraph" Generated.classFields).getD []
        let bound ← bindKwargs spec (insert "edges" .none (insert "nodes" .none kwargs))
        let md := (lookup "metadata" bound).getD (.dict [])
        pure (mkGraph children edges md)
      else
        construct kind (erase "type" kvs)
    | _ => .error .typeError

/-- nesting depth of a value (fuel for `fromDictFuel`) -/
def Val.depth : Val → Nat
  | .dict kvs => 1 + depthList kvs
  | _ => 0
where
  depthList : List (String × Val) → Nat
    | [] => 0
    | (_, v) :: rest => max (Val.depth v) (depthList rest)

/-- `nir.dict2NIRNode(d)` -/
def fromDict (d : Val) : Except PyErr Node := fromDictFuel (Val.depth d + 1) d

end NirVerif.Model
