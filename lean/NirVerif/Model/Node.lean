import NirVerif.Model.Shapes
import NirVerif.Generated.Fields
/-
  N layer: one constructor function per dataclass, reproducing keyword binding against the
  generated field table and the class's `__post_init__`.
-/
namespace NirVerif.Model
open NirVerif NirVerif.Py

/-- A NIR node object.  `fields` holds the *current* values of the dataclass fields other
than `input_type`, `output_type`, `metadata` (and, for NIRGraph, `nodes`/`edges`, which are
`children`/`edges`), in dataclass order.  Type dictionaries are ordinary Python values:
`dict [("input", arr …)]`, `dict [("input", none)]`, or `none`. -/
inductive Node where
  | mk (kind : String) (fields : List (String × Val)) (inputType outputType metadata : Val)
       (children : List (String × Node)) (edges : List (String × String))
  deriving Repr, Inhabited

namespace Node
def kind : Node → String | mk k _ _ _ _ _ _ => k
def fields : Node → List (String × Val) | mk _ f _ _ _ _ _ => f
def inputType : Node → Val | mk _ _ i _ _ _ _ => i
def outputType : Node → Val | mk _ _ _ o _ _ _ => o
def metadata : Node → Val | mk _ _ _ _ m _ _ => m
def children : Node → List (String × Node) | mk _ _ _ _ _ c _ => c
def edges : Node → List (String × String) | mk _ _ _ _ _ _ e => e
def field? (n : Node) (k : String) : Option Val := lookup k n.fields
def setTypes (n : Node) (i o : Val) : Node :=
  match n with | mk k f _ _ m c e => mk k f i o m c e
def setInputType (n : Node) (i : Val) : Node := n.setTypes i n.outputType
def setOutputType (n : Node) (o : Val) : Node := n.setTypes n.inputType o
def setField (n : Node) (key : String) (v : Val) : Node :=
  match n with | mk k f i o m c e => mk k (insert key v f) i o m c e
def setChildren (n : Node) (c : List (String × Node)) : Node :=
  match n with | mk k f i o m _ e => mk k f i o m c e
end Node

/-! ## keyword binding -/

/-- one field of `cls(**kwargs)`: the given value, else the default, else TypeError -/
def bindOne (kwargs : List (String × Val)) (p : String × Option Val) : Except PyErr (String × Val) :=
  match lookup p.1 kwargs, p.2 with
  | some v, _ => .ok (p.1, v)
  | Option.none, some d => .ok (p.1, d)
  | Option.none, Option.none => .error .typeError

def bindAll (kwargs : List (String × Val)) : List (String × Option Val) → Except PyErr (List (String × Val))
  | [] => .ok []
  | p :: rest =>
    match bindOne kwargs p with
    | .error e => .error e
    | .ok x =>
      match bindAll kwargs rest with
      | .error e => .error e
      | .ok xs => .ok (x :: xs)

/-- `cls(**kwargs)`: every key must be a field, every mandatory field must be given;
defaults are filled in.  Result is in dataclass field order. -/
def bindKwargs (spec : List (String × Option Val)) (kwargs : List (String × Val)) :
    Except PyErr (List (String × Val)) :=
  if kwargs.any (fun kv => !(hasKey kv.1 spec)) then .error .typeError
  else bindAll kwargs spec

/-! ## helpers for `__post_init__` bodies -/

/-- `x.shape`; `none` is AttributeError (Python scalars, None, sequences). -/
def Val.shape? : Val → Option (List Nat)
  | .arr _ sh _ => some sh
  | .npscalar _ _ => some []
  | _ => Option.none

def getShape (v : Val) : Except PyErr (List Nat) :=
  match Val.shape? v with | some s => .ok s | Option.none => .error .attributeError

/-- `np.array(t, dtype=int)` for a tuple of Python ints taken from `.shape`. -/
def shapeVal (sh : List Nat) : Val := Val.ofInts (sh.map Int.ofNat)

def typeDict (key : String) (v : Val) : Val := .dict [(key, v)]

def elementwiseTypes (sh : List Nat) : Val × Val :=
  (typeDict "input" (shapeVal sh), typeDict "output" (shapeVal sh))

/-- chained `a.shape == b.shape == …` assertion -/
def assertSameShape (vs : List Val) : Except PyErr (List Nat) := do
  let shapes ← vs.mapM getShape
  match shapes with
  | [] => throw .other
  | s :: rest => if rest.all (· == s) then pure s else throw .assertionError

/-- numpy broadcasting of two shapes (aligned at the trailing end). -/
def broadcastShapes (a b : List Nat) : Option (List Nat) :=
  let rec go : List Nat → List Nat → Option (List Nat)
    | [], ys => some ys
    | xs, [] => some xs
    | x :: xs, y :: ys =>
      if x == y then (go xs ys).map (x :: ·)
      else if x == 1 then (go xs ys).map (y :: ·)
      else if y == 1 then (go xs ys).map (x :: ·)
      else Option.none
  (go a.reverse b.reverse).map List.reverse

/-- C-order broadcast of `data` (items of `w` bytes, shape `src`) to shape `dst`
(`src` must be broadcastable to `dst`, already left-padded to the same rank). -/
def broadcastData (w : Nat) : List Nat → List Nat → Bytes → Bytes
  | s :: src, d :: dst, data =>
      let inner := natProd src * w
      let rows := if inner = 0 then List.replicate s [] else chunks inner data
      let rows' := rows.map (broadcastData w src dst)
      if s == d then rows'.flatten else (List.replicate d (rows'.headD [])).flatten
  | _, _, data => data

def onesItem (dt : DType) : Option Bytes :=
  match dt.kind, dt.size, dt.big with
  | .float, 8, false => some [0, 0, 0, 0, 0, 0, 0xf0, 0x3f]
  | .float, 4, false => some [0, 0, 0x80, 0x3f]
  | .float, 2, false => some [0, 0x3c]
  | _, _, _ => Option.none

/-- `np.ones_like(v_threshold) * w_in`, on the part of numpy's promotion table that the
correspondence generators exercise; everything else is `unmodelled`. -/
def materialiseWInShape (dt : DType) (sh : List Nat) (w : Val) : Except PyErr Val :=
  let wrap (outShape : List Nat) (data : Bytes) : Val :=
    if outShape.isEmpty then .npscalar dt data else .arr dt outShape data
  match w with
  | .float bits =>
    if dt == DType.float64 then
      .ok (wrap sh (List.replicate (natProd sh) bits).flatten)
    else if bits == [0, 0, 0, 0, 0, 0, 0xf0, 0x3f] then
      match onesItem dt with
      | some one => .ok (wrap sh (List.replicate (natProd sh) one).flatten)
      | Option.none => .error unmodelled
    else .error unmodelled
  | .arr wdt wsh wdata =>
    if wdt == dt && dt.kind == .float then
      match broadcastShapes sh wsh with
      | some out =>
        let pad := List.replicate (out.length - wsh.length) 1 ++ wsh
        .ok (wrap out (broadcastData dt.size pad out wdata))
      | Option.none => .error .valueError
    else .error unmodelled
  | .npscalar wdt wdata =>
    if wdt == dt && dt.kind == .float then
      .ok (wrap sh (List.replicate (natProd sh) wdata).flatten)
    else .error unmodelled
  | _ => .error unmodelled

def materialiseWIn (vthr w : Val) : Except PyErr Val :=
  match vthr with
  | .arr dt sh _ => materialiseWInShape dt sh w
  | .npscalar dt _ => materialiseWInShape dt [] w      -- a rank-0 parameter read back from a file
  | _ => .error unmodelled

/-- `parse_shape_argument(x, key)`; returns the dict (or `none` when the function falls
off its end). -/
def parseShapeArgument (x : Val) (key : String) : Except PyErr Val :=
  match x with
  | .arr _ _ _ => .ok (typeDict key x)
  | .tuple xs | .list xs =>
      match xs.mapM Val.asInt? with
      | some is =>
          -- np.array of Python ints / same-width numpy ints
          if xs.all (fun v => match v with | .int _ => true | _ => false) then
            .ok (typeDict key (shapeArray is))
          else .error unmodelled
      | Option.none => .error unmodelled
  | .str _ | .bytes _ => .error unmodelled
  | .dict _ => .ok x
  | .none => .ok (typeDict key .none)
  | _ => .ok .none

/-- `d[key]` on a Python value -/
def getItem (d : Val) (key : String) : Except PyErr Val :=
  match d with
  | .dict kvs => match lookup key kvs with | some v => .ok v | Option.none => .error .keyError
  | _ => .error .typeError

/-- integers of a shape value as used for `np.prod`, slicing and `[c, *shape]` displays -/
def shapeInts (v : Val) : Except PyErr (List Int) :=
  match v with
  | .arr dt [_] d => if dt.isInteger then .ok (decodeInts dt d) else .error unmodelled
  | .arr _ [] _ => .error .typeError
  | .tuple xs | .list xs =>
      match xs.mapM Val.asInt? with | some is => .ok is | Option.none => .error unmodelled
  | _ => .error unmodelled

def isStr : Val → Bool | .str _ => true | _ => false
def isPyInt : Val → Bool | .int _ | .bool _ => true | _ => false

def convPaddingCheck (padding : Val) : Except PyErr Unit :=
  match padding with
  | .str s => if s == "same" || s == "valid" then .ok () else .error .valueError
  | .bytes _ => .error .valueError
  | _ => .ok ()

/-- a numpy uint64 scalar (mixed with Python / int64 integers numpy promotes to float64) -/
def isU64Scalar : Val → Bool
  | .npscalar dt _ => dt.kind == .uint && dt.size == 8
  | _ => false

def hasU64Entry : Val → Bool
  | .tuple xs | .list xs => xs.any isU64Scalar
  | .arr dt _ _ => dt.kind == .uint && dt.size == 8
  | _ => false

/-- Conv2d: `if isinstance(x, int): x = (x, x)` -/
def pairInt (v : Val) : Val := if isPyInt v then .tuple [v, v] else v

/-- `__post_init__`, per class, on the bound fields. Returns the finished node. -/
def postInit (kind : String) (f : List (String × Val)) : Except PyErr Node := do
  let get (k : String) : Except PyErr Val :=
    match lookup k f with | some v => pure v | Option.none => throw .attributeError
  let md := (lookup "metadata" f).getD (.dict [])
  let plain := f.filter fun kv => kv.1 != "input_type" && kv.1 != "output_type" && kv.1 != "metadata"
  let leaf (fields : List (String × Val)) (io : Val × Val) : Node :=
    Node.mk kind fields io.1 io.2 md [] []
  match kind with
  | "Affine" | "Linear" =>
      let sh ← getShape (← get "weight")
      if sh.length < 2 then throw .assertionError
      let batch := sh.take (sh.length - 2)
      let m := sh.getD (sh.length - 2) 0
      let n := sh.getD (sh.length - 1) 0
      pure (leaf plain (typeDict "input" (shapeVal (batch ++ [n])), typeDict "output" (shapeVal (batch ++ [m]))))
  | "Scale" => pure (leaf plain (elementwiseTypes (← getShape (← get "scale"))))
  | "Threshold" => pure (leaf plain (elementwiseTypes (← getShape (← get "threshold"))))
  | "Delay" => pure (leaf plain (elementwiseTypes (← getShape (← get "delay"))))
  | "I" => pure (leaf plain (elementwiseTypes (← getShape (← get "r"))))
  | "IF" =>
      let sh ← assertSameShape [← get "r", ← get "v_threshold"]
      pure (leaf plain (elementwiseTypes sh))
  | "LI" =>
      let sh ← assertSameShape [← get "tau", ← get "r", ← get "v_leak"]
      pure (leaf plain (elementwiseTypes sh))
  | "LIF" =>
      let sh ← assertSameShape [← get "tau", ← get "r", ← get "v_leak", ← get "v_threshold"]
      pure (leaf plain (elementwiseTypes sh))
  | "CubaLIF" =>
      let sh ← assertSameShape [← get "tau_syn", ← get "tau_mem", ← get "r", ← get "v_leak", ← get "v_threshold"]
      let w ← materialiseWIn (← get "v_threshold") (← get "w_in")
      let wsh ← getShape w
      if wsh != sh then throw .assertionError
      pure (leaf (insert "w_in" w plain) (elementwiseTypes sh))
  | "SumPool2d" | "AvgPool2d" =>
      pure (leaf plain (typeDict "input" .none, typeDict "output" .none))
  | "Conv1d" =>
      let padding ← get "padding"
      convPaddingCheck padding
      let inputShape ← get "input_shape"
      match inputShape with
      | .none => pure (leaf plain (typeDict "input" .none, typeDict "output" .none))
      | _ =>
        let wsh ← getShape (← get "weight")
        if wsh.length < 2 then throw .indexError
        -- np.array([C_in, input_shape]) needs a scalar input_shape; a uint64 scalar next to the Python int C_in makes
        -- numpy promote the array to float64 (declined)
        if isU64Scalar inputShape then throw unmodelled
        let n ← match Val.asInt? inputShape with
          | some n => pure n
          | Option.none => throw unmodelled
        if wsh.length < 3 then throw .indexError
        let out ← calculateConvOutput inputShape padding (← get "dilation") (.int (wsh.getD 2 0)) (← get "stride")
        pure (leaf plain (typeDict "input" (shapeArray [wsh.getD 1 0, n]),
                          typeDict "output" (shapeArray (Int.ofNat (wsh.getD 0 0) :: out))))
  | "Conv2d" =>
      let padding ← get "padding"
      convPaddingCheck padding
      let padding := pairInt padding
      let stride := pairInt (← get "stride")
      let dilation := pairInt (← get "dilation")
      let plain := insert "dilation" dilation (insert "stride" stride (insert "padding" padding plain))
      let inputShape ← get "input_shape"
      match inputShape with
      | .none => pure (leaf plain (typeDict "input" .none, typeDict "output" .none))
      | _ =>
        let wsh ← getShape (← get "weight")
        if wsh.length < 2 then throw .indexError
        let spatial ← match Val.asInt? inputShape with
          | some _ => throw .typeError      -- `*input_shape` on an int
          | Option.none => shapeInts inputShape
        if hasU64Entry inputShape then throw unmodelled   -- [C_in, *uint64s] is promoted to float64
        if wsh.length < 3 then throw .indexError
        let kernel := Val.tuple ((wsh.drop 2).map fun k => Val.int (Int.ofNat k))
        let out ← calculateConvOutput inputShape padding dilation kernel stride
        pure (leaf plain (typeDict "input" (shapeArray (Int.ofNat (wsh.getD 1 0) :: spatial)),
                          typeDict "output" (shapeArray (Int.ofNat (wsh.getD 0 0) :: out))))
  | "Flatten" =>
      let it ← parseShapeArgument ((lookup "input_type" f).getD .none) "input"
      let inner ← getItem it "input"
      match inner with
      | .none => pure (leaf plain (typeDict "input" .none, typeDict "output" .none))
      | _ =>
        let shp ← shapeInts inner
        let s ← match Val.asInt? (← get "start_dim") with | some s => pure s | Option.none => throw unmodelled
        let e ← match Val.asInt? (← get "end_dim") with | some s => pure s | Option.none => throw unmodelled
        let out := calcFlattenOutput shp s e
        if Py.prod shp != Py.prod out then throw .valueError
        pure (leaf plain (it, typeDict "output" (flattenArray inner out)))
  | "Input" =>
      let it ← parseShapeArgument (← get "input_type") "input"
      let inner ← getItem it "input"
      pure (leaf [] (it, typeDict "output" inner))
  | "Output" =>
      let ot ← parseShapeArgument (← get "output_type") "output"
      let inner ← getItem ot "output"
      pure (leaf [] (typeDict "input" inner, ot))
  | _ => throw unmodelled

/-- `Cls(**kwargs)` for a leaf primitive. -/
def construct (kind : String) (kwargs : List (String × Val)) : Except PyErr Node := do
  match lookup kind Generated.classFields with
  | Option.none => throw unmodelled
  | some spec =>
    let bound ← bindKwargs spec kwargs
    postInit kind bound

end NirVerif.Model
