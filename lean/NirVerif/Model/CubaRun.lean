/-
  Hand-written model of `run_cuba_reference_model` (paper/03_rnn/extras/debug_CubaLIF/nir_reference_impl.py) for one
  neuron: the state starts at zero (`np.zeros_like(v_threshold)` in `CubaLIFImplementation.__init__`) and `forward`
  (the *generated* kernel, T7) is applied once per time step; the three result rows are what the loop stores in
  `spikes[t]`, `voltages[t]`, `currents[t]`.  Generic in the number type (run on `Float` by the driver, reasoned about
  over ℝ).  Core Lean only.
-/
namespace NirVerif.Model.CubaRun

variable {α : Type}

/-- `fwd I v x = (z, v', I')` -/
def go (fwd : α → α → α → α × α × α) (I v : α) : List α → List (α × α × α)
  | [] => []
  | x :: xs =>
    let r := fwd I v x
    r :: go fwd r.2.2 r.2.1 xs

def run (fwd : α → α → α → α × α × α) (zero : α) (xs : List α) : List (α × α × α) := go fwd zero zero xs

end NirVerif.Model.CubaRun
