/-
  The LIFO work-list of `_forward_type_inference`, generic in the per-edge action.
  Lean accepts the definition only with its termination proof, so termination of the
  modelled algorithm on every multigraph is itself kernel-checked.
-/
namespace NirVerif.Model

abbrev Edge := String × String

theorem countP_le_of_imp {α} (p q : α → Bool) (l : List α) (h : ∀ x, p x = true → q x = true) :
    l.countP p ≤ l.countP q := by
  induction l with
  | nil => simp
  | cons x xs ih =>
    rw [List.countP_cons, List.countP_cons]
    by_cases hp : p x = true
    · simp [hp, h x hp]; exact ih
    · simp [hp]; split <;> omega

theorem countP_lt_of_imp {α} (p q : α → Bool) (l : List α) (h : ∀ x, p x = true → q x = true)
    (a : α) (ha : a ∈ l) (hpa : p a = false) (hqa : q a = true) :
    l.countP p < l.countP q := by
  induction l with
  | nil => cases ha
  | cons x xs ih =>
    rw [List.countP_cons, List.countP_cons]
    rcases List.mem_cons.mp ha with rfl | hmem
    · have := countP_le_of_imp p q xs h
      simp [hpa, hqa]; omega
    · have := ih hmem
      by_cases hp : p x = true
      · simp [hp, h x hp]; exact this
      · simp [hp]; split <;> omega

/-- The edges Python appends after processing `post`:
`[e for e in edges if e[0] == post and e[1] not in seen]` (with `post` already in `seen`). -/
def pushed (edges : List Edge) (post : String) (seen : List String) : List {e : Edge // e ∈ edges} :=
  edges.attach.filter (fun e => e.1.1 == post && !(seen.contains e.1.2))

/-- `while ready: (pre, post) = ready.pop(); step; seen.add(post); ready += …`.
`stack` is `ready` reversed (its head is the element `pop()` returns).  A failing step
stops the loop; the state it leaves behind is returned together with the error.
Returns the final state, the final `seen` set and the error, if any. -/
def workList {σ ε : Type} (edges : List Edge) (step : σ → String → String → σ × Option ε)
    (st : σ) (stack : List {e : Edge // e ∈ edges}) (seen : List String) : σ × List String × Option ε :=
  match stack with
  | [] => (st, seen, none)
  | ⟨(pre, post), _hmem⟩ :: rest =>
    match step st pre post with
    | (st', some e) => (st', seen, some e)
    | (st', none) =>
      workList edges step st' ((pushed edges post (post :: seen)).reverse ++ rest) (post :: seen)
termination_by ((edges.map Prod.snd).countP (fun n => !(seen.contains n)),
                stack.countP (fun e => seen.contains e.1.2))
decreasing_by
  by_cases hs : seen.contains post = true
  · -- target already seen: first component unchanged, second drops by one
    have hsame : ∀ n : String, (post :: seen).contains n = seen.contains n := by
      intro n
      by_cases hn : n = post
      · subst hn; simp at hs; simp [hs]
      · simp [hn]
    apply Prod.Lex.right'
    · apply Nat.le_of_eq; congr 1; funext n; rw [hsame]
    · rw [List.countP_cons, List.countP_append]
      have h0 : List.countP (fun e : {e : Edge // e ∈ edges} => (post :: seen).contains e.1.2)
          (pushed edges post (post :: seen)).reverse = 0 := by
        rw [List.countP_eq_zero]
        intro e he
        have := (List.mem_filter.mp (List.mem_reverse.mp he)).2
        simp at this ⊢
        exact this.2
      rw [h0]
      simp only [hs, if_true]
      have : List.countP (fun e : {e : Edge // e ∈ edges} => (post :: seen).contains e.1.2) rest
          = List.countP (fun e : {e : Edge // e ∈ edges} => seen.contains e.1.2) rest := by
        congr 1; funext e; rw [hsame]
      omega
  · apply Prod.Lex.left
    apply countP_lt_of_imp _ _ _ _ post
    · exact List.mem_map.mpr ⟨(pre, post), _hmem, rfl⟩
    · simp
    · simp at hs; simp [hs]
    · intro n hn
      simp at hn ⊢
      exact hn.2

/-- Initial work-list: `ready = [e for e in edges if e[0] in inputs]`, `seen = {e[0] …}`. -/
def initialStack (edges : List Edge) (inputs : List String) : List {e : Edge // e ∈ edges} :=
  (edges.attach.filter (fun e => inputs.contains e.1.1)).reverse

def initialSeen (edges : List Edge) (inputs : List String) : List String :=
  (edges.filter (fun e => inputs.contains e.1)).map Prod.fst

end NirVerif.Model
