import NirVerif.Py.Value
/-
  Specification-side reading of type dictionaries: what "the output shape of a node is
  defined and equal to …" means, independently of the model's functions.
-/
namespace NirVerif.Spec
open NirVerif.Py

/-- Python / numpy integer scalars read as integers. -/
def intOfVal : Val → Option Int
  | .int i => some i
  | .bool b => some (if b then 1 else 0)
  | .npscalar dt d => if dt.kind == .int || dt.kind == .uint then some (decodeInt dt d) else none
  | _ => none

/-- The integer content of a shape value, container-insensitively: integer ndarray of
rank 1 (any integer dtype), the empty vector, or a tuple/list of Python/numpy integers. -/
def shapeOfVal : Val → Option (List Int)
  | .arr dt [n] d =>
      if dt.kind == .int || dt.kind == .uint then some (decodeInts dt d)
      else if n == 0 then some [] else none
  | .tuple xs | .list xs =>
      xs.mapM intOfVal
  | _ => none

/-- A single-port type dictionary whose one entry is a defined shape. -/
def portShape : Val → Option (List Int)
  | .dict [(_, v)] => shapeOfVal v
  | _ => none

end NirVerif.Spec
