/-
  Independent specification of "the number of positions at which a window of extent `span`
  fits inside a line of `len` cells when stepped by `stride`": the literal sliding loop
      off := 0; while off + span ≤ len: count += 1; off += stride
  Nothing here mentions the model or the generated code.
-/
namespace NirVerif.Spec

/-- The sliding loop, started at offset `off`. -/
def slideFrom (len span stride : Nat) (hs : 0 < stride) (off : Nat) : Nat :=
  if h : off + span ≤ len then 1 + slideFrom len span stride hs (off + stride) else 0
termination_by len + 1 - (off + span)
decreasing_by omega

/-- Number of valid window positions. -/
def slide (len span stride : Nat) (hs : 0 < stride) : Nat := slideFrom len span stride hs 0

/-- Extent of a kernel of `k` taps with dilation `d`. -/
def span (d k : Nat) : Nat := d * (k - 1) + 1

end NirVerif.Spec
