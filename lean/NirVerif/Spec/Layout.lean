/-
  The published on-disk layout, written from docs/source/primitives.md, porting_nir.md and the
  shipped .nir artefacts — independent of the library's `to_dict`.
-/
namespace NirVerif.Spec

/-- dataset / group names found in a node group of each primitive (besides the optional
`metadata` group) -/
def docNames : List (String × List String) := [
  ("Affine", ["weight", "bias", "type"]),
  ("Linear", ["weight", "type"]),
  ("Scale", ["scale", "type"]),
  ("Threshold", ["threshold", "type"]),
  ("Delay", ["delay", "type"]),
  ("I", ["r", "type"]),
  ("IF", ["r", "v_threshold", "type"]),
  ("LI", ["tau", "r", "v_leak", "type"]),
  ("LIF", ["tau", "r", "v_leak", "v_threshold", "type"]),
  ("CubaLIF", ["tau_syn", "tau_mem", "r", "v_leak", "v_threshold", "w_in", "type"]),
  ("Conv1d", ["input_shape", "weight", "stride", "padding", "dilation", "groups", "bias", "type"]),
  ("Conv2d", ["input_shape", "weight", "stride", "padding", "dilation", "groups", "bias", "type"]),
  ("SumPool2d", ["kernel_size", "stride", "padding", "type"]),
  ("AvgPool2d", ["kernel_size", "stride", "padding", "type"]),
  ("Flatten", ["start_dim", "end_dim", "type", "input_type"]),
  ("Input", ["type", "shape"]),
  ("Output", ["type", "shape"]),
  ("NIRGraph", ["nodes", "edges", "type"])]

end NirVerif.Spec
