/-
  Independent specification of array flattening on explicit row-major tensors.
-/
namespace NirVerif.Spec

def prodNat : List Nat → Nat
  | [] => 1
  | x :: xs => x * prodNat xs

/-- Python-style index normalisation: negative indices count from the end. -/
def normDim (rank : Nat) (i : Int) : Int := if i < 0 then i + rank else i

/-- Shape after merging dimensions `s..e` (already normalised, `s ≤ e < rank`). -/
def flattenShape (shape : List Nat) (s e : Nat) : List Nat :=
  shape.take s ++ [prodNat ((shape.drop s).take (e - s + 1))] ++ shape.drop (e + 1)

/-- A row-major tensor: a shape and exactly `∏ shape` cells. -/
structure Tensor (α : Type) where
  shape : List Nat
  data : List α
  size_eq : data.length = prodNat shape

end NirVerif.Spec
