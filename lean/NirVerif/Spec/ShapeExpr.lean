import NirVerif.Py.Basic

/-! # Shape expressions: the fragment of Python in which constructors spell their declared types

`self.<field>.shape`, slices and items of it with constant (possibly negative) bounds, one-element tuples and `+`
concatenation — evaluated with Python's slicing rules (`Py.slice`, `Py.index?`) on the shape of the named parameter.  The translator (T17) turns
the right-hand sides of `self.input_type = {"input": np.array(…)}` / `self.output_type = …` into terms of `ShapeE`. -/
namespace NirVerif.Spec

inductive ShapeE where
  /-- `self.f.shape` -/
  | whole (f : String)
  /-- `self.f.shape[lo:hi]` -/
  | slice (f : String) (lo hi : Option Int)
  /-- `(self.f.shape[i],)` -/
  | item (f : String) (i : Int)
  /-- `a + b` on tuples -/
  | cat (a b : ShapeE)
  deriving DecidableEq, Repr

def ShapeE.eval (shapeOf : String → List Nat) : ShapeE → Option (List Nat)
  | .whole f => some (shapeOf f)
  | .slice f lo hi => some (Py.slice (shapeOf f) lo hi)
  | .item f i => (Py.index? (shapeOf f) i).map fun x => [x]
  | .cat a b => do let x ← a.eval shapeOf; let y ← b.eval shapeOf; pure (x ++ y)

end NirVerif.Spec
