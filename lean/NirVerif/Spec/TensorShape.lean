/-
  Shape relations of the documented equations, on explicit shapes, independent of the model.
-/
namespace NirVerif.Spec

/-- `y = W x` over leading batch dimensions: for `W : batch ++ [m, n]` the operand must be
`x : batch ++ [n]` and the result is `y : batch ++ [m]`.  `none`: the product is undefined. -/
def matvecShape (w x : List Nat) : Option (List Nat) :=
  match w.reverse with
  | n :: m :: revBatch =>
      if x = revBatch.reverse ++ [n] then some (revBatch.reverse ++ [m]) else none
  | _ => none

/-- Element-wise combination with a parameter of shape `p` (no broadcasting: the documented
equations act per element): defined iff the operand has the parameter's shape. -/
def elementwiseShape (p x : List Nat) : Option (List Nat) :=
  if x = p then some p else none

end NirVerif.Spec
