import NirVerif.Py.Basic
/-
  Py value universe: the Python / numpy values that flow through the NIR library, with
  exactly the distinctions the properties talk about (container kind, dtype, shape, bytes).
  Core Lean only.
-/
deriving instance DecidableEq for Except

namespace NirVerif.Py

/-- Error kinds; the correspondence compares these (class name only, never the message). -/
inductive PyErr where
  | keyError | typeError | valueError | assertionError | notImplementedError
  | indexError | attributeError | other
  deriving DecidableEq, Repr, Inhabited

def PyErr.name : PyErr → String
  | .keyError => "KeyError" | .typeError => "TypeError" | .valueError => "ValueError"
  | .assertionError => "AssertionError" | .notImplementedError => "NotImplementedError"
  | .indexError => "IndexError" | .attributeError => "AttributeError" | .other => "Other"

/-- numpy dtype kinds that occur (`dtype.kind`). -/
inductive DKind where
  | int | uint | float | bool | complex | bytesS | unicodeU | object
  deriving DecidableEq, Repr, Inhabited

/-- A numpy dtype: kind, item size in bytes, byte order (`true` = big endian). -/
structure DType where
  kind : DKind
  size : Nat
  big : Bool := false
  deriving DecidableEq, Repr, Inhabited

def DType.int64 : DType := { kind := .int, size := 8 }
def DType.float64 : DType := { kind := .float, size := 8 }
def DType.bool_ : DType := { kind := .bool, size := 1 }
def DType.isInteger (d : DType) : Bool := d.kind == .int || d.kind == .uint

abbrev Bytes := List UInt8

/-- Python / numpy values.  `arr` is an ndarray in C order; `npscalar` a numpy scalar
(`np.int64(3)`, `np.float32(1.5)`, `np.bool_(True)`); `float` a Python float by its
IEEE-754 bits (little-endian bytes); `bytes` a Python `bytes`. -/
inductive Val where
  | none
  | bool (b : Bool)
  | int (i : Int)
  | float (bits : Bytes)
  | str (s : String)
  | bytes (b : Bytes)
  | npscalar (dt : DType) (data : Bytes)
  | arr (dt : DType) (shape : List Nat) (data : Bytes)
  | tuple (xs : List Val)
  | list (xs : List Val)
  | dict (kvs : List (String × Val))
  deriving Repr, Inhabited

/-! ## integer encoding (two's complement, either byte order) -/

/-- little-endian natural number from bytes -/
def leNat : Bytes → Nat
  | [] => 0
  | b :: bs => b.toNat + 256 * leNat bs

/-- little-endian bytes of `n`, exactly `w` bytes (truncating) -/
def natLE : Nat → Nat → Bytes
  | 0, _ => []
  | w + 1, n => UInt8.ofNat (n % 256) :: natLE w (n / 256)

def decodeInt (dt : DType) (b : Bytes) : Int :=
  let le := if dt.big then b.reverse else b
  let n := leNat le
  if dt.kind == .int && n ≥ 2 ^ (8 * dt.size - 1) then (n : Int) - 2 ^ (8 * dt.size) else n

def encodeInt (dt : DType) (i : Int) : Bytes :=
  let m : Int := 2 ^ (8 * dt.size)
  let n := (i % m).toNat
  let le := natLE dt.size n
  if dt.big then le.reverse else le

/-- does the integer fit the dtype -/
def fitsInt (dt : DType) (i : Int) : Bool :=
  match dt.kind with
  | .int => decide (-(2 ^ (8 * dt.size - 1) : Int) ≤ i) && decide (i < (2 ^ (8 * dt.size - 1) : Int))
  | .uint => decide (0 ≤ i) && decide (i < (2 ^ (8 * dt.size) : Int))
  | _ => false

/-- split a byte string into items of `w` bytes (fuel-structural so that it reduces in
the kernel) -/
def chunksAux (w : Nat) : Nat → Bytes → List Bytes
  | 0, _ => []
  | fuel + 1, b => if w = 0 ∨ b.length < w then [] else b.take w :: chunksAux w fuel (b.drop w)

def chunks (w : Nat) (b : Bytes) : List Bytes := chunksAux w b.length b

/-- the integers held by an integer-dtype array / scalar payload -/
def decodeInts (dt : DType) (b : Bytes) : List Int := (chunks dt.size b).map (decodeInt dt)

def encodeInts (dt : DType) (xs : List Int) : Bytes := (xs.map (encodeInt dt)).flatten

/-- An int64 ndarray of rank 1 holding `xs` — what `np.array([python ints])` gives. -/
def Val.ofInts (xs : List Int) : Val := .arr DType.int64 [xs.length] (encodeInts DType.int64 xs)

def natProd : List Nat → Nat
  | [] => 1
  | x :: xs => x * natProd xs

/-! ## association lists (Python dicts keep insertion order) -/

def lookup {α : Type} (k : String) : List (String × α) → Option α
  | [] => Option.none
  | (k', v) :: rest => if k' == k then some v else lookup k rest

/-- `d[k] = v`: overwrite in place if present, append otherwise. -/
def insert {α : Type} (k : String) (v : α) : List (String × α) → List (String × α)
  | [] => [(k, v)]
  | (k', v') :: rest => if k' == k then (k, v) :: rest else (k', v') :: insert k v rest

def erase {α : Type} (k : String) : List (String × α) → List (String × α)
  | [] => []
  | (k', v') :: rest => if k' == k then rest else (k', v') :: erase k rest

def hasKey {α : Type} (k : String) (d : List (String × α)) : Bool := (lookup k d).isSome

end NirVerif.Py
