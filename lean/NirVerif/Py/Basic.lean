/-
  Py prelude: the fragment of Python / numpy list semantics used by the shape kernels.
  Core Lean only (this file is imported by the compiled driver).
-/
namespace NirVerif.Py

/-- Python's clamping of a slice bound against a sequence of length `len`. -/
def normBound (len : Nat) (i : Int) : Nat :=
  if i < 0 then (i + len).toNat else min i.toNat len

/-- `l[start:stop]` with step 1; `none` is an omitted bound. -/
def slice {α : Type} (l : List α) (start stop : Option Int) : List α :=
  let n := l.length
  let s := match start with | none => 0 | some i => normBound n i
  let e := match stop with | none => n | some i => normBound n i
  (l.drop s).take (e - s)

/-- `np.prod` of an integer sequence (the empty product is 1). -/
def prod : List Int → Int
  | [] => 1
  | x :: xs => x * prod xs

/-- `len(x)` as a Python int. -/
def len {α : Type} (l : List α) : Int := (l.length : Int)

/-- `x[i]` for a Python int index (negative counts from the end); `none` is IndexError. -/
def index? {α : Type} (l : List α) (i : Int) : Option α :=
  if i < 0 then
    (if i + l.length < 0 then none else l[(i + l.length).toNat]?)
  else l[i.toNat]?

/-- `str.replace(a, b)` for a non-empty pattern `a`: leftmost, non-overlapping occurrences.
Structural on the character list (after a match the next `a.length - 1` characters are
skipped) so that it reduces in the kernel; `String.replace` does not. -/
def replaceAux (a b : List Char) : Nat → List Char → List Char
  | _, [] => []
  | skip + 1, _ :: cs => replaceAux a b skip cs
  | 0, c :: cs =>
    if a.isPrefixOf (c :: cs) then b ++ replaceAux a b (a.length - 1) cs else c :: replaceAux a b 0 cs

def pyReplace (s a b : String) : String := String.ofList (replaceAux a.toList b.toList 0 s.toList)

end NirVerif.Py
