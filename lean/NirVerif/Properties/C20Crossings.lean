import NirVerif.Properties.C20Loop

/-! # C20 (continued) — the event loop's spikes are exactly the threshold crossings

About the loop model with the **generated** kernels (`lifKern`), over ℝ.  An invariant of the loop
(`Good`): the membrane is below the threshold at every loop state; a finite `next_spike_time` is an
instant at which the exact solution of the current segment *reaches* the threshold, and not before;
an infinite one means the current segment never reaches it.  Consequences: every spike the loop
records is taken exactly at a threshold crossing (`spike_event_at_threshold`), and between two
consecutive events of the loop the membrane stays strictly below the threshold
(`below_between_events`) — no crossing is missed.

Hypotheses (each needed): `0 < tau`; `0 < v_threshold` (reset by subtraction from exactly the
threshold leaves `0`, which must be sub-threshold); initial voltage below threshold; change times
non-decreasing (what `StepCurrent` asserts) and not before `t = 0`; recording interval `≥ 0`.
The first prediction must be made *before* the first input change (for the zero current in force
until then): with `next_spike_time = inf` at entry — as the script had it — the invariant is false
at the entry state for a neuron whose leak potential lies above the threshold, and the real script
then misses every spike before the first change point (finding F13, fixed). -/
namespace NirVerif.C20
open NirVerif.Model.EventLoop NirVerif.Lemmas.EventLoop NirVerif.Generated.LifReal

section
variable (tau r v_leak θ : ℝ)

/-- `np.argmin` returns a minimum, with ties resolved towards the earlier entry -/
theorem ltInf_true {x y : Option ℝ} (h : ltInf x y = true) : ∃ u, x = some u ∧ ∀ w, y = some w → u < w := by
  rcases x with _ | u <;> rcases y with _ | w <;> simp [ltInf] at h ⊢
  exact h

theorem ltInf_false {x y : Option ℝ} (h : ltInf x y = false) : ∀ u, x = some u → ∃ w, y = some w ∧ w ≤ u := by
  rcases x with _ | u <;> rcases y with _ | w <;> simp [ltInf] at h ⊢
  exact h

theorem argmin3_min (a b c : Option ℝ) (k : Nat) (T : ℝ) (h : argmin3 a b c = (k, some T)) :
    (k = 0 ∧ a = some T ∧ (∀ x, b = some x → T ≤ x) ∧ (∀ x, c = some x → T ≤ x)) ∨
    (k = 1 ∧ b = some T ∧ (∀ x, a = some x → T < x) ∧ (∀ x, c = some x → T ≤ x)) ∨
    (k ≠ 0 ∧ k ≠ 1 ∧ c = some T ∧ (∀ x, a = some x → T < x) ∧ (∀ x, b = some x → T < x)) := by
  unfold argmin3 at h
  rcases h1 : ltInf b a with _ | _
  · simp only [h1, Bool.false_eq_true, ↓reduceIte] at h
    rcases h2 : ltInf c a with _ | _
    · simp only [h2, Bool.false_eq_true, ↓reduceIte, Prod.mk.injEq] at h
      obtain ⟨rfl, haT⟩ := h
      refine Or.inl ⟨rfl, haT, ?_, ?_⟩
      · intro x hx
        obtain ⟨w, hw, hle⟩ := ltInf_false h1 x hx
        rw [haT] at hw; cases hw; exact hle
      · intro x hx
        obtain ⟨w, hw, hle⟩ := ltInf_false h2 x hx
        rw [haT] at hw; cases hw; exact hle
    · simp only [h2, ↓reduceIte, Prod.mk.injEq] at h
      obtain ⟨rfl, hc⟩ := h
      obtain ⟨uc, hc', hca⟩ := ltInf_true h2
      rw [hc] at hc'; cases hc'
      refine Or.inr (Or.inr ⟨by decide, by decide, hc, hca, ?_⟩)
      intro x hx
      obtain ⟨w, hw, hle⟩ := ltInf_false h1 x hx
      have := hca w hw; linarith
  · simp only [h1, ↓reduceIte] at h
    obtain ⟨ub, hb, hba⟩ := ltInf_true h1
    rcases h2 : ltInf c b with _ | _
    · simp only [h2, Bool.false_eq_true, ↓reduceIte, Prod.mk.injEq] at h
      obtain ⟨rfl, hbT⟩ := h
      rw [hbT] at hb; cases hb
      refine Or.inr (Or.inl ⟨rfl, hbT, hba, ?_⟩)
      intro x hx
      obtain ⟨w, hw, hle⟩ := ltInf_false h2 x hx
      rw [hbT] at hw; cases hw; exact hle
    · simp only [h2, ↓reduceIte, Prod.mk.injEq] at h
      obtain ⟨rfl, hc⟩ := h
      obtain ⟨uc, hc', hcb⟩ := ltInf_true h2
      rw [hc] at hc'; cases hc'
      refine Or.inr (Or.inr ⟨by decide, by decide, hc, ?_, ?_⟩)
      · intro x hx; have := hcb ub hb; have := hba x hx; linarith
      · intro x hx; exact hcb x hx

/-- the loop invariant -/
structure Good (inputs : List (ℝ × ℝ)) (s : St ℝ) : Prop where
  below : s.v < θ
  reach : ∀ Ts, s.nSpike = some Ts → s.t ≤ Ts ∧ advance tau r v_leak θ s.v s.amp (Ts - s.t) = θ ∧
            ∀ u, 0 ≤ u → u < Ts - s.t → advance tau r v_leak θ s.v s.amp u < θ
  never : s.nSpike = none → ∀ u, 0 ≤ u → advance tau r v_leak θ s.v s.amp u < θ
  recLe : ∀ Tr, s.nRec = some Tr → s.t ≤ Tr
  inLe : ∀ Ti, s.nIn = some Ti → s.t ≤ Ti
  sched : s.nIn = (inputs[s.idx]?).map (·.1)

variable {tau r v_leak θ}

/-- a fresh prediction establishes the two spike clauses -/
theorem fresh_prediction (htau : 0 < tau) {v a T : ℝ} (hv : v < θ) :
    (∀ Ts, (nextSpikeTime tau r v_leak θ v a).map (T + ·) = some Ts →
        T ≤ Ts ∧ advance tau r v_leak θ v a (Ts - T) = θ ∧
          ∀ u, 0 ≤ u → u < Ts - T → advance tau r v_leak θ v a u < θ) ∧
    ((nextSpikeTime tau r v_leak θ v a).map (T + ·) = none →
        ∀ u, 0 ≤ u → advance tau r v_leak θ v a u < θ) := by
  constructor
  · intro Ts hTs
    rcases hn : nextSpikeTime tau r v_leak θ v a with _ | ts
    · rw [hn] at hTs; simp at hTs
    · rw [hn] at hTs
      simp only [Option.map_some, Option.some.injEq] at hTs
      obtain ⟨h0, hat, hbefore⟩ := spike_some tau r v_leak θ htau v a ts hv hn
      have e : Ts - T = ts := by rw [← hTs]; ring
      rw [e]
      exact ⟨by rw [← hTs]; linarith, hat, hbefore⟩
  · intro hnone u hu
    rcases hn : nextSpikeTime tau r v_leak θ v a with _ | ts
    · exact spike_none tau r v_leak θ htau v a hv hn u hu
    · rw [hn] at hnone; simp at hnone

/-- advancing along the segment, short of the predicted spike, keeps both spike clauses -/
theorem carried_prediction {v a t T : ℝ} {nS : Option ℝ} (htT : t ≤ T)
    (hreach : ∀ Ts, nS = some Ts → t ≤ Ts ∧ advance tau r v_leak θ v a (Ts - t) = θ ∧
        ∀ u, 0 ≤ u → u < Ts - t → advance tau r v_leak θ v a u < θ)
    (hnever : nS = none → ∀ u, 0 ≤ u → advance tau r v_leak θ v a u < θ)
    (hlt : ∀ Ts, nS = some Ts → T < Ts) :
    advance tau r v_leak θ v a (T - t) < θ ∧
    (∀ Ts, nS = some Ts → T ≤ Ts ∧ advance tau r v_leak θ (advance tau r v_leak θ v a (T - t)) a (Ts - T) = θ ∧
        ∀ u, 0 ≤ u → u < Ts - T → advance tau r v_leak θ (advance tau r v_leak θ v a (T - t)) a u < θ) ∧
    (nS = none → ∀ u, 0 ≤ u → advance tau r v_leak θ (advance tau r v_leak θ v a (T - t)) a u < θ) := by
  have hd : 0 ≤ T - t := by linarith
  refine ⟨?_, ?_, ?_⟩
  · rcases nS with _ | Ts
    · exact hnever rfl _ hd
    · exact (hreach Ts rfl).2.2 _ hd (by have := hlt Ts rfl; linarith)
  · intro Ts hTs
    obtain ⟨_, hat, hbefore⟩ := hreach Ts hTs
    have hT := hlt Ts hTs
    refine ⟨hT.le, ?_, ?_⟩
    · rw [← add]; rw [show T - t + (Ts - T) = Ts - t by ring]; exact hat
    · intro u hu hlt'
      rw [← add]
      exact hbefore _ (by linarith) (by linarith)
  · intro hn u hu
    rw [← add]
    exact hnever hn _ (by linarith)

variable (tau r v_leak θ)

/-- **The invariant is kept by every iteration of the loop.** -/
theorem good_step (htau : 0 < tau) (hθ : 0 < θ) (inputs : List (ℝ × ℝ)) (dur : ℝ) (d : Option ℝ)
    (hd : ∀ x, d = some x → 0 ≤ x)
    (hsorted : ∀ i p q, inputs[i]? = some p → inputs[i + 1]? = some q → p.1 ≤ q.1)
    {s s' : St ℝ} (hg : Good tau r v_leak θ inputs s)
    (hstep : step (lifKern tau r v_leak θ) inputs d dur s = some s') : Good tau r v_leak θ inputs s' := by
  unfold step at hstep
  rcases hp : pick dur s with _ | ⟨k, T⟩
  · rw [hp] at hstep; exact absurd hstep (by simp)
  · rw [hp] at hstep
    simp only at hstep
    obtain ⟨_, _, hk⟩ := pick_some dur hp
    rcases argmin3_min _ _ _ _ _ hk with ⟨rfl, ha, hb, hc⟩ | ⟨rfl, hb, ha, hc⟩ | ⟨hk0, hk1, hc, ha, hb⟩
    · -- spike: the pre-reset voltage is exactly the threshold, the reset leaves 0
      obtain ⟨htT, hat, _⟩ := hg.reach T ha
      simp only [fire, if_pos, Option.some.injEq] at hstep
      subst hstep
      have hv1 : advance tau r v_leak θ s.v s.amp (T - s.t) = θ := hat
      have hv2 : applyReset tau r v_leak θ (advance tau r v_leak θ s.v s.amp (T - s.t)) = 0 := by
        rw [hv1]; unfold applyReset; simp
      obtain ⟨f1, f2⟩ := fresh_prediction (r := r) (v_leak := v_leak) (a := s.amp) (T := T) htau (by linarith : (0 : ℝ) < θ)
      refine ⟨?_, ?_, ?_, ?_, ?_, hg.sched⟩
      · show applyReset tau r v_leak θ (advance tau r v_leak θ s.v s.amp (T - s.t)) < θ
        rw [hv2]; exact hθ
      · intro Ts hTs
        have : (nextSpikeTime tau r v_leak θ 0 s.amp).map (T + ·) = some Ts := by
          simpa [lifKern, hv2] using hTs
        simpa [lifKern, hv2] using f1 Ts this
      · intro hn
        have : (nextSpikeTime tau r v_leak θ 0 s.amp).map (T + ·) = none := by
          simpa [lifKern, hv2] using hn
        simpa [lifKern, hv2] using f2 this
      · intro Tr hTr; exact hb Tr hTr
      · intro Ti hTi; exact hc Ti hTi
    · -- record: the state moves along the segment, short of the predicted spike
      have htT : s.t ≤ T := hg.recLe T hb
      obtain ⟨c1, c2, c3⟩ := carried_prediction (r := r) (v_leak := v_leak) (θ := θ) (tau := tau) htT hg.reach hg.never ha
      simp only [fire, if_neg (by decide : ¬ (1 : Nat) = 0), if_pos, Option.some.injEq] at hstep
      subst hstep
      refine ⟨c1, c2, c3, ?_, ?_, hg.sched⟩
      · intro Tr hTr
        dsimp only at hTr ⊢
        rw [hb] at hTr
        rcases d with _ | x
        · simp [addInf] at hTr
        · simp only [addInf, Option.some.injEq] at hTr
          have := hd x rfl
          linarith
      · intro Ti hTi; exact hc Ti hTi
    · -- input change: move along the segment, then predict afresh for the new current
      have hTi : s.t ≤ T := hg.inLe T hc
      obtain ⟨c1, _, _⟩ := carried_prediction (r := r) (v_leak := v_leak) (θ := θ) (tau := tau) hTi hg.reach hg.never ha
      simp only [fire, if_neg hk0, if_neg hk1] at hstep
      rcases hi : inputs[s.idx]? with _ | ⟨t', a⟩
      · rw [hi] at hstep; exact absurd hstep (by simp)
      · rw [hi] at hstep
        simp only [Option.some.injEq] at hstep
        subst hstep
        obtain ⟨f1, f2⟩ := fresh_prediction (r := r) (v_leak := v_leak) (a := a) (T := T) htau c1
        have hsch := hg.sched
        rw [hc, hi] at hsch
        simp only [Option.map_some, Option.some.injEq] at hsch
        refine ⟨c1, ?_, ?_, ?_, ?_, rfl⟩
        · intro Ts hTs; exact f1 Ts hTs
        · intro hn; exact f2 hn
        · intro Tr hTr; exact (hb Tr hTr).le
        · intro Ti hTi'
          dsimp only at hTi' ⊢
          rcases hq : inputs[s.idx + 1]? with _ | q
          · rw [hq] at hTi'; simp at hTi'
          · rw [hq] at hTi'
            simp only [Option.map_some, Option.some.injEq] at hTi'
            have := hsorted s.idx _ _ hi hq
            rw [← hTi', hsch]; exact this

/-- the entry state satisfies the invariant -/
theorem good_init (htau : 0 < tau) (inputs : List (ℝ × ℝ)) (d : Option ℝ) (hd : ∀ x, d = some x → 0 ≤ x)
    (v0 : ℝ) (hv0 : v0 < θ) (ht0 : ∀ p, inputs[0]? = some p → 0 ≤ p.1) {s : St ℝ}
    (h : init (lifKern tau r v_leak θ) 0 v0 inputs d = some s) : Good tau r v_leak θ inputs s := by
  rcases inputs with _ | ⟨⟨t0, a0⟩, rest⟩
  · simp [init] at h
  · simp only [init, Option.some.injEq] at h
    subst h
    obtain ⟨f1, f2⟩ := fresh_prediction (r := r) (v_leak := v_leak) (a := 0) (T := 0) htau hv0
    refine ⟨hv0, ?_, ?_, ?_, ?_, rfl⟩
    · intro Ts hTs; exact f1 Ts hTs
    · intro hn; exact f2 hn
    · intro Tr hTr; exact hd Tr hTr
    · intro Ti hTi
      simp only [Option.some.injEq] at hTi
      subst hTi
      exact ht0 (t0, a0) rfl

/-- **the invariant holds at every point of every run** -/
theorem good_all (htau : 0 < tau) (hθ : 0 < θ) (inputs : List (ℝ × ℝ)) (dur : ℝ) (d : Option ℝ)
    (hd : ∀ x, d = some x → 0 ≤ x)
    (hsorted : ∀ i p q, inputs[i]? = some p → inputs[i + 1]? = some q → p.1 ≤ q.1)
    (v0 : ℝ) (hv0 : v0 < θ) (ht0 : ∀ p, inputs[0]? = some p → 0 ≤ p.1) {s : St ℝ}
    (h : init (lifKern tau r v_leak θ) 0 v0 inputs d = some s) (n : Nat) :
    Good tau r v_leak θ inputs (iter (lifKern tau r v_leak θ) inputs d dur n s) := by
  induction n with
  | zero => exact good_init tau r v_leak θ htau inputs d hd v0 hv0 ht0 h
  | succ n ih =>
    rw [iter_succ']
    unfold next
    rcases hs : step (lifKern tau r v_leak θ) inputs d dur (iter (lifKern tau r v_leak θ) inputs d dur n s) with _ | s'
    · simpa using ih
    · simpa using good_step tau r v_leak θ htau hθ inputs dur d hd hsorted ih hs

/-- **Every spike is recorded exactly at a threshold crossing**: whenever the loop (at any point of
any run) handles a spike event at time `T`, the exact solution of the current segment is at the
threshold at `T` — and strictly below it at every earlier instant of the segment. -/
theorem spike_event_at_threshold {inputs : List (ℝ × ℝ)} {dur : ℝ} {s : St ℝ} {T : ℝ}
    (hg : Good tau r v_leak θ inputs s) (hp : pick dur s = some (0, T)) :
    s.t ≤ T ∧ advance tau r v_leak θ s.v s.amp (T - s.t) = θ ∧
      ∀ u, 0 ≤ u → u < T - s.t → advance tau r v_leak θ s.v s.amp u < θ := by
  obtain ⟨_, _, hk⟩ := pick_some dur hp
  rcases argmin3_min _ _ _ _ _ hk with ⟨_, ha, _, _⟩ | ⟨h1, _⟩ | ⟨h0, _⟩
  · exact hg.reach T ha
  · exact absurd h1 (by decide)
  · exact absurd rfl h0

/-- **No crossing is missed**: up to the next event the loop handles (whatever its kind), the
membrane stays strictly below the threshold; it reaches it at that event only if the event is a spike. -/
theorem below_between_events {inputs : List (ℝ × ℝ)} {dur : ℝ} {s : St ℝ} {k : Nat} {T : ℝ}
    (hg : Good tau r v_leak θ inputs s) (hp : pick dur s = some (k, T)) :
    ∀ u, 0 ≤ u → u < T - s.t → advance tau r v_leak θ s.v s.amp u < θ := by
  obtain ⟨_, _, hk⟩ := pick_some dur hp
  intro u hu hlt
  rcases hS : s.nSpike with _ | Ts
  · exact hg.never hS u hu
  · refine (hg.reach Ts hS).2.2 u hu ?_
    rcases argmin3_min _ _ _ _ _ hk with ⟨_, ha, _, _⟩ | ⟨_, _, ha, _⟩ | ⟨_, _, _, ha, _⟩
    · rw [hS] at ha; simp only [Option.some.injEq] at ha; rw [ha]; exact hlt
    · have := ha Ts hS; linarith
    · have := ha Ts hS; linarith

/-- … and after the last event, for as long as the run would have gone on (no event up to
`duration`), the membrane is below the threshold as well. -/
theorem below_after_last_event {inputs : List (ℝ × ℝ)} {dur : ℝ} {s : St ℝ}
    (hg : Good tau r v_leak θ inputs s) (ht : s.t ≤ dur) (hh : Halted dur s) :
    ∀ u, 0 ≤ u → s.t + u ≤ dur → advance tau r v_leak θ s.v s.amp u < θ := by
  intro u hu hle
  rcases hS : s.nSpike with _ | Ts
  · exact hg.never hS u hu
  · refine (hg.reach Ts hS).2.2 u hu ?_
    -- the loop was left although `t ≤ duration`: every pending event lies beyond `duration`
    have : dur < Ts := by
      rcases pick_none_of dur hh with h1 | ⟨k, hk⟩ | ⟨k, T, hk, hT⟩
      · exact absurd ht h1
      · exfalso
        rcases hb : s.nRec with _ | b <;> rcases hc : s.nIn with _ | c <;>
          simp only [hS, hb, hc, argmin3, ltInf] at hk <;> grind
      · rcases argmin3_min _ _ _ _ _ hk with ⟨_, ha, _, _⟩ | ⟨_, _, ha, _⟩ | ⟨_, _, _, ha, _⟩
        · rw [hS] at ha; simp only [Option.some.injEq] at ha; rw [ha]; exact hT
        · have := ha Ts hS; linarith
        · have := ha Ts hS; linarith
    linarith
end

end NirVerif.C20
