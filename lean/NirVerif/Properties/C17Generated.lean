import NirVerif.Properties.C17
import NirVerif.Generated.ObserverEffects

/-! # C17 — the frame condition read off the source (translator item T16)

`Properties/C17.lean` states the frame condition over a model whose observers are functions of an
immutable value.  What makes the real observers refine those functions is that their bodies contain no
statement that stores through an object reachable from the observed graph, and that `nir/` keeps no
state that outlives a call (so that two reads cannot share anything).  T16 reads exactly that off the
source on every run: every `to_dict` (generic and class-specific), `NIRGraph.inputs` / `outputs`, the
live `_check_types` and `serialization.write` with its nested helper are walked with a small taint
analysis (`self` / `graph` and every local bound to a part of them are *live*; results of `asdict`,
`deepcopy`, `super().to_dict()`, `.to_dict()` are fresh) and every assignment / deletion / in-place
operator / mutating method call / `setattr` through a live object is listed in `stores`, every hand-over
of a live object to code outside a fixed table of readers in `escapes`; mutable default arguments,
memoising decorators, `global`, memory maps and mutated module-level containers anywhere under `nir/`
are listed in `sharedState`.  The theorems say the three lists are empty on the current tree; a change
that adds a store, an unknown callee or call-outliving state changes the regenerated file and they stop
checking — the check then searches the real code for a snapshot difference (`props/c17.py`).

Trusted here: the effect analysis itself (`harness/translate.py`, `_Effects`), the table of reader /
copying functions in it (`asdict` and `deepcopy` copy; `np.array_equal`, `len`, `isinstance`, … only
read), and that h5py's `create_dataset` only reads the data it is given. -/
namespace NirVerif.C17
open NirVerif.Generated

/-- no observer body stores through the observed graph, none hands it to unknown code -/
theorem observers_generated :
    ObserverEffects.stores = [] ∧ ObserverEffects.escapes = [] ∧
    (∀ o ∈ ["NIRNode.to_dict", "NIRGraph.to_dict", "NIRGraph.inputs", "NIRGraph.outputs",
            "NIRGraph._check_types", "write"], o ∈ ObserverEffects.observers) := by
  decide

/-- nothing under `nir/` keeps state between calls that two results could share -/
theorem no_shared_state_generated : ObserverEffects.sharedState = [] := by decide

/-- no class under `nir/` redefines attribute access, copying or hashing, and neither the observers nor the module-level
functions of the reader / writer / shape utilities are wrapped by a decorator: what the bodies read by T16, T13, T18 and T19 say
is what runs -/
theorem no_hooks_generated : ObserverEffects.hooks = [] := by decide

end NirVerif.C17
