import NirVerif.Lemmas.EventLoop
import NirVerif.Properties.C20
import Mathlib.Tactic.NormNum

/-! # C20 (continued) — the event loop: spike times and recorded voltages do not depend on the
recording interval

About `Model.EventLoop` (the hand-written model of `run_event_based_simulation`, executed on
`Float` against the Python loop bit for bit on every run) instantiated with the **generated**
kernels.  Over ℝ.  A run "returns" when the loop is left (`Halted`); a run that never leaves the
loop (e.g. `record_dt = 0`) returns nothing, and nothing is claimed about it. -/
namespace NirVerif.C20
open NirVerif.Model.EventLoop NirVerif.Lemmas.EventLoop NirVerif.Generated.LifReal

/-- the three kernels of a neuron with the given parameters: the generated definitions (T6) -/
noncomputable def lifKern (tau r v_leak v_threshold : ℝ) : Kern ℝ :=
  ⟨advance tau r v_leak v_threshold, nextSpikeTime tau r v_leak v_threshold, applyReset tau r v_leak v_threshold⟩

/-- the generated `advance_by_delta_t` is an exact flow (C20 `zero`, `add`) -/
theorem lif_flow (tau r v_leak v_threshold : ℝ) : Flow (lifKern tau r v_leak v_threshold) :=
  ⟨zero tau r v_leak v_threshold, fun v I a b => (add tau r v_leak v_threshold v I a b).symm⟩

section
variable (K : Kern ℝ) (hF : Flow K) (inputs : List (ℝ × ℝ)) (dur v0 : ℝ)
include hF

theorem init_rel {d : Option ℝ} {sR sN : St ℝ} (hR : init K 0 v0 inputs d = some sR)
    (hN : init K 0 v0 inputs none = some sN) : Rel K dur sR sN ∧ sR.recs = [] := by
  rcases inputs with _ | ⟨⟨t0, a0⟩, rest⟩
  · simp [init] at hR
  · simp only [init, Option.some.injEq] at hR hN
    subst hR; subst hN
    exact ⟨⟨rfl, rfl, rfl, rfl, rfl, rfl, by simp [hF.zero], Iff.rfl⟩, rfl⟩

/-- **Spike times do not depend on the recording interval.**  Two runs of the event loop on the
same neuron, initial voltage, input schedule and duration, with any two recording intervals
(`none` = no recording at all), that both return, return the same list of spike times. -/
theorem loop_spikes_independent (d1 d2 : Option ℝ) (hd1 : ∀ x, d1 = some x → 0 ≤ x)
    (hd2 : ∀ x, d2 = some x → 0 ≤ x) {s1 s2 : St ℝ} (h1 : init K 0 v0 inputs d1 = some s1)
    (h2 : init K 0 v0 inputs d2 = some s2) (n1 n2 : Nat)
    (hh1 : Halted dur (iter K inputs d1 dur n1 s1)) (hh2 : Halted dur (iter K inputs d2 dur n2 s2)) :
    (iter K inputs d1 dur n1 s1).spikes = (iter K inputs d2 dur n2 s2).spikes := by
  have hN : ∃ sN, init K 0 v0 inputs none = some sN := by
    rcases inputs with _ | ⟨⟨t0, a0⟩, rest⟩
    · simp [init] at h1
    · exact ⟨_, rfl⟩
  obtain ⟨sN, hN⟩ := hN
  obtain ⟨r1, e1⟩ := init_rel K hF inputs dur v0 h1 hN
  obtain ⟨r2, e2⟩ := init_rel K hF inputs dur v0 h2 hN
  obtain ⟨m1, i1⟩ := inv_all (inputs := inputs) hF hd1 r1 e1 n1
  obtain ⟨m2, i2⟩ := inv_all (inputs := inputs) hF hd2 r2 e2 n2
  have hm1 := halted_of_rel i1.rel hh1
  have hm2 := halted_of_rel i2.rel hh2
  rw [i1.rel.spikes, i2.rel.spikes, halted_unique hm1 hm2]

/-- **Recorded voltages do not depend on the recording interval.**  Whenever two runs (any two
recording intervals, any number of iterations into the run) have both recorded a voltage at the
same instant `T`, they recorded the same voltage. -/
theorem loop_records_independent (d1 d2 : Option ℝ) (hd1 : ∀ x, d1 = some x → 0 ≤ x)
    (hd2 : ∀ x, d2 = some x → 0 ≤ x) {s1 s2 : St ℝ} (h1 : init K 0 v0 inputs d1 = some s1)
    (h2 : init K 0 v0 inputs d2 = some s2) (n1 n2 : Nat) (T u1 u2 : ℝ)
    (hr1 : (T, u1) ∈ (iter K inputs d1 dur n1 s1).recs) (hr2 : (T, u2) ∈ (iter K inputs d2 dur n2 s2).recs) :
    u1 = u2 := by
  have hN : ∃ sN, init K 0 v0 inputs none = some sN := by
    rcases inputs with _ | ⟨⟨t0, a0⟩, rest⟩
    · simp [init] at h1
    · exact ⟨_, rfl⟩
  obtain ⟨sN, hN⟩ := hN
  obtain ⟨r1, e1⟩ := init_rel K hF inputs dur v0 h1 hN
  obtain ⟨r2, e2⟩ := init_rel K hF inputs dur v0 h2 hN
  obtain ⟨m1, i1⟩ := inv_all (inputs := inputs) hF hd1 r1 e1 n1
  obtain ⟨m2, i2⟩ := inv_all (inputs := inputs) hF hd2 r2 e2 n2
  obtain ⟨a, _, fa, va⟩ := i1.recs _ hr1
  obtain ⟨b, _, fb, vb⟩ := i2.recs _ hr2
  have hab : a = b := fa.unique fb
  subst hab
  exact va.trans vb.symm

/-- … and each of them is the exact solution, started from the state the non-recording run is in
at that instant, evaluated at the record time. -/
theorem loop_record_value (d : Option ℝ) (hd : ∀ x, d = some x → 0 ≤ x) {s sN : St ℝ}
    (h : init K 0 v0 inputs d = some s) (hN : init K 0 v0 inputs none = some sN) (n : Nat) (T u : ℝ)
    (hr : (T, u) ∈ (iter K inputs d dur n s).recs) :
    ∃ m, First K inputs dur sN m T ∧
      u = K.adv (iter K inputs none dur m sN).v (iter K inputs none dur m sN).amp
            (T - (iter K inputs none dur m sN).t) := by
  obtain ⟨r1, e1⟩ := init_rel K hF inputs dur v0 h hN
  obtain ⟨m1, i1⟩ := inv_all (inputs := inputs) hF hd r1 e1 n
  obtain ⟨a, _, fa, va⟩ := i1.recs _ hr
  exact ⟨a, fa, va⟩
end

/-- the two independence theorems for the shipped simulator: the loop around the generated kernels -/
theorem lif_spikes_independent (tau r v_leak v_threshold : ℝ) (inputs : List (ℝ × ℝ)) (dur v0 : ℝ)
    (d1 d2 : Option ℝ) (hd1 : ∀ x, d1 = some x → 0 ≤ x) (hd2 : ∀ x, d2 = some x → 0 ≤ x) {s1 s2 : St ℝ}
    (h1 : init (lifKern tau r v_leak v_threshold) 0 v0 inputs d1 = some s1) (h2 : init (lifKern tau r v_leak v_threshold) 0 v0 inputs d2 = some s2) (n1 n2 : Nat)
    (hh1 : Halted dur (iter (lifKern tau r v_leak v_threshold) inputs d1 dur n1 s1))
    (hh2 : Halted dur (iter (lifKern tau r v_leak v_threshold) inputs d2 dur n2 s2)) :
    (iter (lifKern tau r v_leak v_threshold) inputs d1 dur n1 s1).spikes
      = (iter (lifKern tau r v_leak v_threshold) inputs d2 dur n2 s2).spikes :=
  loop_spikes_independent _ (lif_flow tau r v_leak v_threshold) inputs dur v0 d1 d2 hd1 hd2 h1 h2 n1 n2 hh1 hh2

theorem lif_records_independent (tau r v_leak v_threshold : ℝ) (inputs : List (ℝ × ℝ)) (dur v0 : ℝ)
    (d1 d2 : Option ℝ) (hd1 : ∀ x, d1 = some x → 0 ≤ x) (hd2 : ∀ x, d2 = some x → 0 ≤ x) {s1 s2 : St ℝ}
    (h1 : init (lifKern tau r v_leak v_threshold) 0 v0 inputs d1 = some s1) (h2 : init (lifKern tau r v_leak v_threshold) 0 v0 inputs d2 = some s2) (n1 n2 : Nat) (T u1 u2 : ℝ)
    (hr1 : (T, u1) ∈ (iter (lifKern tau r v_leak v_threshold) inputs d1 dur n1 s1).recs)
    (hr2 : (T, u2) ∈ (iter (lifKern tau r v_leak v_threshold) inputs d2 dur n2 s2).recs) : u1 = u2 :=
  loop_records_independent _ (lif_flow tau r v_leak v_threshold) inputs dur v0 d1 d2 hd1 hd2 h1 h2 n1 n2 T u1 u2 hr1 hr2

/-! ## Non-vacuity: two concrete runs that meet every hypothesis

The theorems are generic in the kernels; to *run* the loop over ℝ by hand the perfect integrator
(`dv/dt = I`, threshold 3/2 — an exact flow too) is used.  One unit step current from `t = 0`,
duration 5/2, recording every 1 resp. every 1/2 (where a record coincides with the spike at 3/2
and is handled after it).  Both runs return; the kernel evaluates them. -/
section NonVacuity

noncomputable def intKern : Kern ℝ :=
  ⟨fun v I dt => v + I * dt, fun v I => if 0 < I ∧ v ≤ 3/2 then some ((3/2 - v) / I) else none,
   fun v => v - 3/2⟩

theorem intKern_flow : Flow intKern :=
  ⟨by intro v I; simp [intKern], by intro v I a b; simp [intKern]; ring⟩

def entry (d : Option ℝ) : St ℝ :=
  { t := 0, v := 0, amp := 0, idx := 0, nSpike := none, nRec := d, nIn := some 0, spikes := [], recs := [] }

theorem runA : init intKern 0 0 [((0:ℝ), (1:ℝ))] (some 1) = some (entry (some 1)) ∧
    Halted (5/2) (iter intKern [((0:ℝ), (1:ℝ))] (some 1) (5/2) 4 (entry (some 1))) ∧
    (iter intKern [((0:ℝ), (1:ℝ))] (some 1) (5/2) 4 (entry (some 1))).spikes = [3/2] ∧
    (iter intKern [((0:ℝ), (1:ℝ))] (some 1) (5/2) 4 (entry (some 1))).recs = [(1, 1), (2, 1/2)] := by
  refine ⟨by simp [init, entry, intKern], ?_, ?_, ?_⟩
  · simp [Halted, iter, next, step, pick, fire, argmin3, ltInf, addInf, entry, intKern]; norm_num
  · simp [iter, next, step, pick, fire, argmin3, ltInf, addInf, entry, intKern]; norm_num
  · simp [iter, next, step, pick, fire, argmin3, ltInf, addInf, entry, intKern]; norm_num

theorem runB : init intKern 0 0 [((0:ℝ), (1:ℝ))] (some (1/2)) = some (entry (some (1/2))) ∧
    Halted (5/2) (iter intKern [((0:ℝ), (1:ℝ))] (some (1/2)) (5/2) 7 (entry (some (1/2)))) ∧
    (iter intKern [((0:ℝ), (1:ℝ))] (some (1/2)) (5/2) 7 (entry (some (1/2)))).spikes = [3/2] ∧
    (iter intKern [((0:ℝ), (1:ℝ))] (some (1/2)) (5/2) 7 (entry (some (1/2)))).recs
      = [(1/2, 1/2), (1, 1), (3/2, 0), (2, 1/2), (5/2, 1)] := by
  refine ⟨by simp [init, entry, intKern], ?_, ?_, ?_⟩
  · simp [Halted, iter, next, step, pick, fire, argmin3, ltInf, addInf, entry, intKern]; norm_num
  · simp [iter, next, step, pick, fire, argmin3, ltInf, addInf, entry, intKern]; norm_num
  · simp [iter, next, step, pick, fire, argmin3, ltInf, addInf, entry, intKern]; norm_num

/-- the theorem applied to the two runs: all hypotheses are met by actual, non-trivial runs -/
example : (iter intKern [((0:ℝ), (1:ℝ))] (some 1) (5/2) 4 (entry (some 1))).spikes
    = (iter intKern [((0:ℝ), (1:ℝ))] (some (1/2)) (5/2) 7 (entry (some (1/2)))).spikes :=
  loop_spikes_independent intKern intKern_flow _ (5/2) 0 (some 1) (some (1/2))
    (by intro x hx; cases hx; norm_num) (by intro x hx; cases hx; norm_num) runA.1 runB.1 4 7 runA.2.1 runB.2.1

end NonVacuity

end NirVerif.C20
