import NirVerif.Properties.C06
import NirVerif.Lemmas.ConvForms

/-! # C06 (continued) — `calculate_conv_output` as a whole, over the value universe

`C06.axis` is about the generated per-axis formula.  Here the hand-written model of the
function around it (`Model.calculateConvOutput`: `isinstance` dispatch, `_index_tuple`,
`'valid'` / `'same'`) is related to the specification: on every argument tuple it returns, per
spatial axis, the number of positions at which the dilated kernel fits inside the zero-padded
input when stepped by the stride; and scalar / tuple / list / ndarray forms of each argument are
interchangeable.  The model is tied to `nir/ir/utils.py` by the `shapes` correspondence suite. -/
namespace NirVerif.C06
open NirVerif NirVerif.Py NirVerif.Model NirVerif.Lemmas

/-- sliding-window count with the stride-positivity proof supplied where it holds -/
def slideD (len span s : Nat) : Nat := if h : 0 < s then Spec.slide len span s h else 0

/-- a tuple of Python ints from naturals -/
def natTuple (xs : List Nat) : Val := .tuple ((xs.map Int.ofNat).map Val.int)

/-- **Whole-function exactness** (numeric padding): for per-axis sizes `ns`, paddings `ps`,
dilations `ds`, kernel sizes `ks`, strides `ss` (any number of spatial axes) with positive
strides and kernels that fit at least once, `calculate_conv_output` returns exactly the
sliding-window position counts. -/
theorem conv_out_slide (ns ps ds ks ss : List Nat)
    (hp : ps.length = ns.length) (hd : ds.length = ns.length) (hk : ks.length = ns.length) (hs : ss.length = ns.length)
    (hok : ∀ i, i < ns.length → 0 < ss.getD i 0 ∧ 1 ≤ ks.getD i 0 ∧
      Spec.span (ds.getD i 0) (ks.getD i 0) ≤ ns.getD i 0 + 2 * ps.getD i 0) :
    calculateConvOutput (natTuple ns) (natTuple ps) (natTuple ds) (natTuple ks) (natTuple ss) =
      .ok ((List.range ns.length).map fun i =>
        ((slideD (ns.getD i 0 + 2 * ps.getD i 0) (Spec.span (ds.getD i 0) (ks.getD i 0)) (ss.getD i 0) : Nat) : Int)) := by
  have hget : ∀ (xs : List Nat) (i : Nat), (xs.map Int.ofNat).getD i 0 = ((xs.getD i 0 : Nat) : Int) := by
    intro xs i
    simp only [List.getD, List.getElem?_map]
    cases xs[i]? <;> rfl
  unfold natTuple
  rw [calculateConvOutput_ints _ _ _ _ _ (by simp [hp]) (by simp [hd]) (by simp [hk]) (by simp [hs])]
  · congr 1
    simp only [List.length_map]
    apply List.map_congr_left
    intro i hi
    have hi' : i < ns.length := by simpa using hi
    obtain ⟨h1, h2, h3⟩ := hok i hi'
    rw [hget, hget, hget, hget, hget, axis _ _ _ _ _ h1 h2 h3]
    unfold slideD
    rw [dif_pos h1]
  · intro i hi
    have hi' : i < ns.length := by simpa using hi
    rw [hget]
    have := (hok i hi').1
    omega

/-- **Container forms are interchangeable**: any two argument tuples with the same integer
readings (scalar, tuple, list or ndarray of any integer dtype; Python or numpy integers) give the
same result. -/
theorem forms (v v' p p' d d' k k' s s' : Val) (xs : List Int)
    (hv : IntReading v xs) (hv' : IntReading v' xs)
    (hp : SameIdx xs.length p p') (hd : SameIdx xs.length d d') (hk : SameIdx xs.length k k')
    (hs : SameIdx xs.length s s') (hps : NotStr p) (hps' : NotStr p') :
    calculateConvOutput v p d k s = calculateConvOutput v' p' d' k' s' :=
  calculateConvOutput_forms v v' p p' d d' k k' s s' xs hv hv' hp hd hk hs hps hps'

/-- instances of the reading relation: tuples and lists of Python / numpy integers, and rank-1
integer ndarrays of any dtype -/
theorem reads_tuple (ys : List Val) (xs : List Int) (h : ys.mapM Val.asInt? = some xs) : IntReading (.tuple ys) xs :=
  reading_tuple ys xs h
theorem reads_list (ys : List Val) (xs : List Int) (h : ys.mapM Val.asInt? = some xs) : IntReading (.list ys) xs :=
  reading_list ys xs h
theorem reads_ndarray (dt : DType) (n : Nat) (d : Bytes) (hint : dt.isInteger = true)
    (hw : n = (decodeInts dt d).length) : IntReading (.arr dt [n] d) (decodeInts dt d) :=
  reading_arr dt n d hint hw

/-- a scalar hyper-parameter stands for the tuple repeating it on every axis -/
theorem scalar_form (v : Val) (a : Int) (n : Nat) (h : Val.asInt? v = some a) :
    SameIdx n v (.tuple (List.replicate n (.int a))) := sameIdx_scalar v a n h

/-- `'same'` keeps the spatial size; `'valid'` is zero padding. -/
theorem same_keeps (v d k s : Val) (xs : List Int) (hv : IntReading v xs) :
    calculateConvOutput v (.str "same") d k s = .ok xs := calculateConvOutput_same v d k s xs hv

theorem valid_is_zero (v d k s : Val) (xs : List Int) (hv : IntReading v xs) :
    calculateConvOutput v (.str "valid") d k s =
      calculateConvOutput v (.list (List.replicate xs.length (.int 0))) d k s :=
  calculateConvOutput_valid v d k s xs hv

/-- Non-vacuity: a 9×7 input, padding (1,0), dilation (2,1), kernel (3,2), stride (2,3). -/
example : calculateConvOutput (natTuple [9, 7]) (natTuple [1, 0]) (natTuple [2, 1]) (natTuple [3, 2]) (natTuple [2, 3])
    = .ok [4, 2] := by decide +kernel

end NirVerif.C06
