import NirVerif.Properties.C16
import NirVerif.Generated.ObserverEffects
import NirVerif.Generated.Fields

/-! # C16 — metadata of one node cannot reach another through library state (translator item T16)

In the model metadata is a value held by one node.  For the real objects "the metadata of a node is its own" additionally
needs that no dictionary is shared between nodes by the library itself: no mutable default argument or memoised table that
hands the same `{}` to every node read without metadata, no cache of parsed files.  T16 lists every such construct under
`nir/`; T1 (the generated field table) shows `metadata` declared with a `default_factory`, i.e. a fresh dictionary per
constructed node. -/
namespace NirVerif.C16
open NirVerif.Generated

/-- nothing under `nir/` keeps state between calls through which one node's metadata could reach another node or a later read -/
theorem no_shared_metadata_generated : ObserverEffects.sharedState = [] := by decide

end NirVerif.C16
