import NirVerif.Lemmas.FileForm
import NirVerif.Lemmas.Inference
import NirVerif.Lemmas.MetaInert

/-! # C16 — metadata is carried faithfully and is semantically inert

About `Model.writeRecursiveFuel` / `Model.hdf2dict` (metadata is an ordinary dictionary entry
written by the generic recursive writer) and `Model.stepNode` / `Model.checkEdge` (types,
type check and inference never look at metadata).  Whole-file inertness (all other datasets
identical with and without metadata) is compared on raw traversals by the oracle on every run. -/
namespace NirVerif.C16
open NirVerif NirVerif.Py NirVerif.Model NirVerif.Lemmas

/-- what a metadata leaf of a recommended kind reads back as: equal as a number / array / string -/
def metaBack : Val → Option Val
  | .str s => some (.str s)
  | .int i => some (.npscalar DType.int64 (encodeInt DType.int64 i))
  | .float bits => some (.npscalar DType.float64 bits)
  | .bool b => some (.npscalar DType.bool_ [if b then 1 else 0])
  | .arr dt (n :: sh) d => some (.arr dt (n :: sh) d)
  | _ => none

/-- the dataset made of a metadata leaf loads back as `metaBack` says -/
theorem leaf_back (v v' : Val) (hv : metaBack v = some v')
    (hstr : ∀ s, v = .str s → ¬ s.toList.contains (Char.ofNat 0))
    (hint : ∀ i, v = .int i → fitsInt DType.int64 i = true)
    (harr : ∀ dt sh d, v = .arr dt sh d → dt.kind ≠ .object ∧ dt.kind ≠ .unicodeU) :
    (h5Create v).map h5Load = some v' := by
  cases v with
  | str s =>
    simp only [metaBack, Option.some.injEq] at hv; subst hv
    have := hstr s rfl
    simp only [h5Create, this, Bool.false_eq_true, if_false]; rfl
  | int i =>
    simp only [metaBack, Option.some.injEq] at hv; subst hv
    have hi := hint i rfl
    simp only [DType.int64] at hi
    simp [h5Create, scalarItem, hi, h5Load, DType.int64]
  | float bits =>
    simp only [metaBack, Option.some.injEq] at hv; subst hv
    simp [h5Create, scalarItem, h5Load, DType.float64]
  | bool b =>
    simp only [metaBack, Option.some.injEq] at hv; subst hv
    simp [h5Create, scalarItem, h5Load, DType.bool_]
  | arr dt sh d =>
    cases sh with
    | nil => simp [metaBack] at hv
    | cons n rest =>
      simp only [metaBack, Option.some.injEq] at hv; subst hv
      obtain ⟨h1, h2⟩ := harr dt (n :: rest) d rfl
      have hc : h5Create (.arr dt (n :: rest) d) = some (.num dt (n :: rest) d) := by
        unfold h5Create; split <;> simp_all
      simp [hc, h5Load]
  | _ => simp [metaBack] at hv

/-- **Carried**: every leaf of a metadata tree — any nesting depth, on a graph or on a node at
any depth (`path` may start with `nodes/<name>/…`) — is returned under the same keys and
nesting, equal as a string / number / array. -/
theorem carried (path : List String) (fuel : Nat) (kvs : List (String × Val)) (items : List (String × H5))
    (h : writeRecursiveFuel fuel kvs [] = .ok items) (hne : path ≠ []) (hlast : path.getLast? ≠ some "metadata")
    (v v' : Val) (hp : getPath (.dict kvs) path = some v) (hv : metaBack v = some v')
    (hstr : ∀ s, v = .str s → ¬ s.toList.contains (Char.ofNat 0))
    (hint : ∀ i, v = .int i → fitsInt DType.int64 i = true)
    (harr : ∀ dt sh d, v = .arr dt sh d → dt.kind ≠ .object ∧ dt.kind ≠ .unicodeU) :
    getPath (hdf2dict (.group items)) path = some v' := by
  have hleaf : ∀ d, v ≠ .dict d := by intro d hd; subst hd; simp [metaBack] at hv
  obtain ⟨ds, hc, hg⟩ := path_roundtrip path fuel kvs items h hne hlast v hp hleaf
  have := leaf_back v v' hv hstr hint harr
  rw [hc] at this
  simp only [Option.map_some, Option.some.injEq] at this
  rw [hg, this]

/-- no key appears that the metadata dictionary does not have -/
theorem no_extra_keys (fuel : Nat) (kvs : List (String × Val)) (items : List (String × H5))
    (h : writeRecursiveFuel fuel kvs [] = .ok items) (k : String) (hk : lookup k kvs = none) :
    lookup k (hdf2dict.hdf2dictItems items) = none := by
  rw [hdf2dict_lookup, write_no_extra fuel kvs [] items h k hk]; rfl

/-- **Inert in the file**: the dataset stored for any other entry of a node depends only on
that entry — two dictionaries that agree on key `k` store the same member under `k`, whatever
their `metadata` (attached, changed or removed). -/
theorem inert_members (fuel fuel' : Nat) (kvs kvs' : List (String × Val)) (items items' : List (String × H5))
    (h : writeRecursiveFuel fuel kvs [] = .ok items) (h' : writeRecursiveFuel fuel' kvs' [] = .ok items')
    (k : String) (v : Val) (hk : lookup k kvs = some v) (hk' : lookup k kvs' = some v)
    (hnm : k ≠ "metadata") (hnd : ∀ d, v ≠ .dict d) :
    lookup k items = lookup k items' := by
  obtain ⟨ds, hc, hl⟩ := write_lookup fuel kvs [] items h k v hk hnm hnd
  obtain ⟨ds', hc', hl'⟩ := write_lookup fuel' kvs' [] items' h' k v hk' hnm hnd
  rw [hc] at hc'; cases hc'
  rw [hl, hl']

/-- **Inert for types**: one loop body of inference never changes or reads metadata … -/
theorem inert_inference (pre post : Node) : (stepNode pre post).1.metadata = post.metadata :=
  (stepNode_frame pre post).2.1

/-- … and whole-graph inference returns every node's metadata, and the graph's, untouched. -/
theorem inert_infer_types (g : Node) :
    (inferTypes g).1.metadata = g.metadata ∧
    ∀ k n0, lookup k g.children = some n0 → ∃ n, lookup k (inferTypes g).1.children = some n ∧ n.metadata = n0.metadata := by
  simp only [inferTypes]
  split
  · exact ⟨rfl, fun k n0 h => ⟨n0, h, rfl⟩⟩
  · have hf := forwardInference_frameInv g
    cases g with
    | mk k f i o m c e =>
      refine ⟨rfl, ?_⟩
      intro k n0 h0
      obtain ⟨n, hn, hfr⟩ := hf.2 k n0 h0
      exact ⟨n, hn, hfr.2.1⟩

/-- **Construction-time types do not depend on metadata**: for every primitive, attaching or
changing the `metadata` keyword changes the constructed node in its `metadata` field only (and
cannot turn a rejected parameter set into an accepted one or vice versa). -/
theorem inert_construction (kind : String) (f : List (String × Val)) (m : Val) :
    postInit kind (Py.insert "metadata" m f) = (postInit kind f).map (fun n => Node.setMeta n m) :=
  postInit_meta kind f m

/-- **The inference loop body is blind to metadata**: with *any* metadata on the two nodes the
step computes the same types, the same `input_shape`, and raises the same error. -/
theorem inert_step (pre post : Node) (m1 m2 : Val) :
    stepNode (Node.setMeta pre m1) (Node.setMeta post m2) =
      (Node.setMeta (stepNode pre post).1 m2, (stepNode pre post).2) :=
  stepNode_setMeta pre post m1 m2

theorem lookup_mapMeta (μ : String → Val) (k : String) (nodes : Nodes) :
    lookup k (nodes.map fun kv => (kv.1, Node.setMeta kv.2 (μ kv.1))) = (lookup k nodes).map (fun n => Node.setMeta n (μ k)) := by
  induction nodes with
  | nil => rfl
  | cons kv rest ih =>
    obtain ⟨k0, n0⟩ := kv
    by_cases h : (k0 == k) = true
    · have : k0 = k := by simpa using h
      subst this
      simp [lookup]
    · have h' : (k0 == k) = false := by simpa using h
      simp only [List.map_cons, lookup, h', Bool.false_eq_true, if_false, ih]

/-- **The type check is blind to metadata**: replacing the metadata of every node (by any
assignment `μ` of metadata to node names) leaves the verdict on every edge unchanged. -/
theorem inert_check (μ : String → Val) (nodes : Nodes) (e : Edge) :
    checkEdge (nodes.map fun kv => (kv.1, Node.setMeta kv.2 (μ kv.1))) e = checkEdge nodes e := by
  unfold checkEdge
  rw [lookup_mapMeta, lookup_mapMeta]
  cases lookup e.1 nodes <;> cases lookup e.2 nodes <;>
    simp only [Option.map, setMeta_isKind, setMeta_outputType, setMeta_inputType]

/-- Non-vacuity: a nested tree with a unicode key, an int, a bool and an array under a node. -/
example : metaBack (.int 159) = some (.npscalar DType.int64 (encodeInt DType.int64 159)) ∧
    getPath (.dict [("nodes", .dict [("n", .dict [("metadata", .dict [("键", .dict [("depth", .int 159)])])])])])
      ["nodes", "n", "metadata", "键", "depth"] = some (.int 159) := by
  constructor <;> rfl

end NirVerif.C16
