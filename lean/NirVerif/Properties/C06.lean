import NirVerif.Lemmas.Conv
import NirVerif.Generated.ConvAxis

/-! # C06 — convolution / pooling output shapes are arithmetically exact (per-axis kernel)

The theorems are about `Generated.convAxis`, which the translator re-derives from
`nir/ir/utils.py::calculate_conv_output` on every run. -/
namespace NirVerif.C06
open NirVerif

/-- The formula in the source equals the number of positions at which the dilated kernel
fits inside the zero-padded input when stepped by the stride — whenever it fits at all. -/
theorem axis (n p d k s : Nat) (hs : 0 < s) (hk : 1 ≤ k) (hfit : Spec.span d k ≤ n + 2 * p) :
    Generated.convAxis n p d k s = (Spec.slide (n + 2 * p) (Spec.span d k) s hs : Int) := by
  unfold Generated.convAxis
  rw [Rat.floor_add_one]
  have h : ((((n : Int) : Rat) + 2 * ((p : Int) : Rat)) - ((d : Int) : Rat) * (((k : Int) : Rat) - 1)) - 1
      = (((n : Int) + 2 * (p : Int) - (d : Int) * ((k : Int) - 1) - 1 : Int) : Rat) := by
    push_cast; ring
  rw [h, Lemmas.floor_div _ _ (by exact_mod_cast hs), Lemmas.slide_eq _ _ _ hs hfit]
  unfold Spec.span at *
  have : (n : Int) + 2 * p - d * ((k : Int) - 1) - 1 = ((n + 2 * p - (d * (k - 1) + 1) : Nat) : Int) := by
    obtain ⟨k', rfl⟩ : ∃ k', k = k' + 1 := ⟨k - 1, by omega⟩
    simp at *; omega
  rw [this]; push_cast; rfl

/-- When the kernel does not fit even once there are no positions, and the formula
reports a non-positive size (never a spurious positive one). -/
theorem axis_no_fit (n p d k s : Nat) (hs : 0 < s) (hk : 1 ≤ k) (hfit : ¬ Spec.span d k ≤ n + 2 * p) :
    Generated.convAxis n p d k s ≤ 0 ∧ Spec.slide (n + 2 * p) (Spec.span d k) s hs = 0 := by
  refine ⟨?_, Lemmas.slide_eq_zero _ _ _ hs hfit⟩
  unfold Generated.convAxis
  rw [Rat.floor_add_one]
  have h : ((((n : Int) : Rat) + 2 * ((p : Int) : Rat)) - ((d : Int) : Rat) * (((k : Int) : Rat) - 1)) - 1
      = (((n : Int) + 2 * (p : Int) - (d : Int) * ((k : Int) - 1) - 1 : Int) : Rat) := by
    push_cast; ring
  rw [h, Lemmas.floor_div _ _ (by exact_mod_cast hs)]
  unfold Spec.span at hfit
  have hneg : (n : Int) + 2 * p - d * ((k : Int) - 1) - 1 < 0 := by
    obtain ⟨k', rfl⟩ : ∃ k', k = k' + 1 := ⟨k - 1, by omega⟩
    simp at *; omega
  have : ((n : Int) + 2 * p - d * ((k : Int) - 1) - 1) / (s : Int) < 0 :=
    Int.ediv_neg_of_neg_of_pos hneg (by exact_mod_cast hs)
  omega

/-- Non-vacuity: dilation 2, kernel 3, stride 2, padding 1 on 9 cells: 4 positions. -/
example : Generated.convAxis 9 1 2 3 2 = 4 ∧ Spec.slide 11 (Spec.span 2 3) 2 (by decide) = 4 := by
  constructor
  · decide +kernel
  · rw [Lemmas.slide_eq _ _ _ _ (by decide)]; decide

end NirVerif.C06
