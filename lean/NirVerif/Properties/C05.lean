import NirVerif.Model.Node
import NirVerif.Spec.TensorShape

/-! # C05 — declared node types equal the shapes the primitive's mathematics implies

About `Model.postInit` / `Model.construct` (hand-written model of every `__post_init__`, over
the *generated* field table; tied to the constructors by the `nodes` correspondence suite).
`Spec.matvecShape` / `Spec.elementwiseShape` are the shape relations of the documented
equations.  Stability under dict / file round trips: see C13 / C01. -/
namespace NirVerif.C05
open NirVerif NirVerif.Py NirVerif.Model

/-- the declared type is a single-entry dictionary holding an int64 vector equal to `s` -/
def Declares (t : Val) (key : String) (s : List Nat) : Prop :=
  t = .dict [(key, .arr DType.int64 [s.length] (encodeInts DType.int64 (s.map Int.ofNat)))]

theorem declares_shapeVal (key : String) (s : List Nat) : Declares (typeDict key (shapeVal s)) key s := by
  simp [Declares, typeDict, shapeVal, Val.ofInts]

/-- Affine / Linear: for a weight of shape `batch ++ [m, n]` (rank ≥ 2) the node is built and
declares input `batch ++ [n]`, output `batch ++ [m]` as int64 vectors — exactly the operand
the matrix–vector product over leading batch dimensions consumes and the result it produces. -/
theorem affine_linear (kind : String) (hk : kind = "Affine" ∨ kind = "Linear")
    (f : List (String × Val)) (dt : DType) (batch : List Nat) (m n : Nat) (d : Bytes)
    (hw : lookup "weight" f = some (.arr dt (batch ++ [m, n]) d)) :
    ∃ node, postInit kind f = .ok node ∧
      Declares node.inputType "input" (batch ++ [n]) ∧ Declares node.outputType "output" (batch ++ [m]) ∧
      (∀ x, (Spec.matvecShape (batch ++ [m, n]) x).isSome ↔ x = batch ++ [n]) ∧
      Spec.matvecShape (batch ++ [m, n]) (batch ++ [n]) = some (batch ++ [m]) := by
  have hlen : (batch ++ [m, n]).length = batch.length + 2 := by simp
  have htake : List.take (batch.length + 2 - 2) (batch ++ [m, n]) = batch := by simp
  have h1 : (batch ++ [m, n])[batch.length + 2 - 1]?.getD 0 = n := by
    simp
  have h2 : (batch ++ [m, n])[batch.length + 2 - 2]?.getD 0 = m := by
    simp
  have hspec : ∀ x, Spec.matvecShape (batch ++ [m, n]) x = if x = batch ++ [n] then some (batch ++ [m]) else none := by
    intro x; simp [Spec.matvecShape]
  refine ⟨Node.mk kind (f.filter fun kv => kv.1 != "input_type" && kv.1 != "output_type" && kv.1 != "metadata")
    (typeDict "input" (shapeVal (batch ++ [n]))) (typeDict "output" (shapeVal (batch ++ [m])))
    ((lookup "metadata" f).getD (.dict [])) [] [], ?_, declares_shapeVal _ _, declares_shapeVal _ _, ?_, ?_⟩
  · rcases hk with rfl | rfl <;>
      simp [postInit, hw, getShape, Val.shape?, bind, Except.bind, pure, Except.pure, hlen]
  · intro x; rw [hspec]; split <;> simp_all
  · rw [hspec]; simp


/-- Element-wise primitives with one parameter: the declared types are the parameter's shape
(any rank, rank 0 included) as int64 vectors — the shape on which `x ⊙ p` / `x > p` /
`x(t-p)` is defined and which it produces. -/
theorem elementwise1 (kind field : String)
    (hk : (kind, field) ∈ [("Scale", "scale"), ("Threshold", "threshold"), ("Delay", "delay"), ("I", "r")])
    (f : List (String × Val)) (dt : DType) (sh : List Nat) (d : Bytes)
    (hp : lookup field f = some (.arr dt sh d)) :
    ∃ node, postInit kind f = .ok node ∧
      Declares node.inputType "input" sh ∧ Declares node.outputType "output" sh ∧
      (∀ x, (Spec.elementwiseShape sh x).isSome ↔ x = sh) ∧ Spec.elementwiseShape sh sh = some sh := by
  refine ⟨Node.mk kind (f.filter fun kv => kv.1 != "input_type" && kv.1 != "output_type" && kv.1 != "metadata")
    (typeDict "input" (shapeVal sh)) (typeDict "output" (shapeVal sh))
    ((lookup "metadata" f).getD (.dict [])) [] [], ?_, declares_shapeVal _ _, declares_shapeVal _ _, ?_, ?_⟩
  · simp only [List.mem_cons, Prod.mk.injEq, List.mem_nil_iff, or_false] at hk
    rcases hk with ⟨rfl, rfl⟩ | ⟨rfl, rfl⟩ | ⟨rfl, rfl⟩ | ⟨rfl, rfl⟩ <;>
      simp [postInit, hp, getShape, Val.shape?, bind, Except.bind, pure, Except.pure, elementwiseTypes]
  · intro x; simp [Spec.elementwiseShape]
  · simp [Spec.elementwiseShape]

/-- Neuron models: when all parameter arrays have the common shape `sh`, the node is built
and declares `sh` on both sides. -/
theorem neuron (kind : String) (fields : List String)
    (hk : (kind, fields) ∈ [("IF", ["r", "v_threshold"]), ("LI", ["tau", "r", "v_leak"]),
                            ("LIF", ["tau", "r", "v_leak", "v_threshold"])])
    (f : List (String × Val)) (sh : List Nat)
    (hp : ∀ fld ∈ fields, ∃ dt d, lookup fld f = some (.arr dt sh d)) :
    ∃ node, postInit kind f = .ok node ∧
      Declares node.inputType "input" sh ∧ Declares node.outputType "output" sh := by
  refine ⟨Node.mk kind (f.filter fun kv => kv.1 != "input_type" && kv.1 != "output_type" && kv.1 != "metadata")
    (typeDict "input" (shapeVal sh)) (typeDict "output" (shapeVal sh))
    ((lookup "metadata" f).getD (.dict [])) [] [], ?_, declares_shapeVal _ _, declares_shapeVal _ _⟩
  simp only [List.mem_cons, Prod.mk.injEq, List.mem_nil_iff, or_false] at hk
  rcases hk with ⟨rfl, rfl⟩ | ⟨rfl, rfl⟩ | ⟨rfl, rfl⟩
  · obtain ⟨d1, b1, h1⟩ := hp "r" (by simp)
    obtain ⟨d2, b2, h2⟩ := hp "v_threshold" (by simp)
    simp [postInit, h1, h2, assertSameShape, getShape, Val.shape?, bind, Except.bind, pure, Except.pure,
      elementwiseTypes, List.mapM_cons, List.mapM_nil]
  · obtain ⟨d1, b1, h1⟩ := hp "tau" (by simp)
    obtain ⟨d2, b2, h2⟩ := hp "r" (by simp)
    obtain ⟨d3, b3, h3⟩ := hp "v_leak" (by simp)
    simp [postInit, h1, h2, h3, assertSameShape, getShape, Val.shape?, bind, Except.bind, pure, Except.pure,
      elementwiseTypes, List.mapM_cons, List.mapM_nil]
  · obtain ⟨d1, b1, h1⟩ := hp "tau" (by simp)
    obtain ⟨d2, b2, h2⟩ := hp "r" (by simp)
    obtain ⟨d3, b3, h3⟩ := hp "v_leak" (by simp)
    obtain ⟨d4, b4, h4⟩ := hp "v_threshold" (by simp)
    simp [postInit, h1, h2, h3, h4, assertSameShape, getShape, Val.shape?, bind, Except.bind, pure, Except.pure,
      elementwiseTypes, List.mapM_cons, List.mapM_nil]

/-- Input / Output given an integer ndarray shape: identity — both sides carry that very
array. -/
theorem io_ndarray (dt : DType) (n : Nat) (d : Bytes) (md : Val) :
    (∃ node, construct "Input" [("input_type", .arr dt [n] d), ("metadata", md)] = .ok node ∧
      node.inputType = typeDict "input" (.arr dt [n] d) ∧ node.outputType = typeDict "output" (.arr dt [n] d)) ∧
    (∃ node, construct "Output" [("output_type", .arr dt [n] d), ("metadata", md)] = .ok node ∧
      node.inputType = typeDict "input" (.arr dt [n] d) ∧ node.outputType = typeDict "output" (.arr dt [n] d)) := by
  constructor <;>
  · simp [construct, Generated.classFields, lookup, bindKwargs, bindAll, bindOne, hasKey, postInit, parseShapeArgument, getItem,
      typeDict, bind, Except.bind, pure, Except.pure, List.mapM_cons, List.mapM_nil, Node.inputType, Node.outputType]

theorem mapM_asInt_ints (s : List Nat) :
    List.mapM (Val.asInt? ∘ fun k : Nat => Val.int (k : Int)) s = some (s.map Int.ofNat) := by
  induction s with
  | nil => rfl
  | cons x xs ih => simp [List.mapM_cons, Val.asInt?, ih]

theorem all_isInt (s : List Nat) :
    (s.map fun k => Val.int (Int.ofNat k)).all (fun v => match v with | .int _ => true | _ => false) = true := by
  induction s with
  | nil => rfl
  | cons x xs ih => simp [ih]

/-- Input / Output given a non-empty list or tuple of Python ints: the shape is normalised to
an int64 vector and mirrored to the other side. -/
theorem io_sequence (s : List Nat) (hs : s ≠ []) (asTuple : Bool) :
    let arg := if asTuple then Val.tuple (s.map fun k => Val.int (Int.ofNat k))
               else Val.list (s.map fun k => Val.int (Int.ofNat k))
    (∃ node, construct "Input" [("input_type", arg)] = .ok node ∧
      Declares node.inputType "input" s ∧ Declares node.outputType "output" s) ∧
    (∃ node, construct "Output" [("output_type", arg)] = .ok node ∧
      Declares node.inputType "input" s ∧ Declares node.outputType "output" s) := by
  have hne : (s.map Int.ofNat).isEmpty = false := by cases s <;> simp_all
  have h1 := mapM_asInt_ints s
  have h2 := all_isInt s
  cases asTuple <;> constructor <;>
  · simp [construct, Generated.classFields, lookup, bindKwargs, bindAll, bindOne, hasKey, postInit, parseShapeArgument, getItem,
      typeDict, bind, Except.bind, pure, Except.pure, List.mapM_cons, List.mapM_nil, Node.inputType, Node.outputType,
      h1, h2, shapeArray, hs, Declares, Val.ofInts]

/-- Non-vacuity: a batched weight (2,3,4,5): input [2,3,5], output [2,3,4]. -/
example : ∃ node, postInit "Linear" [("weight", .arr DType.float64 [2, 3, 4, 5] [])] = .ok node ∧
    Declares node.inputType "input" [2, 3, 5] ∧ Declares node.outputType "output" [2, 3, 4] := by
  obtain ⟨node, h1, h2, h3, _⟩ := affine_linear "Linear" (Or.inr rfl) [("weight", .arr DType.float64 [2, 3, 4, 5] [])]
    DType.float64 [2, 3] 4 5 [] (by simp [lookup])
  exact ⟨node, h1, h2, h3⟩

end NirVerif.C05
