import NirVerif.Properties.C14
import NirVerif.Properties.C01
import NirVerif.Properties.C13Nested
import NirVerif.Lemmas.InferencePerm

/-! # C14 — the round trips *do* return a graph inference treats alike

`C14.commute_keyed` is conditional: *if* the graph that comes back from a round trip is still locally consistent with the
typing `τ`, inferring it gives `τ` again.  Here the condition is discharged inside the model, from the exactness theorems
of C13 and C01:

* `dict_roundtrip_commutes` — for graphs nested to any depth whose leaves the dictionary form reproduces exactly
  (`ExactTree`, C13), `from_dict(to_dict(g))` **is** `g`, so inference on it is inference on `g`: same nodes, same types,
  same error, whatever `g` is (no consistency hypothesis at all);
* `file_roundtrip_commutes` — for a flat graph of file-exact nodes (`C01.FileExact`) that is consistent with `τ`
  (`InferableK`), whenever `write` succeeds and `read` returns a graph, that graph is again `InferableK` for the same `τ`
  (the file lists the nodes by name, so the node dictionary comes back permuted — `inferableK_perm`), hence inferring it
  gives every node the types `τ`, which is what inferring the original gives, and both pass the type check.

What stays with the `histories` suite: that the real `read` / `from_dict` behave like the model's (the correspondence), and
graphs outside `FileExact` (metadata on the graph, nested graphs through a file). -/
namespace NirVerif.C14
open NirVerif NirVerif.Py NirVerif.Model NirVerif.Lemmas

/-- a dictionary without repeated keys answers look-ups the same in any order -/
theorem lookup_perm {α : Type} {a b : List (String × α)} (h : a.Perm b) (ha : (a.map Prod.fst).Nodup) (k : String) :
    lookup k a = lookup k b := by
  induction h with
  | nil => rfl
  | cons x _ ih =>
    simp only [List.map_cons, List.nodup_cons] at ha
    obtain ⟨k', v⟩ := x
    simp only [lookup]
    rw [ih ha.2]
  | swap x y l =>
    simp only [List.map_cons, List.nodup_cons, List.mem_cons, not_or] at ha
    obtain ⟨⟨hne, _⟩, _⟩ := ha
    obtain ⟨kx, vx⟩ := x
    obtain ⟨ky, vy⟩ := y
    simp only [lookup]
    by_cases h1 : (ky == k) = true <;> by_cases h2 : (kx == k) = true <;> simp_all
  | trans h1 _ ih1 ih2 =>
    rw [ih1 ha, ih2 ((h1.map Prod.fst).nodup_iff.mp ha)]

theorem mem_inputs_perm {cs children : Nodes} (hperm : cs.Perm children) (a : String) :
    a ∈ (cs.filter (fun kv => kv.2.isKind "Input")).map Prod.fst ↔
    a ∈ (children.filter (fun kv => kv.2.isKind "Input")).map Prod.fst :=
  ((hperm.filter _).map Prod.fst).mem_iff

theorem reach_congr (edges : List Edge) (i1 i2 : List String) (h : ∀ a, a ∈ i1 → a ∈ i2) (k : String)
    (hr : Reach edges i1 k) : Reach edges i2 k := by
  induction hr with
  | start he ha => exact Reach.start he (h _ ha)
  | step he _ ih => exact Reach.step he ih

/-- local consistency with a typing does not depend on the order of the node dictionary -/
theorem inferableK_perm (g g' : Node) (τ : String → List Int × List Int)
    (hperm : g'.children.Perm g.children) (hedges : g'.edges = g.edges) (h : InferableK g τ) : InferableK g' τ := by
  have hk' : (g'.children.map Prod.fst).Nodup := (hperm.map Prod.fst).nodup_iff.mpr h.keys
  have hl : ∀ k, lookup k g'.children = lookup k g.children := fun k => lookup_perm hperm hk' k
  refine ⟨hk', ?_, ?_, ?_, ?_, ?_, ?_, ?_⟩
  · intro e he
    rw [hedges] at he
    obtain ⟨a, b, h1, h2, h3⟩ := h.flat e he
    exact ⟨a, b, by rw [hl]; exact h1, by rw [hl]; exact h2, h3⟩
  · intro k n hn; rw [hl] at hn; exact h.leaf k n hn
  · have hne := h.hasInput
    simp only [graphInputs] at hne ⊢
    cases hf : g.children.filter (fun kv => kv.2.isKind "Input") with
    | nil => rw [hf] at hne; simp at hne
    | cons x rest =>
      have hx : x ∈ g.children.filter (fun kv => kv.2.isKind "Input") := by rw [hf]; exact List.mem_cons_self
      have hx' : x ∈ g'.children.filter (fun kv => kv.2.isKind "Input") := (hperm.filter _).mem_iff.mpr hx
      cases hf' : g'.children.filter (fun kv => kv.2.isKind "Input") with
      | nil => rw [hf'] at hx'; cases hx'
      | cons _ _ => rfl
  · intro k n hn
    rw [hl] at hn
    rcases h.reach k n hn with hi | hr
    · exact Or.inl hi
    · refine Or.inr ?_
      rw [hedges]
      exact reach_congr g.edges _ _ (fun a ha => (mem_inputs_perm hperm a).mpr ha) k hr
  · intro k n hn; rw [hl] at hn; exact h.nodes k n hn
  · intro k n hn; rw [hl] at hn; exact h.sources k n hn
  · intro e he; rw [hedges] at he; exact h.consistent e he

/-- **The dictionary round trip commutes with inference, outright**: for a graph (nested to any depth) whose leaves the
dictionary form reproduces exactly, inferring `from_dict(to_dict(g))` is inferring `g`. -/
theorem dict_roundtrip_commutes (g : Node) (h : ExactTree g) :
    ∃ g', (toDict g).bind fromDict = .ok g' ∧ inferTypes g' = inferTypes g :=
  ⟨g, C13.nested_roundtrip_exact g h, rfl⟩

/-- **The file round trip commutes with inference**: a flat graph of file-exact nodes that is consistent with `τ`; whenever
it is written and read back, inferring what comes back gives every node the types `τ` — as inferring the original does —
without error, and both results pass the type check. -/
theorem file_roundtrip_commutes (version : String) (children : Nodes) (edges : List Edge) (it ot : Val)
    (τ : String → List Int × List Int)
    (hex : ∀ k n, lookup k children = some n → C01.FileExact n)
    (hinf : InferableK (Node.mk "NIRGraph" [] it ot (.dict []) children edges) τ)
    (f : H5) (hwr : write version (Node.mk "NIRGraph" [] it ot (.dict []) children edges) = .ok f)
    (g' : Node) (hrd : read f = .ok g') :
    InferableK g' τ ∧
    ∀ k n0, lookup k children = some n0 →
      ∃ n n', lookup k (inferTypes (Node.mk "NIRGraph" [] it ot (.dict []) children edges)).1.children = some n ∧
        lookup k (inferTypes g').1.children = some n' ∧ HasTypesK n (τ k) ∧ HasTypesK n' (τ k) ∧
        (inferTypes (Node.mk "NIRGraph" [] it ot (.dict []) children edges)).2 = none ∧ (inferTypes g').2 = none ∧
        checkTypes (inferTypes (Node.mk "NIRGraph" [] it ot (.dict []) children edges)).1 = .ok true ∧
        checkTypes (inferTypes g').1 = .ok true := by
  obtain ⟨cs, hg, hperm⟩ := C01.graph_file_exact version children edges it ot hinf.keys hex f hwr g' hrd
  have hg'inf : InferableK g' τ := by
    apply inferableK_perm (Node.mk "NIRGraph" [] it ot (.dict []) children edges) g' τ _ _ hinf
    · rw [hg]; exact hperm
    · rw [hg]; rfl
  refine ⟨hg'inf, ?_⟩
  intro k n0 hk
  have hk' : lookup k g'.children = some n0 := by
    rw [hg]
    have : (mkGraph cs edges (.dict [])).children = cs := rfl
    rw [this, lookup_perm hperm ((hperm.map Prod.fst).nodup_iff.mpr hinf.keys) k]
    exact hk
  exact commute_keyed _ g' τ hinf hg'inf k n0 n0 hk hk'

/-- the verdict of one edge depends on the node dictionary through look-ups only -/
theorem checkEdge_congr (n1 n2 : Nodes) (h : ∀ k, lookup k n1 = lookup k n2) (e : Edge) : checkEdge n1 e = checkEdge n2 e := by
  simp only [checkEdge, h]

/-- **The type check commutes with the file round trip**: for a flat graph of file-exact nodes — consistent or not — whatever
`read(write(g))` returns gets the same verdict as `g`: `True`, or the same first error in edge order. -/
theorem check_file_roundtrip (version : String) (children : Nodes) (edges : List Edge) (it ot : Val)
    (hkeys : (children.map Prod.fst).Nodup)
    (hex : ∀ k n, lookup k children = some n → C01.FileExact n)
    (f : H5) (hwr : write version (Node.mk "NIRGraph" [] it ot (.dict []) children edges) = .ok f)
    (g' : Node) (hrd : read f = .ok g') :
    checkTypes g' = checkTypes (Node.mk "NIRGraph" [] it ot (.dict []) children edges) := by
  obtain ⟨cs, hg, hperm⟩ := C01.graph_file_exact version children edges it ot hkeys hex f hwr g' hrd
  have hl : ∀ k, lookup k cs = lookup k children := fun k => lookup_perm hperm ((hperm.map Prod.fst).nodup_iff.mpr hkeys) k
  have hfe : ∀ es : List Edge, forEachEdge (checkEdge cs) es = forEachEdge (checkEdge children) es := by
    intro es
    induction es with
    | nil => rfl
    | cons e rest ih => simp only [forEachEdge, checkEdge_congr cs children hl e, ih]
  rw [hg]
  simp only [checkTypes, mkGraph, Node.children, Node.edges, hfe]

/-- **Inference does not see the order of the node dictionary**: two graphs with the same edges whose node dictionaries are
permutations of each other (no repeated names) infer with the same error, and to node tables in which every name holds the
same node — consistent graphs or not. -/
theorem infer_perm (kd kd' : String) (fl fl' : List (String × Val)) (it ot md it' ot' md' : Val) (c1 c2 : Nodes)
    (edges : List Edge) (hperm : c1.Perm c2) (hk : (c2.map Prod.fst).Nodup) :
    (inferTypes (Node.mk kd fl it ot md c1 edges)).2 = (inferTypes (Node.mk kd' fl' it' ot' md' c2 edges)).2 ∧
    SameLookups (inferTypes (Node.mk kd fl it ot md c1 edges)).1.children
                (inferTypes (Node.mk kd' fl' it' ot' md' c2 edges)).1.children := by
  have hk1 : (c1.map Prod.fst).Nodup := (hperm.map Prod.fst).nodup_iff.mpr hk
  have hl : SameLookups c1 c2 := fun k => lookup_perm hperm hk1 k
  have hin : ∀ x, x ∈ (c1.filter (fun kv => kv.2.isKind "Input")).map Prod.fst ↔
      x ∈ (c2.filter (fun kv => kv.2.isKind "Input")).map Prod.fst := fun x => mem_inputs_perm hperm x
  have hemp : (c1.filter (fun kv => kv.2.isKind "Input")).isEmpty = (c2.filter (fun kv => kv.2.isKind "Input")).isEmpty := by
    have := (hperm.filter (fun kv => kv.2.isKind "Input")).length_eq
    cases h1 : c1.filter (fun kv => kv.2.isKind "Input") <;> cases h2 : c2.filter (fun kv => kv.2.isKind "Input") <;>
      simp_all
  obtain ⟨hr, he⟩ := forward_rel edges c1 c2 hl _ _ hin
  cases hc2 : (c2.filter (fun kv => kv.2.isKind "Input")).isEmpty with
  | true =>
    have hc1 := hemp.trans hc2
    simp only [inferTypes, graphInputs, Node.children, hc1, hc2, if_true]
    exact ⟨trivial, hl⟩
  | false =>
    have hc1 := hemp.trans hc2
    simp only [inferTypes, graphInputs, Node.children, hc1, hc2, Bool.false_eq_true, if_false, forwardInference, Node.edges]
    refine ⟨?_, ?_⟩
    · have := congrArg (fun p => p.2) he
      simpa using this
    · simpa [Node.refreshIO, Node.setChildren, Node.setTypes, Node.children] using hr

/-- **The file round trip commutes with inference on every flat file-exact graph** — consistent or not: whatever
`read(write(g))` returns infers with the same error as `g`, and every name ends up holding the same node. -/
theorem file_roundtrip_infer_any (version : String) (children : Nodes) (edges : List Edge) (it ot : Val)
    (hkeys : (children.map Prod.fst).Nodup)
    (hex : ∀ k n, lookup k children = some n → C01.FileExact n)
    (f : H5) (hwr : write version (Node.mk "NIRGraph" [] it ot (.dict []) children edges) = .ok f)
    (g' : Node) (hrd : read f = .ok g') :
    (inferTypes g').2 = (inferTypes (Node.mk "NIRGraph" [] it ot (.dict []) children edges)).2 ∧
    ∀ k, lookup k (inferTypes g').1.children =
         lookup k (inferTypes (Node.mk "NIRGraph" [] it ot (.dict []) children edges)).1.children := by
  obtain ⟨cs, hg, hperm⟩ := C01.graph_file_exact version children edges it ot hkeys hex f hwr g' hrd
  rw [hg]
  exact infer_perm "NIRGraph" "NIRGraph" [] [] _ _ _ it ot (.dict []) cs children edges hperm hkeys

/-! ## Non-vacuity: the Input → LIF → Output graph of `C01` (with a recurrent edge) meets every hypothesis -/

def exG : Node := Node.mk "NIRGraph" [] (graphInputType C01.exChildren) (graphOutputType C01.exChildren) (.dict [])
  C01.exChildren C01.exEdges
def exTau : String → List Int × List Int := fun _ => ([2], [2])

theorem ex_lookup (k : String) (n : Node) (h : lookup k C01.exChildren = some n) :
    (k = "in" ∧ n = C01.exIn) ∨ (k = "lif" ∧ n = C01.exLif) ∨ (k = "out" ∧ n = C01.exOut) := by
  simp only [C01.exChildren, lookup] at h
  repeat' split at h
  all_goals (first | cases h | skip)
  all_goals (rename_i hk; simp at hk)
  all_goals simp_all

theorem ex_shape : Spec.shapeOfVal (Val.ofInts [2]) = some [2] := by decide +kernel
theorem ex_wf : WFShape (Val.ofInts [2]) := by
  simp only [Val.ofInts, WFShape]; exact ⟨by decide +kernel, by decide⟩

theorem ex_inferable : InferableK exG exTau := by
  have hin : "in" ∈ (graphInputs exG).map Prod.fst := by decide
  have hlif : Reach exG.edges ((graphInputs exG).map Prod.fst) "lif" := Reach.start (a := "in") (by decide) hin
  have hty : ∀ n : Node, n.inputType = typeDict "input" (Val.ofInts [2]) → n.outputType = typeDict "output" (Val.ofInts [2]) →
      HasTypesK n ([2], [2]) := fun n h1 h2 => ⟨⟨_, h1, ex_shape, ex_wf⟩, ⟨_, h2, ex_shape, ex_wf⟩⟩
  refine ⟨by decide, ?_, ?_, by decide, ?_, ?_, ?_, ?_⟩
  · intro e he
    simp only [exG, Node.edges, C01.exEdges, List.mem_cons, List.mem_nil_iff, or_false] at he
    rcases he with rfl | rfl | rfl
    · exact ⟨C01.exIn, C01.exLif, rfl, rfl, by decide, by decide⟩
    · exact ⟨C01.exLif, C01.exOut, rfl, rfl, by decide, by decide⟩
    · exact ⟨C01.exLif, C01.exLif, rfl, rfl, by decide, by decide⟩
  · intro k n h
    rcases ex_lookup k n h with ⟨_, rfl⟩ | ⟨_, rfl⟩ | ⟨_, rfl⟩ <;> decide
  · intro k n h
    rcases ex_lookup k n h with ⟨rfl, rfl⟩ | ⟨rfl, rfl⟩ | ⟨rfl, rfl⟩
    · left; rfl
    · right; exact hlif
    · right; exact Reach.step (a := "lif") (by decide) hlif
  · intro k n h
    have hport : PortVal (Val.ofInts [2]) := Or.inr (by rw [ex_shape]; rfl)
    rcases ex_lookup k n h with ⟨_, rfl⟩ | ⟨_, rfl⟩ | ⟨_, rfl⟩
    · exact ⟨⟨_, rfl, hport, ex_wf⟩, Or.inl ⟨rfl, hty _ rfl rfl⟩⟩
    · refine ⟨⟨_, rfl, hport, ex_wf⟩, ?_⟩
      iterate 6 right
      exact ⟨by decide, _, rfl, ex_shape, ex_wf⟩
    · exact ⟨⟨_, rfl, hport, ex_wf⟩, Or.inr (Or.inl ⟨rfl, rfl⟩)⟩
  · intro k n h hk
    rcases ex_lookup k n h with ⟨_, rfl⟩ | ⟨_, rfl⟩ | ⟨_, rfl⟩
    · exact hty _ rfl rfl
    all_goals simp [Node.isKind, Node.kind, C01.exLif, C01.exOut] at hk
  · intro e _; rfl

/-- the hypotheses of `file_roundtrip_commutes` are met by a graph that is written and read back -/
example : ∃ f g', write "0.2.0" exG = .ok f ∧ read f = .ok g' ∧ InferableK g' exTau ∧
    (inferTypes g').2 = none ∧ checkTypes (inferTypes g').1 = .ok true := by
  have hw : (write "0.2.0" exG).toBool = true := by decide +kernel
  have hr : ((write "0.2.0" exG).bind read).toBool = true := by decide +kernel
  cases hf : write "0.2.0" exG with
  | error e => rw [hf] at hw; cases hw
  | ok f =>
    rw [hf] at hr
    cases hg : read f with
    | error e => simp only [Except.bind, hg] at hr; cases hr
    | ok g' =>
      have hnat : backVal (Val.ofInts [2]) = some (Val.ofInts [2]) := C01.backVal_array _ _ _ _ (by decide)
      have hex : ∀ k n, lookup k C01.exChildren = some n → C01.FileExact n := by
        intro k n hl
        rcases ex_lookup k n hl with ⟨_, rfl⟩ | ⟨_, rfl⟩ | ⟨_, rfl⟩
        · exact C01.FileExact.input _ hnat
        · refine C01.FileExact.simple "LIF" C01.exLifFields C01.exLif (by decide) C01.exLif_built ⟨rfl, rfl⟩ rfl ?_
          intro k v hl
          simp only [C01.exLif, Node.fields, C01.exLifFields, lookup] at hl
          repeat' split at hl
          all_goals (first | cases hl | skip)
          all_goals exact C01.backVal_array _ _ _ _ (by decide)
        · exact C01.FileExact.output _ hnat
      obtain ⟨hinf', hall⟩ := file_roundtrip_commutes "0.2.0" C01.exChildren C01.exEdges _ _ exTau hex ex_inferable f hf g' hg
      obtain ⟨_, _, _, _, _, _, _, h6, _, h8⟩ := hall "lif" C01.exLif rfl
      exact ⟨f, g', rfl, hg, hinf', h6, h8⟩

end NirVerif.C14
