import NirVerif.Model.Node

/-! # C19 — constructors accept exactly the well-formed parameter sets

About `Model.postInit` (hand-written model of each `__post_init__`; tied to the constructors
by the `nodes` correspondence suite, which includes an ill-formed stream). -/
namespace NirVerif.C19
open NirVerif NirVerif.Py NirVerif.Model

def accepted (r : Except PyErr Node) : Prop := ∃ n, r = .ok n

/-- the node's types are fully defined single-entry dictionaries -/
def TypesDefined (n : Node) : Prop :=
  (∃ v, n.inputType = .dict [("input", v)] ∧ v ≠ .none) ∧ (∃ v, n.outputType = .dict [("output", v)] ∧ v ≠ .none)

theorem typesDefined_elementwise (kind : String) (fields : List (String × Val)) (md : Val) (sh : List Nat) :
    TypesDefined (Node.mk kind fields (elementwiseTypes sh).1 (elementwiseTypes sh).2 md [] []) := by
  simp [TypesDefined, elementwiseTypes, typeDict, Node.inputType, Node.outputType, shapeVal, Val.ofInts]

/-- IF is constructed iff its two parameter arrays have one common shape; it raises
AssertionError otherwise, and an accepted node has fully defined types. -/
theorem neuron_IF (f : List (String × Val)) (d1 d2 : DType) (s1 s2 : List Nat) (b1 b2 : Bytes)
    (h1 : lookup "r" f = some (.arr d1 s1 b1)) (h2 : lookup "v_threshold" f = some (.arr d2 s2 b2)) :
    (accepted (postInit "IF" f) ↔ s1 = s2) ∧
    (¬ accepted (postInit "IF" f) → postInit "IF" f = .error .assertionError) ∧
    (∀ n, postInit "IF" f = .ok n → TypesDefined n) := by
  by_cases h : s2 = s1
  · subst h
    refine ⟨?_, ?_, ?_⟩ <;>
      simp [accepted, postInit, h1, h2, assertSameShape, getShape, Val.shape?, bind, Except.bind, pure, Except.pure,
        List.mapM_cons, List.mapM_nil]
    exact typesDefined_elementwise _ _ _ _
  · have h' : ¬ s1 = s2 := fun e => h e.symm
    refine ⟨?_, ?_, ?_⟩ <;>
      simp [accepted, postInit, h1, h2, assertSameShape, getShape, Val.shape?, bind, Except.bind, pure, Except.pure,
        List.mapM_cons, List.mapM_nil, h, h', throw, throwThe, MonadExceptOf.throw]

/-- LI: three arrays, one common shape. -/
theorem neuron_LI (f : List (String × Val)) (d1 d2 d3 : DType) (s1 s2 s3 : List Nat) (b1 b2 b3 : Bytes)
    (h1 : lookup "tau" f = some (.arr d1 s1 b1)) (h2 : lookup "r" f = some (.arr d2 s2 b2))
    (h3 : lookup "v_leak" f = some (.arr d3 s3 b3)) :
    (accepted (postInit "LI" f) ↔ (s1 = s2 ∧ s2 = s3)) ∧
    (¬ accepted (postInit "LI" f) → postInit "LI" f = .error .assertionError) ∧
    (∀ n, postInit "LI" f = .ok n → TypesDefined n) := by
  by_cases h : s2 = s1 ∧ s3 = s1
  · obtain ⟨rfl, rfl⟩ := h
    refine ⟨?_, ?_, ?_⟩ <;>
      simp [accepted, postInit, h1, h2, h3, assertSameShape, getShape, Val.shape?, bind, Except.bind, pure,
        Except.pure, List.mapM_cons, List.mapM_nil]
    exact typesDefined_elementwise _ _ _ _
  · have h' : ¬ (s1 = s2 ∧ s2 = s3) := by
      rintro ⟨rfl, rfl⟩; exact h ⟨rfl, rfl⟩
    refine ⟨?_, ?_, ?_⟩ <;>
      simp [accepted, postInit, h1, h2, h3, assertSameShape, getShape, Val.shape?, bind, Except.bind, pure,
        Except.pure, List.mapM_cons, List.mapM_nil, h, h', throw, throwThe, MonadExceptOf.throw]

/-- LIF: four arrays, one common shape. -/
theorem neuron_LIF (f : List (String × Val)) (d1 d2 d3 d4 : DType) (s1 s2 s3 s4 : List Nat) (b1 b2 b3 b4 : Bytes)
    (h1 : lookup "tau" f = some (.arr d1 s1 b1)) (h2 : lookup "r" f = some (.arr d2 s2 b2))
    (h3 : lookup "v_leak" f = some (.arr d3 s3 b3)) (h4 : lookup "v_threshold" f = some (.arr d4 s4 b4)) :
    (accepted (postInit "LIF" f) ↔ (s1 = s2 ∧ s2 = s3 ∧ s3 = s4)) ∧
    (¬ accepted (postInit "LIF" f) → postInit "LIF" f = .error .assertionError) ∧
    (∀ n, postInit "LIF" f = .ok n → TypesDefined n) := by
  by_cases h : s2 = s1 ∧ s3 = s1 ∧ s4 = s1
  · obtain ⟨rfl, rfl, rfl⟩ := h
    refine ⟨?_, ?_, ?_⟩ <;>
      simp [accepted, postInit, h1, h2, h3, h4, assertSameShape, getShape, Val.shape?, bind, Except.bind, pure,
        Except.pure, List.mapM_cons, List.mapM_nil]
    exact typesDefined_elementwise _ _ _ _
  · have h' : ¬ (s1 = s2 ∧ s2 = s3 ∧ s3 = s4) := by
      rintro ⟨rfl, rfl, rfl⟩; exact h ⟨rfl, rfl, rfl⟩
    refine ⟨?_, ?_, ?_⟩ <;>
      simp [accepted, postInit, h1, h2, h3, h4, assertSameShape, getShape, Val.shape?, bind, Except.bind, pure,
        Except.pure, List.mapM_cons, List.mapM_nil, h, h', throw, throwThe, MonadExceptOf.throw]

/-- Affine / Linear are constructed iff the weight has rank ≥ 2 (AssertionError otherwise). -/
theorem weight_rank (kind : String) (hk : kind = "Affine" ∨ kind = "Linear")
    (f : List (String × Val)) (dt : DType) (sh : List Nat) (d : Bytes)
    (hw : lookup "weight" f = some (.arr dt sh d)) :
    (accepted (postInit kind f) ↔ 2 ≤ sh.length) ∧
    (¬ accepted (postInit kind f) → postInit kind f = .error .assertionError) ∧
    (∀ n, postInit kind f = .ok n → TypesDefined n) := by
  by_cases h : sh.length < 2
  · have h' : ¬ 2 ≤ sh.length := by omega
    rcases hk with rfl | rfl <;> refine ⟨?_, ?_, ?_⟩ <;>
      simp [accepted, postInit, hw, getShape, Val.shape?, bind, Except.bind, pure, Except.pure, h, h', throw,
        throwThe, MonadExceptOf.throw]
  · have h' : 2 ≤ sh.length := by omega
    rcases hk with rfl | rfl <;> refine ⟨?_, ?_, ?_⟩ <;>
      simp [accepted, postInit, hw, getShape, Val.shape?, bind, Except.bind, pure, Except.pure, h, h',
        TypesDefined, typeDict, Node.inputType, Node.outputType, shapeVal, Val.ofInts] <;>
      (intro n hn; subst hn; simp)

/-- A padding *string* is accepted iff it is 'same' or 'valid' (here with the shape left to
inference, so that nothing else can reject the node); `bytes` are never accepted. -/
theorem padding_string (kind : String) (hk : kind = "Conv1d" ∨ kind = "Conv2d")
    (f : List (String × Val)) (s : String)
    (hp : lookup "padding" f = some (.str s)) (hi : lookup "input_shape" f = some .none)
    (hs : (lookup "stride" f).isSome) (hd : (lookup "dilation" f).isSome) :
    (accepted (postInit kind f) ↔ (s = "same" ∨ s = "valid")) ∧
    (¬ accepted (postInit kind f) → postInit kind f = .error .valueError) := by
  obtain ⟨sv, hsv⟩ := Option.isSome_iff_exists.mp hs
  obtain ⟨dv, hdv⟩ := Option.isSome_iff_exists.mp hd
  by_cases h : s = "same" ∨ s = "valid"
  · rcases hk with rfl | rfl <;> rcases h with rfl | rfl <;> refine ⟨?_, ?_⟩ <;>
      simp [accepted, postInit, hp, hi, hsv, hdv, convPaddingCheck, bind, Except.bind, pure, Except.pure]
  · have h1 : (s == "same" || s == "valid") = false := by
      simp only [not_or] at h; simp [h.1, h.2]
    rcases hk with rfl | rfl <;> refine ⟨?_, ?_⟩ <;>
      simp [accepted, postInit, hp, convPaddingCheck, bind, Except.bind, pure, Except.pure, h1, h]

theorem padding_bytes (kind : String) (hk : kind = "Conv1d" ∨ kind = "Conv2d")
    (f : List (String × Val)) (b : Bytes) (hp : lookup "padding" f = some (.bytes b)) :
    postInit kind f = .error .valueError := by
  rcases hk with rfl | rfl <;>
    simp [postInit, hp, convPaddingCheck, bind, Except.bind, pure, Except.pure]

set_option linter.unusedSimpArgs false in
/-- CubaLIF with the five parameter arrays of one common shape `s` and an input weight given
as an array of the same float dtype: constructed iff the weight broadcasts *to* `s`
(numpy's rule, result shape `s`), and the stored weight is then materialised to shape `s`. -/
theorem cuba_w_in (f : List (String × Val)) (dt : DType) (hdt : dt.kind = .float) (s wsh : List Nat)
    (d1 d2 d3 d4 : DType) (b1 b2 b3 b4 b5 wdata : Bytes)
    (h1 : lookup "tau_syn" f = some (.arr d1 s b1)) (h2 : lookup "tau_mem" f = some (.arr d2 s b2))
    (h3 : lookup "r" f = some (.arr d3 s b3)) (h4 : lookup "v_leak" f = some (.arr d4 s b4))
    (h5 : lookup "v_threshold" f = some (.arr dt s b5)) (hw : lookup "w_in" f = some (.arr dt wsh wdata)) :
    (accepted (postInit "CubaLIF" f) ↔ broadcastShapes s wsh = some s) ∧
    (∀ n, postInit "CubaLIF" f = .ok n → TypesDefined n ∧ (n.field? "w_in").bind Val.shape? = some s) := by
  have hk : (dt.kind == DKind.float) = true := by simp [hdt]
  cases hb : broadcastShapes s wsh with
  | none =>
    constructor
    · simp [accepted, postInit, h1, h2, h3, h4, h5, hw, assertSameShape, getShape, Val.shape?, bind, Except.bind, pure,
        Except.pure, List.mapM_cons, List.mapM_nil, materialiseWIn, materialiseWInShape, hb, hk]
    · simp [postInit, h1, h2, h3, h4, h5, hw, assertSameShape, getShape, Val.shape?, bind, Except.bind, pure,
        Except.pure, List.mapM_cons, List.mapM_nil, materialiseWIn, materialiseWInShape, hb, hk]
  | some out =>
    have hlook : ∀ (v : Val) (l : List (String × Val)), lookup "w_in" (Py.insert "w_in" v l) = some v := by
      intro v l
      induction l with
      | nil => simp [Py.insert, lookup]
      | cons kv rest ih =>
        obtain ⟨k, v'⟩ := kv
        by_cases hkk : (k == "w_in") = true
        · simp [Py.insert, lookup, hkk]
        · simp [Py.insert, lookup, hkk, ih]
    by_cases ho : out = s
    · subst ho
      cases out with
      | nil =>
        constructor
        · simp [accepted] ; simp [postInit, h1, h2, h3, h4, h5, hw, assertSameShape, getShape, Val.shape?, bind, Except.bind, pure,
          Except.pure, List.mapM_cons, List.mapM_nil, materialiseWIn, materialiseWInShape, hb, hk, throw, throwThe, MonadExceptOf.throw]
        · intro n hn
          simp [postInit, h1, h2, h3, h4, h5, hw, assertSameShape, getShape, Val.shape?, bind, Except.bind, pure,
          Except.pure, List.mapM_cons, List.mapM_nil, materialiseWIn, materialiseWInShape, hb, hk, throw, throwThe, MonadExceptOf.throw] at hn
          subst hn
          refine ⟨typesDefined_elementwise _ _ _ _, ?_⟩
          simp [Node.field?, Node.fields, hlook, Val.shape?]
      | cons x xs =>
        constructor
        · simp [accepted] ; simp [postInit, h1, h2, h3, h4, h5, hw, assertSameShape, getShape, Val.shape?, bind, Except.bind, pure,
          Except.pure, List.mapM_cons, List.mapM_nil, materialiseWIn, materialiseWInShape, hb, hk, throw, throwThe, MonadExceptOf.throw]
        · intro n hn
          simp [postInit, h1, h2, h3, h4, h5, hw, assertSameShape, getShape, Val.shape?, bind, Except.bind, pure,
          Except.pure, List.mapM_cons, List.mapM_nil, materialiseWIn, materialiseWInShape, hb, hk, throw, throwThe, MonadExceptOf.throw] at hn
          subst hn
          refine ⟨typesDefined_elementwise _ _ _ _, ?_⟩
          simp [Node.field?, Node.fields, hlook, Val.shape?]
    · have ho' : ¬ s = out := fun e => ho e.symm
      cases out with
      | nil =>
        constructor
        · simp [accepted] ; simp (config := {contextual := true}) [postInit, h1, h2, h3, h4, h5, hw, assertSameShape, getShape, Val.shape?, bind, Except.bind, pure,
          Except.pure, List.mapM_cons, List.mapM_nil, materialiseWIn, materialiseWInShape, hb, hk, throw, throwThe, MonadExceptOf.throw, ho, ho']
        · intro n hn
          simp [postInit, h1, h2, h3, h4, h5, hw, assertSameShape, getShape, Val.shape?, bind, Except.bind, pure,
          Except.pure, List.mapM_cons, List.mapM_nil, materialiseWIn, materialiseWInShape, hb, hk, throw, throwThe, MonadExceptOf.throw, ho, ho'] at hn
      | cons x xs =>
        constructor
        · simp [accepted] ; simp [postInit, h1, h2, h3, h4, h5, hw, assertSameShape, getShape, Val.shape?, bind, Except.bind, pure,
          Except.pure, List.mapM_cons, List.mapM_nil, materialiseWIn, materialiseWInShape, hb, hk, throw, throwThe, MonadExceptOf.throw, ho, ho']
        · intro n hn
          simp [postInit, h1, h2, h3, h4, h5, hw, assertSameShape, getShape, Val.shape?, bind, Except.bind, pure,
          Except.pure, List.mapM_cons, List.mapM_nil, materialiseWIn, materialiseWInShape, hb, hk, throw, throwThe, MonadExceptOf.throw, ho, ho'] at hn

/-- Non-vacuity: LIF with shapes (2,3),(2,3),(2,3),(2,3) is accepted; with one (3,2) it is not. -/
example : accepted (postInit "LIF" [("tau", .arr DType.float64 [2, 3] []), ("r", .arr DType.float64 [2, 3] []),
    ("v_leak", .arr DType.float64 [2, 3] []), ("v_threshold", .arr DType.float64 [2, 3] [])]) :=
  (neuron_LIF _ _ _ _ _ _ _ _ _ _ _ _ _ (by rfl) (by rfl) (by rfl) (by rfl)).1.mpr
    ⟨rfl, rfl, rfl⟩
example : postInit "LIF" [("tau", .arr DType.float64 [2, 3] []), ("r", .arr DType.float64 [2, 3] []),
    ("v_leak", .arr DType.float64 [3, 2] []), ("v_threshold", .arr DType.float64 [2, 3] [])]
    = .error .assertionError := by rfl

end NirVerif.C19
