import NirVerif.Properties.C12
import NirVerif.Generated.GraphInterface

/-! # C12 (continued) — how the graph-level interface is derived, as the source states it now

`Generated.graphPortSpec` is regenerated on every run (translator item T12) from `NIRGraph.__post_init__`: for each of
the two graph-level attributes, the class of the children whose names it maps, the child attribute it maps them to, and
whether an empty collection gives `None` instead of `{}`.  `interface_generated` re-checks the model's
`graphInputType` / `graphOutputType` — which every `Mirror` theorem of C12 is about — against that table, for every
node table. -/
namespace NirVerif.C12
open NirVerif NirVerif.Py NirVerif.Model

/-- the reading of one row of the generated table on a node table -/
def portDict (cls : String) (sel : Node → Val) (noneWhenEmpty : Bool) (children : Nodes) : Val :=
  let ps := children.filter (fun kv => kv.2.isKind cls)
  if noneWhenEmpty && ps.isEmpty then .none else .dict (ps.map fun kv => (kv.1, sel kv.2))

theorem spec_generated :
    Generated.graphPortSpec = [("input_type", "Input", "input_type", true), ("output_type", "Output", "output_type", false)] := by
  decide +kernel

/-- for every row the source states, the model derives the graph-level attribute exactly so, on every node table -/
theorem interface_generated (gattr cls nattr : String) (nw : Bool)
    (h : (gattr, cls, nattr, nw) ∈ Generated.graphPortSpec) (children : Nodes) :
    (if gattr = "input_type" then graphInputType children else graphOutputType children) =
      portDict cls (if nattr = "input_type" then Node.inputType else Node.outputType) nw children := by
  rw [spec_generated] at h
  simp only [List.mem_cons, Prod.mk.injEq, List.mem_nil_iff, or_false] at h
  rcases h with ⟨rfl, rfl, rfl, rfl⟩ | ⟨rfl, rfl, rfl, rfl⟩
  · simp only [if_true, graphInputType, portDict, Bool.true_and]
  · have e : ¬ ("output_type" = "input_type") := by decide
    simp only [e, if_false, graphOutputType, portDict, Bool.false_and, Bool.false_eq_true]

end NirVerif.C12
