import NirVerif.Properties.C08
import NirVerif.Generated.WorkListShape
import NirVerif.Properties.C10

/-! # C10 (continued) — a second inference changes nothing, on every consistent graph

`C10.idempotent_partial` asks that every edge be a fixed point of the loop body.  Here that
hypothesis is *discharged* for the whole C08 domain: on any flat graph that is locally
consistent with a typing `τ` — whatever subset of the erasable annotations (Output shapes,
input sides, Flatten outputs, Conv1d/Conv2d types, pooling types) is erased — the first
`infer_types` succeeds and leaves a graph on which a further `infer_types` is the identity. -/
namespace NirVerif.C10
open NirVerif NirVerif.Py NirVerif.Model NirVerif.Lemmas

theorem mem_of_lookup {α} (k : String) (v : α) (d : List (String × α)) (h : lookup k d = some v) : (k, v) ∈ d := by
  induction d with
  | nil => simp [lookup] at h
  | cons kv rest ih =>
    obtain ⟨k0, v0⟩ := kv
    by_cases hk : (k0 == k) = true
    · have hk' : k0 = k := by simpa using hk
      simp only [lookup, hk, if_true, Option.some.injEq] at h
      subst hk' h; exact List.mem_cons_self
    · have hk' : (k0 == k) = false := by simpa using hk
      simp only [lookup, hk', Bool.false_eq_true, if_false] at h
      exact List.mem_cons_of_mem _ (ih h)

theorem idempotent_consistent (g : Node) (τ : String → List Int × List Int)
    (hkeys : (g.children.map Prod.fst).Nodup) (hflat : FlatEdges g)
    (hleaf : ∀ k n, lookup k g.children = some n → n.isKind "NIRGraph" = false)
    (hin : (graphInputs g).isEmpty = false)
    (hall : ∀ k n, lookup k g.children = some n →
      n.isKind "Input" = true ∨ Reach g.edges ((graphInputs g).map Prod.fst) k)
    (hnodes : ∀ k n, lookup k g.children = some n → C08.NodeOKK n (τ k))
    (hsrc : ∀ k n, lookup k g.children = some n → n.isKind "Input" = true → HasTypesK n (τ k))
    (hcons : ∀ e ∈ g.edges, (τ e.1).2 = (τ e.2).1) :
    (inferTypes g).2 = none ∧ inferTypes (inferTypes g).1 = ((inferTypes g).1, none) := by
  obtain ⟨hok, htyped, _⟩ := C08.restore_settled g τ hkeys hflat hleaf hin hall hnodes hsrc hcons
  refine ⟨hok, ?_⟩
  have hfr := forwardInference_frameInv g
  -- the shape of the result
  have hres : (inferTypes g).1 = ((g.setChildren (forwardInference g).1).refreshIO) := by
    simp only [inferTypes, hin, Bool.false_eq_true, if_false]
  have hch : (inferTypes g).1.children = (forwardInference g).1 := by
    rw [hres]; cases g; rfl
  have hed : (inferTypes g).1.edges = g.edges := by
    rw [hres]; cases g; rfl
  apply idempotent_partial
  · -- still has an Input node
    have hne : ∃ kv, kv ∈ graphInputs g := by
      cases hgi : graphInputs g with
      | nil => rw [hgi] at hin; simp at hin
      | cons a as => exact ⟨a, List.mem_cons_self⟩
    obtain ⟨⟨k, n0⟩, hmem⟩ := hne
    simp only [graphInputs, List.mem_filter] at hmem
    have hl : lookup k g.children = some n0 := lookup_of_mem_nodup _ hkeys _ _ hmem.1
    obtain ⟨n, hn, hF⟩ := hfr.2 k n0 hl
    have hkind : n.isKind "Input" = true := by
      have := hmem.2
      simp only [Node.isKind] at this ⊢
      rw [hF.1]; exact this
    have : (k, n) ∈ graphInputs (inferTypes g).1 := by
      simp only [graphInputs, List.mem_filter, hch]
      exact ⟨mem_of_lookup _ _ _ hn, hkind⟩
    cases hgi : graphInputs (inferTypes g).1 with
    | nil => rw [hgi] at this; cases this
    | cons a as => rfl
  · rw [hres]; cases g; exact ⟨rfl, rfl⟩
  · intro e he
    rw [hed] at he
    obtain ⟨a, b, ha, hb, _, _⟩ := hflat e he
    obtain ⟨na, hna, hMa⟩ := htyped e.1 a ha
    obtain ⟨nb, hnb, hMb⟩ := htyped e.2 b hb
    obtain ⟨na', hna', hFa⟩ := hfr.2 e.1 a ha
    obtain ⟨nb', hnb', hFb⟩ := hfr.2 e.2 b hb
    rw [hch] at hna hnb
    rw [hna] at hna'; cases hna'
    rw [hnb] at hnb'; cases hnb'
    refine ⟨na, nb, by rw [hch]; exact hna, by rw [hch]; exact hnb, ?_, ?_, ?_⟩
    · have := hleaf e.1 a ha
      simp only [Node.isKind] at this ⊢; rw [hFa.1]; exact this
    · have := hleaf e.2 b hb
      simp only [Node.isKind] at this ⊢; rw [hFb.1]; exact this
    · have hc := hcons e he
      have hτa : τ e.1 = ((τ e.1).1, (τ e.1).2) := rfl
      have hτb : τ e.2 = ((τ e.2).1, (τ e.2).2) := rfl
      rw [hτa] at hMa
      rw [hτb, ← hc] at hMb
      exact stepNode_settled na nb _ _ _ hMa.1 hMb.1 hMb.2

/-! ## the skeleton of the work-list, as the source states it now (translator item T14)

`Model.workList` / `initialStack` / `initialSeen` / `pushed` model this skeleton: the list is seeded with the edges that
leave Input nodes, `seen` starts as their sources, every round pops the **last** entry, adds the processed target to `seen`
and appends the target's outgoing edges to nodes not yet seen.  The translator accepts `_forward_type_inference` only if
its first two statements, the loop head, the first statement of the loop body and its last two statements have exactly
that form and nothing else in the body touches the list or the set; it refuses (and the tie breaks) otherwise.  What it
emits is the pop discipline. -/
theorem worklist_generated :
    Generated.workListPopsLast = true ∧ Generated.workListSeedsFromInputEdges = true ∧
    Generated.workListPushesUnseenSuccessors = true := by
  decide

/-- the model pops the entry a LIFO `pop()` returns: with the stack kept reversed, the head -/
theorem workList_pops_head {σ ε : Type} (edges : List Edge) (step : σ → String → String → σ × Option ε)
    (st : σ) (pre post : String) (hm : (pre, post) ∈ edges) (rest : List {e : Edge // e ∈ edges}) (seen : List String) (e : ε)
    (st' : σ) (h : step st pre post = (st', some e)) :
    workList edges step st (⟨(pre, post), hm⟩ :: rest) seen = (st', seen, some e) := by
  rw [workList, h]

end NirVerif.C10
