import NirVerif.Properties.C08

/-! # C14 — type inference commutes with serialisation

A corollary of C08: inference computes *the* typing `τ` of any graph that `τ` is locally
consistent with — so whatever a round trip does to the erasable annotations (the file carries
Conv `input_shape`, Flatten input, Input/Output shapes; it never carries pooling types), as
long as the graph that comes back is still locally consistent with `τ`, inferring it gives the
same types as inferring the original.  That the real round trip (and `to_dict`/`from_dict`)
preserves local consistency is what the `histories` oracle/correspondence suite checks, on
operation histories of length ≤ 4 (thorough ≤ 6). -/
namespace NirVerif.C14
open NirVerif NirVerif.Py NirVerif.Model NirVerif.Lemmas

/-- the hypotheses of `C08.restore`, bundled -/
structure Inferable (g : Node) (τ : String → List Int × List Int) : Prop where
  keys : (g.children.map Prod.fst).Nodup
  flat : FlatEdges g
  leaf : ∀ k n, lookup k g.children = some n → n.isKind "NIRGraph" = false
  hasInput : (graphInputs g).isEmpty = false
  reach : ∀ k n, lookup k g.children = some n →
    n.isKind "Input" = true ∨ Reach g.edges ((graphInputs g).map Prod.fst) k
  typing : C08.LocalTyping g τ

/-- **Commutation**: if the original graph `g` and the graph `g'` obtained from it by any
history of round trips (and inferences) are both locally consistent with the typing `τ` and
have the same node names, then inferring `g'` gives every node the same input and output
shapes as inferring `g` — namely `τ`. -/
theorem commute (g g' : Node) (τ : String → List Int × List Int)
    (hg : Inferable g τ) (hg' : Inferable g' τ) (k : String) (n0 n0' : Node)
    (hk : lookup k g.children = some n0) (hk' : lookup k g'.children = some n0') :
    ∃ n n', lookup k (inferTypes g).1.children = some n ∧ lookup k (inferTypes g').1.children = some n' ∧
      Spec.portShape n.inputType = Spec.portShape n'.inputType ∧
      Spec.portShape n.outputType = Spec.portShape n'.outputType ∧
      (inferTypes g).2 = none ∧ (inferTypes g').2 = none := by
  obtain ⟨s1, t1, _⟩ := C08.restore g τ hg.keys hg.flat hg.leaf hg.hasInput hg.reach hg.typing
  obtain ⟨s2, t2, _⟩ := C08.restore g' τ hg'.keys hg'.flat hg'.leaf hg'.hasInput hg'.reach hg'.typing
  obtain ⟨n, hn, h1, h2⟩ := t1 k n0 hk
  obtain ⟨n', hn', h1', h2'⟩ := t2 k n0' hk'
  exact ⟨n, n', hn, hn', by rw [h1, h1'], by rw [h2, h2'], s1, s2⟩

/-- the hypotheses of `C08.restore_keyed`, bundled: every node is an Input, an Output, an
annotated primitive, or a Flatten / Conv1d / Conv2d / pooling node whose types are erased -/
structure InferableK (g : Node) (τ : String → List Int × List Int) : Prop where
  keys : (g.children.map Prod.fst).Nodup
  flat : FlatEdges g
  leaf : ∀ k n, lookup k g.children = some n → n.isKind "NIRGraph" = false
  hasInput : (graphInputs g).isEmpty = false
  reach : ∀ k n, lookup k g.children = some n →
    n.isKind "Input" = true ∨ Reach g.edges ((graphInputs g).map Prod.fst) k
  nodes : ∀ k n, lookup k g.children = some n → C08.NodeOKK n (τ k)
  sources : ∀ k n, lookup k g.children = some n → n.isKind "Input" = true → HasTypesK n (τ k)
  consistent : ∀ e ∈ g.edges, (τ e.1).2 = (τ e.2).1

/-- **Commutation, with the edge-local condition discharged**: whatever subset of the erasable
annotations (Output shapes, input sides, Flatten output, Conv1d/Conv2d types, pooling types —
the last never survive a file round trip) is erased in `g` and whatever *other* subset in `g'`,
inferring either gives every node the types `τ`. -/
theorem commute_keyed (g g' : Node) (τ : String → List Int × List Int)
    (hg : InferableK g τ) (hg' : InferableK g' τ) (k : String) (n0 n0' : Node)
    (hk : lookup k g.children = some n0) (hk' : lookup k g'.children = some n0') :
    ∃ n n', lookup k (inferTypes g).1.children = some n ∧ lookup k (inferTypes g').1.children = some n' ∧
      HasTypesK n (τ k) ∧ HasTypesK n' (τ k) ∧
      (inferTypes g).2 = none ∧ (inferTypes g').2 = none ∧
      checkTypes (inferTypes g).1 = .ok true ∧ checkTypes (inferTypes g').1 = .ok true := by
  obtain ⟨s1, t1, c1⟩ := C08.restore_keyed g τ hg.keys hg.flat hg.leaf hg.hasInput hg.reach hg.nodes hg.sources hg.consistent
  obtain ⟨s2, t2, c2⟩ := C08.restore_keyed g' τ hg'.keys hg'.flat hg'.leaf hg'.hasInput hg'.reach hg'.nodes hg'.sources hg'.consistent
  obtain ⟨n, hn, h1⟩ := t1 k n0 hk
  obtain ⟨n', hn', h1'⟩ := t2 k n0' hk'
  exact ⟨n, n', hn, hn', h1, h1', s1, s2, c1, c2⟩

/-- an already inferred graph is a fixed point: a further inference is the identity (so after
a round trip at most the types the file does not carry have to be regained) -/
theorem inferred_is_stable (g : Node) (hin : (graphInputs g).isEmpty = false)
    (hmirror : g.inputType = graphInputType g.children ∧ g.outputType = graphOutputType g.children)
    (hstable : ∀ e ∈ g.edges, ∃ preN postN, lookup e.1 g.children = some preN ∧ lookup e.2 g.children = some postN ∧
      preN.isKind "NIRGraph" = false ∧ postN.isKind "NIRGraph" = false ∧ stepNode preN postN = (postN, none)) :
    inferTypes g = (g, none) := by
  have key := workList_inv2 g.edges processEdge (fun nodes _ _ => nodes = g.children)
    (fun nodes _ err => nodes = g.children ∧ err = none)
    (fun st sn h => ⟨h, rfl⟩)
    (fun st pre post hmem rest sn st' e h hs => by
      subst h
      obtain ⟨preN, postN, h1, h2, k1, k2, hst⟩ := hstable (pre, post) hmem
      simp [processEdge, h1, h2, k1, k2, hst] at hs)
    (fun st pre post hmem rest sn st' h hs => by
      subst h
      obtain ⟨preN, postN, h1, h2, k1, k2, hst⟩ := hstable (pre, post) hmem
      simp only [processEdge, h1, h2, k1, k2, hst, Bool.or_self, Bool.false_eq_true, if_false, setNode,
        Prod.mk.injEq, and_true] at hs
      rw [← hs]
      clear hs
      -- re-inserting the node that is already there
      have : ∀ (d : Nodes), lookup post d = some postN → Py.insert post postN d = d := by
        intro d hd
        induction d with
        | nil => simp [lookup] at hd
        | cons kv rest ih =>
          obtain ⟨k0, v0⟩ := kv
          by_cases hk : (k0 == post) = true
          · have hk' : k0 = post := by simpa using hk
            simp only [lookup, hk, if_true, Option.some.injEq] at hd
            simp [Py.insert, hk, hd, hk']
          · have hk' : (k0 == post) = false := by simpa using hk
            simp only [lookup, hk', Bool.false_eq_true, if_false] at hd
            simp [Py.insert, hk', ih hd]
      exact this _ h2)
    g.children (initialStack g.edges ((graphInputs g).map Prod.fst)) (initialSeen g.edges ((graphInputs g).map Prod.fst)) rfl
  simp only [inferTypes, hin, Bool.false_eq_true, if_false]
  have h1 : (forwardInference g).1 = g.children := key.1
  have h2 : (forwardInference g).2.2 = none := key.2
  cases g with
  | mk kd f i o m c e =>
    simp only [Node.inputType, Node.outputType, Node.children] at hmirror h1
    simp [h1, h2, Node.setChildren, Node.refreshIO, Node.setTypes, Node.children, ← hmirror.1, ← hmirror.2]

end NirVerif.C14
