import NirVerif.Lemmas.FromList
import NirVerif.Generated.UniqueName

/-! # C11 — from_list builds exactly the sequential path graph

About `Model.fromList` (hand-written model, tied to `NIRGraph.from_list` by the `graphs`
correspondence suite).  `Generated.whitelist` ties the set of class names to the source, and
`Generated.uniqueNameGen` / `nameCounterStep` (translator item T8) are regenerated from the f-string and the counter
increment of `unique_node_name` on every run: `name_generated` below re-checks the model's naming function against
what the source says now, for every class name and every index. -/
namespace NirVerif.C11
open NirVerif NirVerif.Py NirVerif.Model NirVerif.Lemmas NirVerif.Lemmas.FromList

/-- **The naming function of the source is the model's**: for every base name and every repetition index the name the
(regenerated) f-string of `unique_node_name` produces is `Model.uniqueName`, and the per-class counter advances by one. -/
theorem name_generated (b : String) (k : Nat) :
    Generated.uniqueNameGen b k = uniqueName b k ∧ Generated.nameCounterStep = 1 := by
  refine ⟨?_, rfl⟩
  unfold Generated.uniqueNameGen uniqueName
  by_cases h : k > 0
  · simp only [h, if_true, String.append_assoc]
  · simp only [h, if_false, String.append_empty]

/-- The naming scheme `lower-cased class name [_k]` is injective at *string* level on
(class, repetition index), for all 18 serialisable classes and every index (i / if / li /
lif prefixes, ≥ 10 repetitions included). -/
theorem names_injective (b1 b2 : String) (k1 k2 : Nat) (h1 : b1 ∈ baseNames) (h2 : b2 ∈ baseNames)
    (h : uniqueName b1 k1 = uniqueName b2 k2) : b1 = b2 ∧ k1 = k2 :=
  uniqueName_injective b1 b2 k1 k2 h1 h2 h

/-- Names are pairwise distinct for every sequence and every repetition pattern. -/
theorem names_distinct (ns : List Node) (hk : ∀ n ∈ ns, n.kind ∈ Generated.whitelist) :
    ((assignNames ns []).map Prod.fst).Nodup :=
  assignNames_nodup ns [] hk

/-- The node in position `pre.length` is named `<class>` if it is the first of its class and
`<class>_k` if `k ≥ 1` nodes of its class precede it. -/
theorem names_scheme (pre : List Node) (n : Node) (post : List Node) :
    ((assignNames (pre ++ n :: post) []).map Prod.fst)[pre.length]? =
      some (uniqueName n.kind.toLower (pre.countP (fun m => m.kind.toLower == n.kind.toLower))) := by
  have := names_scheme_aux pre n post []
  simpa [lookup] using this

/-- Input only in first position, Output only in last position, all kinds serialisable. -/
structure Admissible (first : Node) (rest : List Node) : Prop where
  kinds : ∀ n ∈ first :: rest, n.kind ∈ Generated.whitelist
  inputOnlyFirst : ∀ n ∈ rest, n.kind ≠ "Input"
  outputOnlyLast : ∀ n ∈ (first :: rest).dropLast, n.kind ≠ "Output"

/-- `from_list` builds exactly the sequential path graph: the given nodes, once each and in
order, preceded by an Input carrying the first node's input type unless the first already is
an Input, followed by an Output carrying the last node's output type unless the last already
is an Output; names pairwise distinct and following the scheme; edges the chain of
consecutive names. -/
theorem shape (first : Node) (rest : List Node) (adm : Admissible first rest)
    (ikvs okvs : List (String × Val)) (iv ov : Val)
    (hfi : first.inputType = .dict ikvs) (hfi' : lookup "input" ikvs = some iv)
    (hlo : ((first :: rest).getLast (by simp)).outputType = .dict okvs) (hlo' : lookup "output" okvs = some ov) :
    let ns := first :: rest
    let last := ns.getLast (by simp)
    let autoIn : Nodes := if first.isKind "Input" then []
      else [("input", Node.mk "Input" [] first.inputType (typeDict "output" iv) (.dict []) [] [])]
    let autoOut : Nodes := if last.isKind "Output" then []
      else [("output", Node.mk "Output" [] (typeDict "input" ov) last.outputType (.dict []) [] [])]
    let children := autoIn ++ assignNames ns [] ++ autoOut
    let keys := children.map Prod.fst
    fromList ns = .ok (mkGraph children (keys.zip keys.tail)) ∧
      children.map Prod.snd = autoIn.map Prod.snd ++ ns ++ autoOut.map Prod.snd ∧ keys.Nodup := by
  intro ns last autoIn autoOut children keys
  have hnd := assignNames_nodup ns [] adm.kinds
  have hlast_mem : last ∈ ns := List.getLast_mem _
  -- reserved names
  have hin_free : first.isKind "Input" = false → "input" ∉ (assignNames ns []).map Prod.fst := by
    intro hf
    apply reserved_not_assigned ns adm.kinds "input" (by decide)
    intro n hn hl
    have hkind := kind_of_lower_input _ (adm.kinds n hn) hl
    rcases List.mem_cons.mp hn with rfl | hn
    · simp [Node.isKind, hkind] at hf
    · exact adm.inputOnlyFirst n hn hkind
  have hout_free : last.isKind "Output" = false → "output" ∉ (assignNames ns []).map Prod.fst := by
    intro hf
    apply reserved_not_assigned ns adm.kinds "output" (by decide)
    intro n hn hl
    have hkind := kind_of_lower_output _ (adm.kinds n hn) hl
    by_cases hnl : n ∈ ns.dropLast
    · exact adm.outputOnlyLast n hnl hkind
    · -- n is the last element
      have : n = last := by
        have hsplit := List.dropLast_concat_getLast (l := ns) (by simp [ns])
        rw [← hsplit] at hn
        rcases List.mem_append.mp hn with h | h
        · exact absurd h hnl
        · simpa using h
      subst this
      simp [Node.isKind, hkind] at hf
  -- evaluate from_list
  have hget : (first :: rest).getLast?.getD first = last := by
    rw [List.getLast?_eq_some_getLast (l := first :: rest) (by simp)]; rfl
  have hlo2 : last.outputType = .dict okvs := hlo
  have hd1 : insertAll autoIn (assignNames ns []) = autoIn ++ assignNames ns [] := by
    apply insertAll_append _ _ hnd
    intro k hk
    by_cases hf : first.isKind "Input" = true
    · simp [autoIn, hf]
    · simp only [Bool.not_eq_true] at hf
      simp only [autoIn, hf, Bool.false_eq_true, if_false, List.map_cons, List.map_nil, List.mem_singleton]
      rintro rfl; exact hin_free hf hk
  have hkeys1 : (autoIn ++ assignNames ns []).map Prod.fst = autoIn.map Prod.fst ++ (assignNames ns []).map Prod.fst := by simp
  have hd2 : last.isKind "Output" = false →
      Py.insert "output" (Node.mk "Output" [] (typeDict "input" ov) last.outputType (.dict []) [] []) (autoIn ++ assignNames ns [])
        = autoIn ++ assignNames ns [] ++ autoOut := by
    intro hl
    rw [insert_of_not_mem]
    · simp [autoOut, hl]
    · rw [hkeys1]
      simp only [List.mem_append, not_or]
      refine ⟨?_, hout_free hl⟩
      by_cases hf : first.isKind "Input" = true
      · simp [autoIn, hf]
      · simp only [Bool.not_eq_true] at hf
        simp [autoIn, hf]
  have hfrom : fromList ns = .ok (mkGraph children (keys.zip keys.tail)) := by
    simp only [fromList, ns, hget]
    by_cases hf : first.isKind "Input" = true <;> by_cases hl : last.isKind "Output" = true
    · have : autoOut = [] := by simp [autoOut, hl]
      have e : autoIn = [] := by simp [autoIn, hf]
      simp [hf, hl, bind, Except.bind, pure, Except.pure, children, keys, this, e, insertAll_append [] _ hnd (by simp), ns]
    · simp only [Bool.not_eq_true] at hl
      have e : autoIn = [] := by simp [autoIn, hf]
      have hd2' := hd2 hl
      rw [e] at hd2' hd1
      simp only [List.nil_append] at hd2' hd1
      rw [hlo2] at hd2'
      simp [hf, hl, bind, Except.bind, pure, Except.pure, children, keys, e, hd1, hlo2, construct_output_dict _ _ hlo', ns]
      simp [ns] at hd2'
      rw [hd2']; simp
    · simp only [Bool.not_eq_true] at hf
      have : autoOut = [] := by simp [autoOut, hl]
      have e : autoIn = [("input", Node.mk "Input" [] first.inputType (typeDict "output" iv) (.dict []) [] [])] := by
        simp [autoIn, hf]
      rw [e] at hd1
      rw [hfi] at hd1
      simp [hf, hl, bind, Except.bind, pure, Except.pure, children, keys, this, e, hfi, construct_input_dict _ _ hfi', ns]
      simp [ns] at hd1
      rw [hd1]; simp
    · simp only [Bool.not_eq_true] at hf hl
      have e : autoIn = [("input", Node.mk "Input" [] first.inputType (typeDict "output" iv) (.dict []) [] [])] := by
        simp [autoIn, hf]
      have hd2' := hd2 hl
      rw [e] at hd1 hd2'
      rw [hlo2, hfi] at hd2'
      rw [hfi] at hd1
      simp [hf, hl, bind, Except.bind, pure, Except.pure, children, keys, e, hfi, construct_input_dict _ _ hfi', hlo2,
        construct_output_dict _ _ hlo', ns]
      simp [ns] at hd1 hd2'
      rw [hd1, hd2']; simp
  refine ⟨hfrom, by simp [children, assignNames_snd], ?_⟩
  simp only [keys, children, List.map_append]
  by_cases hf : first.isKind "Input" = true <;> by_cases hl : last.isKind "Output" = true
  · simp [autoIn, autoOut, hf, hl, hnd]
  · simp only [Bool.not_eq_true] at hl
    simp only [autoIn, autoOut, hf, hl, if_true, Bool.false_eq_true, if_false, List.map_nil, List.nil_append,
      List.map_cons]
    rw [List.nodup_append]
    exact ⟨hnd, by simp, by intro a ha b hb; simp at hb; subst hb; rintro rfl; exact hout_free hl ha⟩
  · simp only [Bool.not_eq_true] at hf
    simp only [autoIn, autoOut, hf, hl, if_true, Bool.false_eq_true, if_false, List.map_nil, List.append_nil,
      List.map_cons, List.cons_append, List.nil_append, List.nodup_cons]
    exact ⟨hin_free hf, hnd⟩
  · simp only [Bool.not_eq_true] at hf hl
    simp only [autoIn, autoOut, hf, hl, Bool.false_eq_true, if_false, List.map_nil,
      List.map_cons, List.cons_append, List.nil_append, List.nodup_cons]
    refine ⟨?_, ?_⟩
    · simp only [List.mem_append, List.mem_singleton, not_or]
      exact ⟨hin_free hf, by decide⟩
    · rw [List.nodup_append]
      exact ⟨hnd, by simp, by intro a ha b hb; simp at hb; subst hb; rintro rfl; exact hout_free hl ha⟩


/-- Non-vacuity: LIF, LI, LIF, I on a concrete sequence: names lif, li, lif_1, i. -/
example : (assignNames [Node.mk "LIF" [] .none .none .none [] [], Node.mk "LI" [] .none .none .none [] [],
    Node.mk "LIF" [] .none .none .none [] [], Node.mk "I" [] .none .none .none [] []] []).map Prod.fst
    = ["lif", "li", "lif_1", "i"] := by decide +kernel

end NirVerif.C11
