import NirVerif.Properties.C09
import NirVerif.Generated.CheckErrors

/-! # C09 (continued) — the tests of `_check_types` and the exceptions they raise, as the source states them now

`Generated.checkErrors` / `checkComparator` are regenerated on every run (translator item T15) from the active
`_check_types`: per edge and in this order — source output undefined, target input undefined, different numbers of ports,
(one port each) shapes not `np.array_equal`, several ports — with the exception class each raises.  The theorems re-check
the model's `checkEdge` against that table: the model raises the exception the source names, in the source's order. -/
namespace NirVerif.C09
open NirVerif NirVerif.Py NirVerif.Model

theorem check_errors_generated :
    Generated.checkErrors = [("undefined_output", "ValueError"), ("undefined_input", "ValueError"),
      ("length_mismatch", "ValueError"), ("shape_mismatch", "ValueError"), ("several_ports", "NotImplementedError")] ∧
    Generated.checkComparator = "np.array_equal" := by
  decide +kernel

/-- name of the exception a result stands for -/
def raisedName {α : Type} : Except PyErr α → Option String
  | .error e => some e.name
  | .ok _ => none

/-- on an edge between two leaf nodes, the model's check raises what the source names for each test, in the source's
order: an undefined source output first, then an undefined target input, then differing port counts, then (several ports
on both sides) the unsupported case -/
theorem checkEdge_errors (nodes : Nodes) (e : Edge) (pre post : Node)
    (h1 : lookup e.1 nodes = some pre) (h2 : lookup e.2 nodes = some post)
    (hl : pre.isKind "NIRGraph" = false ∧ post.isKind "NIRGraph" = false) :
    (typeUndefined pre.outputType = true →
        raisedName (checkEdge nodes e) = lookup "undefined_output" Generated.checkErrors) ∧
    (typeUndefined pre.outputType = false → typeUndefined post.inputType = true →
        raisedName (checkEdge nodes e) = lookup "undefined_input" Generated.checkErrors) ∧
    (∀ lo li, typeUndefined pre.outputType = false → typeUndefined post.inputType = false →
        typeLen pre.outputType = .ok lo → typeLen post.inputType = .ok li →
        (lo ≠ li → raisedName (checkEdge nodes e) = lookup "length_mismatch" Generated.checkErrors) ∧
        (lo = li → lo ≠ 1 → raisedName (checkEdge nodes e) = lookup "several_ports" Generated.checkErrors)) := by
  rw [check_errors_generated.1]
  obtain ⟨hp, hq⟩ := hl
  refine ⟨?_, ?_, ?_⟩
  · intro hu
    simp [checkEdge, h1, h2, hp, hq, hu, raisedName, lookup, PyErr.name]
  · intro hu hv
    simp [checkEdge, h1, h2, hp, hq, hu, hv, raisedName, lookup, PyErr.name]
  · intro lo li hu hv hlo hli
    refine ⟨?_, ?_⟩
    · intro hne
      have : (lo != li) = true := by simpa using hne
      simp [checkEdge, h1, h2, hp, hq, hu, hv, hlo, hli, this, raisedName, lookup, PyErr.name]
    · intro heq hn1
      subst heq
      have e1 : (lo == 1) = false := by simpa using hn1
      simp [checkEdge, h1, h2, hp, hq, hu, hv, hlo, hli, e1, raisedName, lookup, PyErr.name]

end NirVerif.C09
