import NirVerif.Lemmas.Settled
import NirVerif.Properties.C09

/-! # C08 — type inference reconstructs exactly the erased shape annotations

About `Model.inferTypes` / `Model.checkTypes`.  `τ` is the typing of the fully annotated
graph: it assigns every node its (input shape, output shape).  `LocalTyping g τ` says that
`τ` is consistent *edge by edge* with the (partly erased) graph `g`; the theorem lifts this
to the whole run — for every topology, edge order, fan-in/out, cycle and parallel edge. -/
namespace NirVerif.C08
open NirVerif NirVerif.Py NirVerif.Model NirVerif.Lemmas

/-- the node carries exactly the shapes `t` (container-insensitively, as `np.array_equal` sees them) -/
def HasTypes (n : Node) (t : List Int × List Int) : Prop :=
  Spec.portShape n.inputType = some t.1 ∧ Spec.portShape n.outputType = some t.2

/-- `τ` is locally consistent with the partly erased graph `g`, for a node-typing predicate
`H` (`HasTypes`, or the key-aware `HasTypesK`). -/
structure LocalTypingG (H : Node → List Int × List Int → Prop) (g : Node)
    (τ : String → List Int × List Int) : Prop where
  /-- Input nodes carry their (never erased) shapes -/
  sources : ∀ k n, lookup k g.children = some n → n.isKind "Input" = true → H n (τ k)
  /-- the annotated graph is type-consistent along every edge -/
  consistent : ∀ e ∈ g.edges, (τ e.1).2 = (τ e.2).1
  /-- one loop body, run on a predecessor that already carries `τ` and on a successor that is
  either still as erased or already carries `τ`, succeeds and gives the successor `τ` -/
  step : ∀ pre post preN postN post0, (pre, post) ∈ g.edges → H preN (τ pre) →
    lookup post g.children = some post0 → postN.kind = post0.kind →
    (postN = post0 ∨ H postN (τ post)) →
    (stepNode preN postN).2 = none ∧ H (stepNode preN postN).1 (τ post)

abbrev LocalTyping := LocalTypingG HasTypes

theorem singlePort_of_hasTypes (n : Node) (t : List Int × List Int) (h : HasTypes n t)
    (hk : n.isKind "NIRGraph" = false) : SinglePort n := by
  obtain ⟨h1, h2⟩ := h
  refine ⟨hk, ?_, ?_⟩
  · cases hi : n.inputType with
    | dict kvs =>
      rw [hi] at h1
      match kvs, h1 with
      | [(k, v)], h1 => exact ⟨k, v, rfl, Or.inr (by simp [Spec.portShape] at h1; simp [h1])⟩
    | _ => rw [hi] at h1; simp [Spec.portShape] at h1
  · cases ho : n.outputType with
    | dict kvs =>
      rw [ho] at h2
      match kvs, h2 with
      | [(k, v)], h2 => exact ⟨k, v, rfl, Or.inr (by simp [Spec.portShape] at h2; simp [h2])⟩
    | _ => rw [ho] at h2; simp [Spec.portShape] at h2

/-- **Restoration.**  For a flat graph with unique names in which every node is an Input or
reachable from one, and any typing `τ` locally consistent with it: `infer_types` succeeds,
gives *every* node exactly the types `τ` assigns (none undefined, Output nodes included), and
the resulting graph passes the type check. -/
theorem restoreG (H : Node → List Int × List Int → Prop) (hH : ∀ n t, H n t → HasTypes n t)
    (g : Node) (τ : String → List Int × List Int)
    (hkeys : (g.children.map Prod.fst).Nodup) (hflat : FlatEdges g)
    (hleaf : ∀ k n, lookup k g.children = some n → n.isKind "NIRGraph" = false)
    (hin : (graphInputs g).isEmpty = false)
    (hall : ∀ k n, lookup k g.children = some n →
      n.isKind "Input" = true ∨ Reach g.edges ((graphInputs g).map Prod.fst) k)
    (ht : LocalTypingG H g τ) :
    (inferTypes g).2 = none ∧
    (∀ k n0, lookup k g.children = some n0 →
      ∃ n, lookup k (inferTypes g).1.children = some n ∧ H n (τ k)) ∧
    checkTypes (inferTypes g).1 = .ok true := by
  let Good : String → Node → Prop := fun k n =>
    H n (τ k) ∧ ∃ n0, lookup k g.children = some n0 ∧ n.kind = n0.kind
  have hinputs : ∀ k ∈ (graphInputs g).map Prod.fst, ∀ n, lookup k g.children = some n → n.isKind "Input" = true := by
    intro k hk n hn
    simp only [graphInputs, List.mem_map, List.mem_filter] at hk
    obtain ⟨⟨k', n'⟩, ⟨hmem, hkind⟩, rfl⟩ := hk
    rw [lookup_of_mem_nodup _ hkeys _ _ hmem] at hn
    cases hn; exact hkind
  have hinit : ∀ k ∈ initialSeen g.edges ((graphInputs g).map Prod.fst), ∀ n, lookup k g.children = some n → Good k n :=
    fun k hk n hn => ⟨ht.sources k n hn (hinputs k ((mem_initialSeen _ _ _).mp hk).1 n hn), n, hn, rfl⟩
  have hstep : ∀ pre post preN postN, (pre, post) ∈ g.edges → Good pre preN →
      (lookup post g.children = some postN ∨ Good post postN) →
      (stepNode preN postN).2 = none ∧ Good post (stepNode preN postN).1 := by
    intro pre post preN postN hmem hpre hpost
    obtain ⟨_, post0, hb0, _, _⟩ := hflat (pre, post) hmem
    obtain ⟨pa, pb, hpa, hpb, _, _⟩ := hflat (pre, post) hmem
    simp only at hpb
    have hcase : postN.kind = pb.kind ∧ (postN = pb ∨ H postN (τ post)) := by
      rcases hpost with h | h
      · rw [hpb] at h; cases h; exact ⟨rfl, Or.inl rfl⟩
      · obtain ⟨hty, n0, hn0, hk0⟩ := h
        rw [hpb] at hn0; cases hn0
        exact ⟨hk0, Or.inr hty⟩
    have := ht.step pre post preN postN pb hmem hpre.1 hpb hcase.1 hcase.2
    refine ⟨this.1, this.2, pb, hpb, ?_⟩
    rw [(stepNode_frame preN postN).1]; exact hcase.1
  have hkindGood : ∀ k n, Good k n → n.isKind "NIRGraph" = false := by
    intro k n h
    obtain ⟨_, n0, hn0, hk0⟩ := h
    have := hleaf k n0 hn0
    simpa [Node.isKind, hk0] using this
  have hsucc := forwardInference_total g hflat Good hinit hstep hkindGood
  have key := forwardInference_good g Good hinit (fun a b c d e f g' h' => (hstep a b c d e f g').2) hsucc
  obtain ⟨hgood, huntouched, hclosed, _⟩ := key
  -- every node ends up carrying τ
  have hnodes : ∀ k n0, lookup k g.children = some n0 →
      ∃ n, lookup k (forwardInference g).1 = some n ∧ Good k n := by
    intro k n0 h0
    by_cases hs : k ∈ (forwardInference g).2.1
    · exact hgood k hs
    · rw [← huntouched k hs] at h0
      rcases hall k n0 (by rw [← huntouched k hs]; exact h0) with hi | hr
      · exact ⟨n0, h0, ht.sources k n0 (by rw [← huntouched k hs]; exact h0) hi,
          n0, by rw [← huntouched k hs]; exact h0, rfl⟩
      · exact absurd (hclosed k hr) hs
  have hres : (inferTypes g).1.children = (forwardInference g).1 ∧ (inferTypes g).1.edges = g.edges ∧
      (inferTypes g).2 = (forwardInference g).2.2 := by
    cases g with
    | mk kd f i o m c e =>
      simp only [inferTypes, hin, Bool.false_eq_true, if_false, Node.setChildren, Node.refreshIO, Node.setTypes,
        Node.children, Node.edges, and_self]
  refine ⟨by rw [hres.2.2]; exact hsucc, ?_, ?_⟩
  · intro k n0 h0
    obtain ⟨n, hn, hg⟩ := hnodes k n0 h0
    exact ⟨n, by rw [hres.1]; exact hn, hg.1⟩
  · -- the type check: C09 on the result
    rw [C09.iff]
    · intro e he
      rw [hres.2.1] at he
      obtain ⟨a, b, ha, hb, _, _⟩ := hflat e he
      obtain ⟨na, hna, hga⟩ := hnodes e.1 a ha
      obtain ⟨nb, hnb, hgb⟩ := hnodes e.2 b hb
      refine ⟨na, nb, (τ e.1).2, by rw [hres.1]; exact hna, by rw [hres.1]; exact hnb, (hH _ _ hga.1).2, ?_⟩
      rw [ht.consistent e he]; exact (hH _ _ hgb.1).1
    · intro e he
      rw [hres.2.1] at he
      obtain ⟨a, b, ha, hb, _, _⟩ := hflat e he
      obtain ⟨na, hna, hga⟩ := hnodes e.1 a ha
      obtain ⟨nb, hnb, hgb⟩ := hnodes e.2 b hb
      exact ⟨na, nb, by rw [hres.1]; exact hna, by rw [hres.1]; exact hnb,
        singlePort_of_hasTypes _ _ (hH _ _ hga.1) (hkindGood _ _ hga),
        singlePort_of_hasTypes _ _ (hH _ _ hgb.1) (hkindGood _ _ hgb)⟩

/-- **Restoration.**  For a flat graph with unique names in which every node is an Input or
reachable from one, and any typing `τ` locally consistent with it: `infer_types` succeeds,
gives *every* node exactly the types `τ` assigns (none undefined, Output nodes included), and
the resulting graph passes the type check. -/
theorem restore (g : Node) (τ : String → List Int × List Int)
    (hkeys : (g.children.map Prod.fst).Nodup) (hflat : FlatEdges g)
    (hleaf : ∀ k n, lookup k g.children = some n → n.isKind "NIRGraph" = false)
    (hin : (graphInputs g).isEmpty = false)
    (hall : ∀ k n, lookup k g.children = some n →
      n.isKind "Input" = true ∨ Reach g.edges ((graphInputs g).map Prod.fst) k)
    (ht : LocalTyping g τ) :
    (inferTypes g).2 = none ∧
    (∀ k n0, lookup k g.children = some n0 →
      ∃ n, lookup k (inferTypes g).1.children = some n ∧ HasTypes n (τ k)) ∧
    checkTypes (inferTypes g).1 = .ok true :=
  restoreG HasTypes (fun _ _ h => h) g τ hkeys hflat hleaf hin hall ht


/-! ## discharging `LocalTyping` from per-node conditions -/

theorem portShape_dict (d : Val) (s : List Int) (h : Spec.portShape d = some s) :
    ∃ k v, d = .dict [(k, v)] ∧ Spec.shapeOfVal v = some s := by
  cases d with
  | dict kvs =>
    match kvs, h with
    | [(a, b)], h => exact ⟨a, b, rfl, by simpa [Spec.portShape] using h⟩
  | _ => simp [Spec.portShape] at h

theorem defined_of_portShape (d : Val) (s : List Int) (h : Spec.portShape d = some s) : typeUndefined d = false := by
  obtain ⟨k, v, rfl, hv⟩ := portShape_dict d s h
  rw [typeUndefined_single]; exact isNoneVal_of_shape v s hv

/-- What is asked of each node of the partly erased graph: a single input port (possibly
undefined or wrong), and either it is an Input carrying `t`, or an Output (whose own shape
may be erased or wrong) with `t.1 = t.2`, or any other primitive whose output type is the
annotated `t.2`. -/
def NodeOK (n : Node) (t : List Int × List Int) : Prop :=
  (∃ ki vi, n.inputType = .dict [(ki, vi)] ∧ PortVal vi) ∧
  ((n.kind = "Input" ∧ HasTypes n t) ∨ (n.kind = "Output" ∧ t.1 = t.2) ∨
   (n.kind ≠ "Output" ∧ Spec.portShape n.outputType = some t.2))

/-- Erasing / corrupting any subset of **Output** shapes (and any subset of input-side
annotations) of a type-consistent graph leaves `τ` locally consistent. -/
theorem localTyping_of_nodes (g : Node) (τ : String → List Int × List Int)
    (hnodes : ∀ k n, lookup k g.children = some n → NodeOK n (τ k))
    (hsrc : ∀ k n, lookup k g.children = some n → n.isKind "Input" = true → HasTypes n (τ k))
    (hcons : ∀ e ∈ g.edges, (τ e.1).2 = (τ e.2).1) : LocalTyping g τ where
  sources := hsrc
  consistent := hcons
  step := by
    intro pre post preN postN post0 hmem hpre hpost0 hkind hcase
    obtain ⟨ko, vo, hpo, hso⟩ := portShape_dict _ _ hpre.2
    have hc := hcons (pre, post) hmem
    simp only at hc
    rw [hc] at hso
    obtain ⟨⟨ki0, vi0, hpi0, hvi0⟩, halt⟩ := hnodes post post0 hpost0
    -- the successor's input port
    have hport : ∃ ki vi, postN.inputType = .dict [(ki, vi)] ∧ PortVal vi := by
      rcases hcase with rfl | hty
      · exact ⟨ki0, vi0, hpi0, hvi0⟩
      · obtain ⟨k, v, hd, hv⟩ := portShape_dict _ _ hty.1
        exact ⟨k, v, hd, Or.inr (by simp [hv])⟩
    obtain ⟨ki, vi, hpi, hvi⟩ := hport
    rcases halt with ⟨hk, hty0⟩ | ⟨hk, heq⟩ | ⟨hk, hout0⟩
    · -- an Input node used as a successor
      have hout : Spec.portShape postN.outputType = some (τ post).2 := by
        rcases hcase with rfl | hty
        · exact hty0.2
        · exact hty.2
      have hne : postN.kind ≠ "Output" := by rw [hkind, hk]; decide
      obtain ⟨h1, h2, h3⟩ := stepNode_annotated preN postN ko ki vo vi _ hne (defined_of_portShape _ _ hout) hpo hso hpi hvi
      exact ⟨h1, h2, by rw [h3]; exact hout⟩
    · obtain ⟨h1, h2, h3⟩ := stepNode_output preN postN ko ki vo vi _ (by rw [hkind, hk]) hpo hso hpi hvi
      exact ⟨h1, h2, by rw [← heq]; exact h3⟩
    · have hout : Spec.portShape postN.outputType = some (τ post).2 := by
        rcases hcase with rfl | hty
        · exact hout0
        · exact hty.2
      have hne : postN.kind ≠ "Output" := by rw [hkind]; exact hk
      obtain ⟨h1, h2, h3⟩ := stepNode_annotated preN postN ko ki vo vi _ hne (defined_of_portShape _ _ hout) hpo hso hpi hvi
      exact ⟨h1, h2, by rw [h3]; exact hout⟩


/-! ## key-aware discharge: erased **Flatten, Conv1d, Conv2d and pooling** nodes as well -/

theorem hasTypes_of_K (n : Node) (t : List Int × List Int) (h : HasTypesK n t) : HasTypes n t := by
  obtain ⟨⟨vi, hi, hvi, _⟩, ⟨vo, ho, hvo, _⟩⟩ := h
  exact ⟨by rw [hi]; simpa [Spec.portShape, typeDict] using hvi, by rw [ho]; simpa [Spec.portShape, typeDict] using hvo⟩

/-- What is asked of each node of the partly erased graph, with the standard port names: an
`input` port (possibly undefined or wrong), and one of:
* an Input carrying `t`;
* an Output (own shape erased or wrong) with `t.1 = t.2`;
* a **Flatten whose output type was erased**, `t.2` being the flattening of a non-scalar `t.1`
  that preserves the element count;
* a **Conv2d / Conv1d whose types were erased** (`input_shape=None`), `t.2` being the output
  channels followed by `calculate_conv_output` of the spatial part of `t.1`;
* a **pooling node** (its types are never serialised), `t.2` being the channel count followed by
  `calculate_conv_output` of the spatial part with dilation 1;
* any other primitive whose output type is the annotated `t.2`. -/
def NodeOKK (n : Node) (t : List Int × List Int) : Prop :=
  (∃ vi, n.inputType = typeDict "input" vi ∧ PortVal vi ∧ WFShape vi) ∧
  ((n.kind = "Input" ∧ HasTypesK n t) ∨ (n.kind = "Output" ∧ t.1 = t.2) ∨
   (n.kind = "Flatten" ∧ n.outputType = typeDict "output" .none ∧
      ∃ sd ed, (n.field? "start_dim").bind Val.asInt? = some sd ∧ (n.field? "end_dim").bind Val.asInt? = some ed ∧
        t.1 ≠ [] ∧ t.2 = calcFlattenOutput t.1 sd ed ∧ Py.prod t.1 = Py.prod t.2 ∧ FitsI64 t.2) ∨
   (n.kind = "Conv2d" ∧ n.outputType = typeDict "output" .none ∧
      ∃ w wsh c spatial outs, n.field? "weight" = some w ∧ getShape w = .ok wsh ∧ 1 ≤ wsh.length ∧
        t.1 = c :: spatial ∧
        calculateConvOutput (.tuple (spatial.map Val.int)) ((n.field? "padding").getD .none)
          ((n.field? "dilation").getD .none) (kernelOf wsh) ((n.field? "stride").getD .none) = .ok outs ∧
        t.2 = Int.ofNat (wsh.getD 0 0) :: outs ∧ FitsI64 t.2) ∨
   (n.kind = "Conv1d" ∧ n.outputType = typeDict "output" .none ∧
      ∃ w wsh c n1 outs, n.field? "weight" = some w ∧ getShape w = .ok wsh ∧ 1 ≤ wsh.length ∧
        t.1 = [c, n1] ∧
        calculateConvOutput (.int n1) ((n.field? "padding").getD .none)
          ((n.field? "dilation").getD .none) (kernelOf wsh) ((n.field? "stride").getD .none) = .ok outs ∧
        t.2 = Int.ofNat (wsh.getD 0 0) :: outs ∧ FitsI64 t.2) ∨
   ((n.kind = "SumPool2d" ∨ n.kind = "AvgPool2d") ∧ n.outputType = typeDict "output" .none ∧
      ∃ c spatial outs, t.1 = c :: spatial ∧
        calculateConvOutput (.tuple (spatial.map Val.int)) ((n.field? "padding").getD .none) (.int 1)
          ((n.field? "kernel_size").getD .none) ((n.field? "stride").getD .none) = .ok outs ∧
        outs ≠ [] ∧ t.2 = c :: outs ∧ FitsI64 t.2) ∨
   (n.kind ≠ "Output" ∧ ∃ w, n.outputType = typeDict "output" w ∧ Spec.shapeOfVal w = some t.2 ∧ WFShape w))

/-- Erasing / corrupting any subset of Output shapes, input-side annotations, **Flatten
output types, Conv1d/Conv2d types and pooling types** of a type-consistent graph leaves `τ`
locally consistent: every kind of annotation that NIR allows to be undefined. -/
theorem localTypingK_of_nodes (g : Node) (τ : String → List Int × List Int)
    (hnodes : ∀ k n, lookup k g.children = some n → NodeOKK n (τ k))
    (hsrc : ∀ k n, lookup k g.children = some n → n.isKind "Input" = true → HasTypesK n (τ k))
    (hcons : ∀ e ∈ g.edges, (τ e.1).2 = (τ e.2).1) : LocalTypingG HasTypesK g τ where
  sources := hsrc
  consistent := hcons
  step := by
    intro pre post preN postN post0 hmem hpre hpost0 hkind hcase
    obtain ⟨vo, hpo, hso, hwo⟩ := hpre.2
    have hc := hcons (pre, post) hmem
    simp only at hc
    rw [hc] at hso
    obtain ⟨⟨vi0, hpi0, hvi0, hwi0⟩, halt⟩ := hnodes post post0 hpost0
    have hport : ∃ vi, postN.inputType = typeDict "input" vi ∧ PortVal vi ∧ WFShape vi := by
      rcases hcase with rfl | hty
      · exact ⟨vi0, hpi0, hvi0, hwi0⟩
      · obtain ⟨v, hd, hv, hwv⟩ := hty.1
        exact ⟨v, hd, Or.inr (by simp [hv]), hwv⟩
    obtain ⟨vi, hpi, hvi, hwi⟩ := hport
    have hτ : τ post = ((τ post).1, (τ post).2) := rfl
    -- a node that already carries τ is handled like any annotated node
    have htyped : HasTypesK postN (τ post) → postN.kind ≠ "Output" →
        (stepNode preN postN).2 = none ∧ HasTypesK (stepNode preN postN).1 (τ post) := by
      intro hty hne'
      obtain ⟨w', hout, hw', hww'⟩ := hty.2
      rw [hτ]
      exact stepNode_annotatedK preN postN vo vi w' _ _ hne' hout hw' hww' hpo hso hpi hvi hwo hwi
    rcases halt with ⟨hk, hty0⟩ | ⟨hk, heq⟩ | ⟨hk, hout0, sd, ed, hsd, hed, hne, ht2, hcount, hfit⟩ |
      ⟨hk, hout0, w, wsh, c, spatial, outs, hw, hwsh, hrank, ht1, hcalc, ht2, hfit⟩ |
      ⟨hk, hout0, w, wsh, c, n1, outs, hw, hwsh, hrank, ht1, hcalc, ht2, hfit⟩ |
      ⟨hk, hout0, c, spatial, outs, ht1, hcalc, hne, ht2, hfit⟩ | ⟨hk, w0, hout0, hw0, hww0⟩
    · have hne : postN.kind ≠ "Output" := by rw [hkind, hk]; decide
      rcases hcase with rfl | hty
      · exact htyped hty0 hne
      · exact htyped hty hne
    · have := stepNode_outputK preN postN vo vi _ (by rw [hkind, hk]) hpo hso hpi hvi hwo hwi
      rw [hτ, ← heq]; exact this
    · rcases hcase with rfl | hty
      · have := stepNode_flatten preN postN vo vi _ sd ed hk hout0 hsd hed hpo hso hne hpi hvi hwo hwi
          (by rw [← ht2]; exact hcount) (by rw [← ht2]; exact hfit)
        rw [hτ, ht2]; exact this
      · exact htyped hty (by rw [hkind, hk]; decide)
    · rcases hcase with rfl | hty
      · rw [ht1] at hso
        have := stepNode_conv2d preN postN vo vi w c spatial outs wsh hk hout0 hw hwsh hrank hpo hso hpi hvi hwo hwi hcalc
          (by rw [← ht2]; exact hfit)
        rw [hτ, ht1, ht2]; exact this
      · exact htyped hty (by rw [hkind, hk]; decide)
    · rcases hcase with rfl | hty
      · rw [ht1] at hso
        have := stepNode_conv1d preN postN vo vi w c n1 outs wsh hk hout0 hw hwsh hrank hpo hso hpi hvi hwo hwi hcalc
          (by rw [← ht2]; exact hfit)
        rw [hτ, ht1, ht2]; exact this
      · exact htyped hty (by rw [hkind, hk]; decide)
    · rcases hcase with rfl | hty
      · rw [ht1] at hso
        have := stepNode_pool preN postN vo vi c spatial outs hk hout0 hpo hso hpi hvi hwo hwi hcalc hne
          (by rw [← ht2]; exact hfit)
        rw [hτ, ht1, ht2]; exact this
      · exact htyped hty (by rw [hkind]; rcases hk with hk | hk <;> rw [hk] <;> decide)
    · have hne : postN.kind ≠ "Output" := by rw [hkind]; exact hk
      rcases hcase with rfl | hty
      · rw [hτ]
        exact stepNode_annotatedK preN postN vo vi w0 _ _ hne hout0 hw0 hww0 hpo hso hpi hvi hwo hwi
      · exact htyped hty hne

/-- **Restoration, including Flatten.**  `restoreG` at the key-aware typing. -/
theorem restore_keyed (g : Node) (τ : String → List Int × List Int)
    (hkeys : (g.children.map Prod.fst).Nodup) (hflat : FlatEdges g)
    (hleaf : ∀ k n, lookup k g.children = some n → n.isKind "NIRGraph" = false)
    (hin : (graphInputs g).isEmpty = false)
    (hall : ∀ k n, lookup k g.children = some n →
      n.isKind "Input" = true ∨ Reach g.edges ((graphInputs g).map Prod.fst) k)
    (hnodes : ∀ k n, lookup k g.children = some n → NodeOKK n (τ k))
    (hsrc : ∀ k n, lookup k g.children = some n → n.isKind "Input" = true → HasTypesK n (τ k))
    (hcons : ∀ e ∈ g.edges, (τ e.1).2 = (τ e.2).1) :
    (inferTypes g).2 = none ∧
    (∀ k n0, lookup k g.children = some n0 →
      ∃ n, lookup k (inferTypes g).1.children = some n ∧ HasTypesK n (τ k)) ∧
    checkTypes (inferTypes g).1 = .ok true :=
  restoreG HasTypesK hasTypes_of_K g τ hkeys hflat hleaf hin hall (localTypingK_of_nodes g τ hnodes hsrc hcons)


/-! ## non-vacuity: a concrete erased graph meets every hypothesis of `restore` -/

def exIn : Node := Node.mk "Input" [] (typeDict "input" (Val.ofInts [2])) (typeDict "output" (Val.ofInts [2])) (.dict []) [] []
def exScale : Node := Node.mk "Scale" [] (typeDict "input" (Val.ofInts [2])) (typeDict "output" (Val.ofInts [2])) (.dict []) [] []
def exOutErased : Node := Node.mk "Output" [] (typeDict "input" .none) (typeDict "output" .none) (.dict []) [] []
def exOutWrong : Node := Node.mk "Output" [] (typeDict "input" (Val.ofInts [9, 9])) (typeDict "output" (Val.ofInts [9, 9])) (.dict []) [] []
/-- Input -> Scale (recurrent self-loop, parallel edges) -> one erased and one wrong Output -/
def exGraph : Node := mkGraph [("in", exIn), ("s", exScale), ("o1", exOutErased), ("o2", exOutWrong)]
  [("s", "o2"), ("in", "s"), ("s", "s"), ("s", "o1"), ("in", "s")]
def exTau : String → List Int × List Int := fun _ => ([2], [2])

theorem ex_shape : Spec.shapeOfVal (Val.ofInts [2]) = some [2] := by decide +kernel
theorem ex_shape9 : (Spec.shapeOfVal (Val.ofInts [9, 9])).isSome = true := by decide +kernel

theorem ex_lookup (k : String) (n : Node) (h : lookup k exGraph.children = some n) :
    (k = "in" ∧ n = exIn) ∨ (k = "s" ∧ n = exScale) ∨ (k = "o1" ∧ n = exOutErased) ∨ (k = "o2" ∧ n = exOutWrong) := by
  simp only [exGraph, mkGraph, Node.children, lookup] at h
  repeat' split at h
  all_goals (first | cases h | skip)
  all_goals (rename_i hk; simp at hk)
  all_goals simp_all

example : (inferTypes exGraph).2 = none ∧ checkTypes (inferTypes exGraph).1 = .ok true := by
  have hlt : LocalTyping exGraph exTau := by
    apply localTyping_of_nodes
    · intro k n h
      rcases ex_lookup k n h with ⟨_, rfl⟩ | ⟨_, rfl⟩ | ⟨_, rfl⟩ | ⟨_, rfl⟩
      · exact ⟨⟨"input", _, rfl, Or.inr (by rw [ex_shape]; rfl)⟩, Or.inl ⟨rfl, by simp [HasTypes, exIn, exTau, Spec.portShape, typeDict, Node.inputType, Node.outputType, ex_shape]⟩⟩
      · exact ⟨⟨"input", _, rfl, Or.inr (by rw [ex_shape]; rfl)⟩, Or.inr (Or.inr ⟨by decide, by simp [exScale, exTau, Spec.portShape, typeDict, Node.outputType, ex_shape]⟩)⟩
      · exact ⟨⟨"input", _, rfl, Or.inl rfl⟩, Or.inr (Or.inl ⟨rfl, rfl⟩)⟩
      · exact ⟨⟨"input", _, rfl, Or.inr ex_shape9⟩, Or.inr (Or.inl ⟨rfl, rfl⟩)⟩
    · intro k n h hk
      rcases ex_lookup k n h with ⟨_, rfl⟩ | ⟨_, rfl⟩ | ⟨_, rfl⟩ | ⟨_, rfl⟩
      · simp [HasTypes, exIn, exTau, Spec.portShape, typeDict, Node.inputType, Node.outputType, ex_shape]
      all_goals simp [Node.isKind, Node.kind, exScale, exOutErased, exOutWrong] at hk
    · intro e _; rfl
  have hreach : ∀ k n, lookup k exGraph.children = some n →
      n.isKind "Input" = true ∨ Reach exGraph.edges ((graphInputs exGraph).map Prod.fst) k := by
    intro k n h
    have hin : "in" ∈ (graphInputs exGraph).map Prod.fst := by decide
    have hs : Reach exGraph.edges ((graphInputs exGraph).map Prod.fst) "s" :=
      Reach.start (a := "in") (by decide) hin
    rcases ex_lookup k n h with ⟨rfl, rfl⟩ | ⟨rfl, rfl⟩ | ⟨rfl, rfl⟩ | ⟨rfl, rfl⟩
    · left; rfl
    · right; exact hs
    · right; exact Reach.step (a := "s") (by decide) hs
    · right; exact Reach.step (a := "s") (by decide) hs
  have hflat : FlatEdges exGraph := by
    intro e he
    simp only [exGraph, mkGraph, Node.edges, List.mem_cons, List.mem_nil_iff, or_false] at he
    rcases he with rfl | rfl | rfl | rfl | rfl <;> exact ⟨_, _, rfl, rfl, rfl, rfl⟩
  have := restore exGraph exTau (by decide) hflat
    (fun k n h => by rcases ex_lookup k n h with ⟨_, rfl⟩ | ⟨_, rfl⟩ | ⟨_, rfl⟩ | ⟨_, rfl⟩ <;> rfl)
    (by decide) hreach hlt
  exact ⟨this.1, this.2.2⟩

/-- the same, for the typing-and-mirroring predicate `HasTypesM` (every Output node ends up with
exactly the renamed copy of its input type) -/
theorem localTypingM_of_nodes (g : Node) (τ : String → List Int × List Int)
    (hnodes : ∀ k n, lookup k g.children = some n → NodeOKK n (τ k))
    (hsrc : ∀ k n, lookup k g.children = some n → n.isKind "Input" = true → HasTypesK n (τ k))
    (hcons : ∀ e ∈ g.edges, (τ e.1).2 = (τ e.2).1) : LocalTypingG HasTypesM g τ where
  sources := fun k n h hk => ⟨hsrc k n h hk, fun hko => by
    have : n.kind = "Input" := by simpa [Node.isKind] using hk
    rw [this] at hko; exact absurd hko (by decide)⟩
  consistent := hcons
  step := by
    intro pre post preN postN post0 hmem hpre hpost0 hkind hcase
    have hK := (localTypingK_of_nodes g τ hnodes hsrc hcons).step pre post preN postN post0 hmem hpre.1 hpost0 hkind
      (hcase.imp id (fun h => h.1))
    exact ⟨hK.1, hK.2, stepNode_mirrors _ _ hK.1⟩

theorem restore_settled (g : Node) (τ : String → List Int × List Int)
    (hkeys : (g.children.map Prod.fst).Nodup) (hflat : FlatEdges g)
    (hleaf : ∀ k n, lookup k g.children = some n → n.isKind "NIRGraph" = false)
    (hin : (graphInputs g).isEmpty = false)
    (hall : ∀ k n, lookup k g.children = some n →
      n.isKind "Input" = true ∨ Reach g.edges ((graphInputs g).map Prod.fst) k)
    (hnodes : ∀ k n, lookup k g.children = some n → NodeOKK n (τ k))
    (hsrc : ∀ k n, lookup k g.children = some n → n.isKind "Input" = true → HasTypesK n (τ k))
    (hcons : ∀ e ∈ g.edges, (τ e.1).2 = (τ e.2).1) :
    (inferTypes g).2 = none ∧
    (∀ k n0, lookup k g.children = some n0 →
      ∃ n, lookup k (inferTypes g).1.children = some n ∧ HasTypesM n (τ k)) ∧
    checkTypes (inferTypes g).1 = .ok true :=
  restoreG HasTypesM (fun n t h => hasTypes_of_K n t h.1) g τ hkeys hflat hleaf hin hall
    (localTypingM_of_nodes g τ hnodes hsrc hcons)


/-! ### non-vacuity of `restore_keyed`: Input[2,3] → Flatten (output erased) → Output (erased) -/

def fxIn : Node := Node.mk "Input" [] (typeDict "input" (Val.ofInts [2, 3])) (typeDict "output" (Val.ofInts [2, 3])) (.dict []) [] []
def fxFlat : Node := Node.mk "Flatten" [("start_dim", .int 0), ("end_dim", .int (-1))]
  (typeDict "input" .none) (typeDict "output" .none) (.dict []) [] []
def fxGraph : Node := mkGraph [("in", fxIn), ("f", fxFlat), ("o", exOutErased)] [("f", "o"), ("in", "f")]
def fxTau : String → List Int × List Int := fun k =>
  if k = "in" then ([2, 3], [2, 3]) else if k = "f" then ([2, 3], [6]) else ([6], [6])

theorem fx_shape : Spec.shapeOfVal (Val.ofInts [2, 3]) = some [2, 3] := by decide +kernel

theorem fx_lookup (k : String) (n : Node) (h : lookup k fxGraph.children = some n) :
    (k = "in" ∧ n = fxIn) ∨ (k = "f" ∧ n = fxFlat) ∨ (k = "o" ∧ n = exOutErased) := by
  simp only [fxGraph, mkGraph, Node.children, lookup] at h
  repeat' split at h
  all_goals (first | cases h | skip)
  all_goals (rename_i hk; simp at hk)
  all_goals simp_all

example : (inferTypes fxGraph).2 = none ∧ checkTypes (inferTypes fxGraph).1 = .ok true ∧
    ∃ n, lookup "f" (inferTypes fxGraph).1.children = some n ∧ Spec.portShape n.outputType = some [6] := by
  have hInK : HasTypesK fxIn ([2, 3], [2, 3]) := ⟨⟨_, rfl, fx_shape, wf_ofInts _⟩, ⟨_, rfl, fx_shape, wf_ofInts _⟩⟩
  have hflat : FlatEdges fxGraph := by
    intro e he
    simp only [fxGraph, mkGraph, Node.edges, List.mem_cons, List.mem_nil_iff, or_false] at he
    rcases he with rfl | rfl <;> exact ⟨_, _, rfl, rfl, rfl, rfl⟩
  have hreach : ∀ k n, lookup k fxGraph.children = some n →
      n.isKind "Input" = true ∨ Reach fxGraph.edges ((graphInputs fxGraph).map Prod.fst) k := by
    intro k n h
    have hin : "in" ∈ (graphInputs fxGraph).map Prod.fst := by decide
    have hf : Reach fxGraph.edges ((graphInputs fxGraph).map Prod.fst) "f" := Reach.start (a := "in") (by decide) hin
    rcases fx_lookup k n h with ⟨rfl, rfl⟩ | ⟨rfl, rfl⟩ | ⟨rfl, rfl⟩
    · left; rfl
    · right; exact hf
    · right; exact Reach.step (a := "f") (by decide) hf
  have := restore_keyed fxGraph fxTau (by decide) hflat
    (fun k n h => by rcases fx_lookup k n h with ⟨_, rfl⟩ | ⟨_, rfl⟩ | ⟨_, rfl⟩ <;> rfl)
    (by decide) hreach
    (by
      intro k n h
      rcases fx_lookup k n h with ⟨rfl, rfl⟩ | ⟨rfl, rfl⟩ | ⟨rfl, rfl⟩
      · exact ⟨⟨_, rfl, Or.inr (by rw [fx_shape]; rfl), wf_ofInts _⟩, Or.inl ⟨rfl, hInK⟩⟩
      · refine ⟨⟨_, rfl, Or.inl rfl, trivial⟩, Or.inr (Or.inr (Or.inl ⟨rfl, rfl, 0, -1, rfl, rfl, ?_⟩))⟩
        refine ⟨by decide, by decide +kernel, by decide +kernel, ?_⟩
        intro x hx
        have : x = 6 := by simpa [fxTau] using hx
        subst this; decide
      · exact ⟨⟨_, rfl, Or.inl rfl, trivial⟩, Or.inr (Or.inl ⟨rfl, rfl⟩)⟩)
    (by
      intro k n h hk
      rcases fx_lookup k n h with ⟨rfl, rfl⟩ | ⟨rfl, rfl⟩ | ⟨rfl, rfl⟩
      · exact hInK
      all_goals simp [Node.isKind, Node.kind, fxFlat, exOutErased] at hk)
    (by
      intro e he
      simp only [fxGraph, mkGraph, Node.edges, List.mem_cons, List.mem_nil_iff, or_false] at he
      rcases he with rfl | rfl <;> decide)
  refine ⟨this.1, this.2.2, ?_⟩
  obtain ⟨n, hn, hK⟩ := this.2.1 "f" fxFlat rfl
  exact ⟨n, hn, (hasTypes_of_K _ _ hK).2⟩

/-! ### non-vacuity with an erased Conv2d and a pooling node:
Input[1,5,5] → Conv2d(3×3, erased) → SumPool2d(3, types never stored) → Output(erased) -/

def cxIn : Node := Node.mk "Input" [] (typeDict "input" (Val.ofInts [1, 5, 5])) (typeDict "output" (Val.ofInts [1, 5, 5])) (.dict []) [] []
def cxPair (a : Int) : Val := .tuple [.int a, .int a]
def cxConv : Node := Node.mk "Conv2d"
  [("input_shape", .none), ("weight", .arr DType.float64 [2, 1, 3, 3] []), ("stride", cxPair 1), ("padding", cxPair 0),
   ("dilation", cxPair 1), ("groups", .int 1), ("bias", .arr DType.float64 [2] [])]
  (typeDict "input" .none) (typeDict "output" .none) (.dict []) [] []
def cxPool : Node := Node.mk "SumPool2d" [("kernel_size", .int 3), ("stride", .int 1), ("padding", .int 0)]
  (typeDict "input" .none) (typeDict "output" .none) (.dict []) [] []
def cxGraph : Node := mkGraph [("in", cxIn), ("c", cxConv), ("p", cxPool), ("o", exOutErased)]
  [("in", "c"), ("p", "o"), ("c", "p")]
def cxTau : String → List Int × List Int := fun k =>
  if k = "in" then ([1, 5, 5], [1, 5, 5]) else if k = "c" then ([1, 5, 5], [2, 3, 3])
  else if k = "p" then ([2, 3, 3], [2, 1, 1]) else ([2, 1, 1], [2, 1, 1])

theorem cx_shape : Spec.shapeOfVal (Val.ofInts [1, 5, 5]) = some [1, 5, 5] := by decide +kernel
theorem cx_calc : calculateConvOutput (.tuple ([5, 5].map Val.int)) (cxPair 0) (cxPair 1) (kernelOf [2, 1, 3, 3]) (cxPair 1)
    = .ok [3, 3] := by decide +kernel
theorem cx_pool : calculateConvOutput (.tuple ([3, 3].map Val.int)) (.int 0) (.int 1) (.int 3) (.int 1)
    = .ok [1, 1] := by decide +kernel

theorem cx_lookup (k : String) (n : Node) (h : lookup k cxGraph.children = some n) :
    (k = "in" ∧ n = cxIn) ∨ (k = "c" ∧ n = cxConv) ∨ (k = "p" ∧ n = cxPool) ∨ (k = "o" ∧ n = exOutErased) := by
  simp only [cxGraph, mkGraph, Node.children, lookup] at h
  repeat' split at h
  all_goals (first | cases h | skip)
  all_goals (rename_i hk; simp at hk)
  all_goals simp_all

example : (inferTypes cxGraph).2 = none ∧ checkTypes (inferTypes cxGraph).1 = .ok true ∧
    (∃ n, lookup "c" (inferTypes cxGraph).1.children = some n ∧ Spec.portShape n.outputType = some [2, 3, 3]) ∧
    (∃ n, lookup "p" (inferTypes cxGraph).1.children = some n ∧ Spec.portShape n.outputType = some [2, 1, 1]) := by
  have hInK : HasTypesK cxIn ([1, 5, 5], [1, 5, 5]) := ⟨⟨_, rfl, cx_shape, wf_ofInts _⟩, ⟨_, rfl, cx_shape, wf_ofInts _⟩⟩
  have hflat : FlatEdges cxGraph := by
    intro e he
    simp only [cxGraph, mkGraph, Node.edges, List.mem_cons, List.mem_nil_iff, or_false] at he
    rcases he with rfl | rfl | rfl <;> exact ⟨_, _, rfl, rfl, rfl, rfl⟩
  have hreach : ∀ k n, lookup k cxGraph.children = some n →
      n.isKind "Input" = true ∨ Reach cxGraph.edges ((graphInputs cxGraph).map Prod.fst) k := by
    intro k n h
    have hin : "in" ∈ (graphInputs cxGraph).map Prod.fst := by decide
    have hc : Reach cxGraph.edges ((graphInputs cxGraph).map Prod.fst) "c" := Reach.start (a := "in") (by decide) hin
    have hp : Reach cxGraph.edges ((graphInputs cxGraph).map Prod.fst) "p" := Reach.step (a := "c") (by decide) hc
    rcases cx_lookup k n h with ⟨rfl, rfl⟩ | ⟨rfl, rfl⟩ | ⟨rfl, rfl⟩ | ⟨rfl, rfl⟩
    · left; rfl
    · right; exact hc
    · right; exact hp
    · right; exact Reach.step (a := "p") (by decide) hp
  have := restore_keyed cxGraph cxTau (by decide) hflat
    (fun k n h => by rcases cx_lookup k n h with ⟨_, rfl⟩ | ⟨_, rfl⟩ | ⟨_, rfl⟩ | ⟨_, rfl⟩ <;> rfl)
    (by decide) hreach
    (by
      intro k n h
      rcases cx_lookup k n h with ⟨rfl, rfl⟩ | ⟨rfl, rfl⟩ | ⟨rfl, rfl⟩ | ⟨rfl, rfl⟩
      · exact ⟨⟨_, rfl, Or.inr (by rw [cx_shape]; rfl), wf_ofInts _⟩, Or.inl ⟨rfl, hInK⟩⟩
      · refine ⟨⟨_, rfl, Or.inl rfl, trivial⟩, Or.inr (Or.inr (Or.inr (Or.inl
          ⟨rfl, rfl, _, [2, 1, 3, 3], 1, [5, 5], [3, 3], rfl, rfl, by decide, rfl, cx_calc, rfl, ?_⟩)))⟩
        intro x hx
        have : x = 2 ∨ x = 3 := by simpa [cxTau] using hx
        rcases this with rfl | rfl <;> decide
      · refine ⟨⟨_, rfl, Or.inl rfl, trivial⟩, Or.inr (Or.inr (Or.inr (Or.inr (Or.inr (Or.inl
          ⟨Or.inl rfl, rfl, 2, [3, 3], [1, 1], rfl, cx_pool, by decide, rfl, ?_⟩)))))⟩
        intro x hx
        have : x = 2 ∨ x = 1 := by simpa [cxTau] using hx
        rcases this with rfl | rfl <;> decide
      · exact ⟨⟨_, rfl, Or.inl rfl, trivial⟩, Or.inr (Or.inl ⟨rfl, rfl⟩)⟩)
    (by
      intro k n h hk
      rcases cx_lookup k n h with ⟨rfl, rfl⟩ | ⟨rfl, rfl⟩ | ⟨rfl, rfl⟩ | ⟨rfl, rfl⟩
      · exact hInK
      all_goals simp [Node.isKind, Node.kind, cxConv, cxPool, exOutErased] at hk)
    (by
      intro e he
      simp only [cxGraph, mkGraph, Node.edges, List.mem_cons, List.mem_nil_iff, or_false] at he
      rcases he with rfl | rfl | rfl <;> decide)
  refine ⟨this.1, this.2.2, ?_, ?_⟩
  · obtain ⟨n, hn, hK⟩ := this.2.1 "c" cxConv rfl
    exact ⟨n, hn, (hasTypes_of_K _ _ hK).2⟩
  · obtain ⟨n, hn, hK⟩ := this.2.1 "p" cxPool rfl
    exact ⟨n, hn, (hasTypes_of_K _ _ hK).2⟩

end NirVerif.C08
