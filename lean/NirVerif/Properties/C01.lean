import NirVerif.Lemmas.FileForm
import NirVerif.Properties.C03

/-! # C01 — the HDF5 round trip returns an equivalent graph

About `Model.write` / `Model.read` (hand-written model of `nir.write` / `nir.read` and of the
h5py contract; tied to the code by the `files` correspondence suite: written trees and
read-back graphs are compared on every run).

What is kernel-checked here is the *transport*: nothing a dictionary holds is lost, renamed,
re-ordered or joined by anything else on the way through the file, at any nesting depth, and
the edge list comes back in order.  That the constructors re-run on the transported values
yield an equivalent node (`int → np.int64`, `tuple → ndarray` …) is covered per primitive by
C05/C19 on the constructor side and, for whole graphs, by the correspondence run and the
strict two-sided comparator of the oracle — not by a single end-to-end theorem. -/
namespace NirVerif.C01
open NirVerif NirVerif.Py NirVerif.Model NirVerif.Lemmas

theorem ensureStr_bytes (s : String) : ensureStr (.bytes s.toUTF8.data.toList) = .ok s := by
  have h : ByteArray.mk s.toUTF8.data.toList.toArray = s.toByteArray := by
    simp
  simp only [ensureStr, h]
  have hv : s.toByteArray.IsValidUTF8 := s.isValidUTF8
  simp [String.fromUTF8?, hv]
  rfl

theorem pairs_flatMap (edges : List Edge) :
    h5Load.pairs (edges.flatMap fun e => [e.1, e.2])
      = edges.map fun e => Val.list [.bytes e.1.toUTF8.data.toList, .bytes e.2.toUTF8.data.toList] := by
  induction edges with
  | nil => rfl
  | cons e rest ih => simp [List.flatMap_cons, h5Load.pairs, ih]

/-- **Edges survive in order**: decoding what the reader returns for the stored `edges`
dataset gives back exactly the edge list — any length, duplicates, self-loops, dotted and
non-ASCII endpoints included. -/
theorem edges_roundtrip (edges : List Edge) :
    (h5Create (edgesVal edges)).map (fun ds => decodeEdges (h5Load ds)) = some (.ok edges) := by
  rw [C03.edges_layout]
  cases edges with
  | nil => simp [h5Load, decodeEdges]
  | cons e rest =>
    simp only [List.isEmpty_cons, Bool.false_eq_true, if_false, Option.map_some, Option.some.injEq]
    simp only [h5Load, pairs_flatMap, decodeEdges]
    generalize (e :: rest) = l
    induction l with
    | nil => rfl
    | cons x xs ih =>
      simp only [List.map_cons, List.mapM_cons, ensureStr_bytes, bind, Except.bind, pure, Except.pure] at ih ⊢
      rw [ih]

/-- **Nothing lost, nothing renamed, at any depth**: every leaf value of the dictionary form
(any path through `nodes/<name>/…`, `metadata/…`) is found at the same path in the dictionary
the reader hands to the constructors. -/
theorem transport (path : List String) (fuel : Nat) (kvs : List (String × Val)) (items : List (String × H5))
    (h : writeRecursiveFuel fuel kvs [] = .ok items) (hne : path ≠ []) (hlast : path.getLast? ≠ some "metadata")
    (v : Val) (hp : getPath (.dict kvs) path = some v) (hleaf : ∀ d, v ≠ .dict d) :
    ∃ ds, h5Create v = some ds ∧ getPath (hdf2dict (.group items)) path = some (h5Load ds) :=
  path_roundtrip path fuel kvs items h hne hlast v hp hleaf

/-- **Nothing added**: a key the dictionary does not have is not in the group either. -/
theorem nothing_added (fuel : Nat) (kvs : List (String × Val)) (items : List (String × H5))
    (h : writeRecursiveFuel fuel kvs [] = .ok items) (k : String) (hk : lookup k kvs = none) :
    lookup k (hdf2dict.hdf2dictItems items) = none := by
  rw [hdf2dict_lookup, write_no_extra fuel kvs [] items h k hk]; rfl

/-- the type tag comes back as the same string (so the same class is rebuilt) -/
theorem type_tag (fuel : Nat) (kvs : List (String × Val)) (items : List (String × H5)) (kind : String)
    (h : writeRecursiveFuel fuel kvs [] = .ok items) (hk : lookup "type" kvs = some (.str kind)) :
    lookup "type" (hdf2dict.hdf2dictItems items) = some (.str kind) := by
  obtain ⟨ds, hc, hl⟩ := write_lookup fuel kvs [] items h "type" (.str kind) hk (by decide) (by intro d hd; cases hd)
  rw [hdf2dict_lookup, hl]
  simp only [h5Create] at hc
  split at hc
  · cases hc
  · cases hc; rfl

/-- Non-vacuity: edges with a duplicate, a self-loop, a dotted and a non-ASCII endpoint. -/
example : (h5Create (edgesVal [("a", "b"), ("a", "b"), ("b", "b"), ("sub.x", "é")])).map
    (fun ds => decodeEdges (h5Load ds)) = some (.ok [("a", "b"), ("a", "b"), ("b", "b"), ("sub.x", "é")]) :=
  edges_roundtrip _

end NirVerif.C01
