import NirVerif.Lemmas.FileForm
import NirVerif.Lemmas.EndToEnd
import NirVerif.Properties.C13
import NirVerif.Properties.C03

/-! # C01 — the HDF5 round trip returns an equivalent graph

About `Model.write` / `Model.read` (hand-written model of `nir.write` / `nir.read` and of the
h5py contract; tied to the code by the `files` correspondence suite: written trees and
read-back graphs are compared on every run).

What is kernel-checked here is the *transport*: nothing a dictionary holds is lost, renamed,
re-ordered or joined by anything else on the way through the file, at any nesting depth, and
the edge list comes back in order.  That the constructors re-run on the transported values
yield an equivalent node (`int → np.int64`, `tuple → ndarray` …) is covered per primitive by
C05/C19 on the constructor side and, for whole graphs, by the correspondence run and the
strict two-sided comparator of the oracle — not by a single end-to-end theorem. -/
namespace NirVerif.C01
open NirVerif NirVerif.Py NirVerif.Model NirVerif.Lemmas

theorem ensureStr_bytes (s : String) : ensureStr (.bytes s.toUTF8.data.toList) = .ok s := by
  have h : ByteArray.mk s.toUTF8.data.toList.toArray = s.toByteArray := by
    simp
  simp only [ensureStr, h]
  have hv : s.toByteArray.IsValidUTF8 := s.isValidUTF8
  simp [String.fromUTF8?, hv]
  rfl

theorem pairs_flatMap (edges : List Edge) :
    h5Load.pairs (edges.flatMap fun e => [e.1, e.2])
      = edges.map fun e => Val.list [.bytes e.1.toUTF8.data.toList, .bytes e.2.toUTF8.data.toList] := by
  induction edges with
  | nil => rfl
  | cons e rest ih => simp [List.flatMap_cons, h5Load.pairs, ih]

/-- **Edges survive in order**: decoding what the reader returns for the stored `edges`
dataset gives back exactly the edge list — any length, duplicates, self-loops, dotted and
non-ASCII endpoints included. -/
theorem edges_roundtrip (edges : List Edge) :
    (h5Create (edgesVal edges)).map (fun ds => decodeEdges (h5Load ds)) = some (.ok edges) := by
  rw [C03.edges_layout]
  cases edges with
  | nil => simp [h5Load, decodeEdges]
  | cons e rest =>
    simp only [List.isEmpty_cons, Bool.false_eq_true, if_false, Option.map_some, Option.some.injEq]
    simp only [h5Load, pairs_flatMap, decodeEdges]
    generalize (e :: rest) = l
    induction l with
    | nil => rfl
    | cons x xs ih =>
      simp only [List.map_cons, List.mapM_cons, ensureStr_bytes, bind, Except.bind, pure, Except.pure] at ih ⊢
      rw [ih]

/-- **Nothing lost, nothing renamed, at any depth**: every leaf value of the dictionary form
(any path through `nodes/<name>/…`, `metadata/…`) is found at the same path in the dictionary
the reader hands to the constructors. -/
theorem transport (path : List String) (fuel : Nat) (kvs : List (String × Val)) (items : List (String × H5))
    (h : writeRecursiveFuel fuel kvs [] = .ok items) (hne : path ≠ []) (hlast : path.getLast? ≠ some "metadata")
    (v : Val) (hp : getPath (.dict kvs) path = some v) (hleaf : ∀ d, v ≠ .dict d) :
    ∃ ds, h5Create v = some ds ∧ getPath (hdf2dict (.group items)) path = some (h5Load ds) :=
  path_roundtrip path fuel kvs items h hne hlast v hp hleaf

/-- **Nothing added**: a key the dictionary does not have is not in the group either. -/
theorem nothing_added (fuel : Nat) (kvs : List (String × Val)) (items : List (String × H5))
    (h : writeRecursiveFuel fuel kvs [] = .ok items) (k : String) (hk : lookup k kvs = none) :
    lookup k (hdf2dict.hdf2dictItems items) = none := by
  rw [hdf2dict_lookup, write_no_extra fuel kvs [] items h k hk]; rfl

/-- the type tag comes back as the same string (so the same class is rebuilt) -/
theorem type_tag (fuel : Nat) (kvs : List (String × Val)) (items : List (String × H5)) (kind : String)
    (h : writeRecursiveFuel fuel kvs [] = .ok items) (hk : lookup "type" kvs = some (.str kind)) :
    lookup "type" (hdf2dict.hdf2dictItems items) = some (.str kind) := by
  obtain ⟨ds, hc, hl⟩ := write_lookup fuel kvs [] items h "type" (.str kind) hk (by decide) (by intro d hd; cases hd)
  rw [hdf2dict_lookup, hl]
  simp only [h5Create] at hc
  split at hc
  · cases hc
  · cases hc; rfl

/-- **End to end, for every leaf primitive with the generic dictionary form** (all but Input,
Output, Flatten; metadata empty): whenever `nir.write` succeeds, `nir.read` of the file is the
class constructor applied to the *transported* field values — each field's value as
`create_dataset` stores it and `item[()]` returns it (`backVal`), under the same name, nothing
added, nothing dropped, whatever order the file lists them in; the empty metadata is
re-defaulted.  `kw'` is any keyword dictionary with those entries. -/
theorem leaf_end_to_end (version kind : String) (fields : List (String × Val)) (it ot : Val)
    (hw : kind ∈ Generated.whitelist)
    (hk : kind ≠ "NIRGraph" ∧ kind ≠ "Input" ∧ kind ≠ "Output" ∧ kind ≠ "Flatten")
    (hnt : lookup "type" fields = none) (hnm : lookup "metadata" fields = none)
    (hnd : ∀ k v, lookup k fields = some v → ∀ d, v ≠ .dict d)
    (kw' : List (String × Val)) (hkw : ∀ k, lookup k kw' = (lookup k fields).bind backVal)
    (f : H5) (hwr : write version (Node.mk kind fields it ot (.dict []) [] []) = .ok f) :
    read f = construct kind kw' := by
  -- the dictionary form
  have hd := C03.toDict_keys_generic kind fields it ot (.dict []) hk
  simp only [write, hd, bind, Except.bind, pure, Except.pure] at hwr
  generalize hkvs : fields ++ [("metadata", Val.dict []), ("type", Val.str kind)] = kvs at hwr hd
  cases hnode : writeRecursiveFuel (Val.size (.dict kvs) + 1) kvs [] with
  | error e => rw [hnode] at hwr; cases hwr
  | ok node =>
    rw [hnode] at hwr
    simp only [Except.ok.injEq] at hwr
    subst hwr
    -- facts about the dictionary
    have hlk : ∀ k, lookup k kvs = (lookup k fields).or (lookup k [("metadata", Val.dict []), ("type", Val.str kind)]) := by
      intro k; rw [← hkvs, lookup_append]
    have hmeta : ∀ kv ∈ kvs, kv.1 = "metadata" → kv.2 = .dict [] := by
      intro kv hm hkm
      rw [← hkvs] at hm
      rcases List.mem_append.mp hm with h1 | h1
      · exfalso
        have : (lookup "metadata" fields).isSome = true :=
          lookup_isSome_of_mem _ _ (by rw [← hkm]; exact List.mem_map_of_mem h1)
        rw [hnm] at this; cases this
      · simp only [List.mem_cons, List.mem_nil_iff, or_false] at h1
        rcases h1 with rfl | rfl
        · rfl
        · simp at hkm
    have hndk : ∀ k v, lookup k kvs = some v → k ≠ "metadata" → ∀ d, v ≠ .dict d := by
      intro k v hl hkm d hv
      rw [hlk] at hl
      cases hf : lookup k fields with
      | some v' => rw [hf] at hl; simp at hl; subst hl; exact hnd k v' hf d hv
      | none =>
        rw [hf] at hl
        simp only [Option.none_or, lookup] at hl
        split at hl
        · rename_i h1
          have : "metadata" = k := by simpa using h1
          exact hkm this.symm
        · split at hl
          · cases hl; cases hv
          · cases hl
    have hflat := flat_roundtrip _ kvs node hnode hmeta hndk
    have htype : lookup "type" (hdf2dict.hdf2dictItems node) = some (.str kind) :=
      type_tag _ kvs node kind hnode (by rw [← hkvs]; exact C13.lookup_type_append fields _ kind hnt)
    have hnodup : ((hdf2dict.hdf2dictItems node).map Prod.fst).Nodup := by
      rw [hdf2dictItems_keys]; exact write_nodup _ kvs [] node hnode List.nodup_nil
    -- the reader
    simp only [Model.read, h5Get, lookup, beq_self_eq_true, if_true, bind, Except.bind, hdf2dict]
    rw [C18.fromDict_generic _ kind htype hw ⟨hk.2.1, hk.2.2.1, hk.2.2.2, hk.1⟩]
    -- the constructor sees both dictionaries alike
    have hD : ∀ k, lookup k (erase "type" (hdf2dict.hdf2dictItems node)) = lookup k kw' := by
      intro k
      rw [lookup_erase_nodup _ _ _ hnodup, hkw]
      by_cases hkt : k = "type"
      · subst hkt; simp [hnt]
      · simp only [hkt, if_false]
        rw [hflat]
        by_cases hkm : k = "metadata"
        · subst hkm; simp [hnm]
        · simp only [hkm, if_false, hlk]
          cases hf : lookup k fields with
          | some v' => simp
          | none =>
            simp only [Option.none_or, lookup]
            have e1 : ("metadata" == k) = false := by simpa using (Ne.symm hkm)
            have e2 : ("type" == k) = false := by simpa using (Ne.symm hkt)
            simp [e1, e2]
    unfold construct
    cases lookup kind Generated.classFields with
    | none => rfl
    | some spec =>
      simp only
      rw [bindKwargs_congr _ kw' spec (by simp only [hD]) (by intro p _; simp only [bindOne, hD])]

/-- what the transport does to the value kinds that occur as field values -/
theorem backVal_array (dt : DType) (n : Nat) (sh : List Nat) (d : Bytes)
    (hdt : dt.kind ≠ .object ∧ dt.kind ≠ .unicodeU) : backVal (.arr dt (n :: sh) d) = some (.arr dt (n :: sh) d) := by
  obtain ⟨h1, h2⟩ := hdt
  simp only [backVal, h5Create]
  simp [h5Load]

theorem backVal_npscalar (dt : DType) (d : Bytes) (hle : dt.big = false) :
    backVal (.npscalar dt d) = some (.npscalar dt d) := by
  simp [backVal, h5Create, scalarItem, h5Load, hle]

theorem backVal_int (i : Int) (hfit : fitsInt DType.int64 i = true) :
    backVal (.int i) = some (.npscalar DType.int64 (encodeInt DType.int64 i)) := by
  simp only [backVal, h5Create, scalarItem, hfit, if_true, Option.map_some, h5Load]
  rfl

/-- **Corollary (file-native nodes)**: when every field value is one the file returns unchanged
(ndarrays of rank ≥ 1, little-endian numpy scalars, strings — i.e. every node that itself came
out of `nir.read`), the file round trip re-runs the constructor on exactly the node's own
field values: `read ∘ write` agrees with the dictionary round trip of C13. -/
theorem leaf_native_roundtrip (version kind : String) (fields : List (String × Val)) (it ot : Val)
    (hw : kind ∈ Generated.whitelist)
    (hk : kind ≠ "NIRGraph" ∧ kind ≠ "Input" ∧ kind ≠ "Output" ∧ kind ≠ "Flatten")
    (hnt : lookup "type" fields = none) (hnm : lookup "metadata" fields = none)
    (hnative : ∀ k v, lookup k fields = some v → backVal v = some v)
    (f : H5) (hwr : write version (Node.mk kind fields it ot (.dict []) [] []) = .ok f) :
    read f = construct kind fields := by
  apply leaf_end_to_end version kind fields it ot hw hk hnt hnm _ fields _ f hwr
  · intro k v hl d hv
    have := hnative k v hl
    subst hv
    simp [backVal, h5Create] at this
  · intro k
    cases hl : lookup k fields with
    | none => rfl
    | some v => simp [hnative k v hl]

/-- Non-vacuity of the end-to-end theorems: an LIF node is written, and reading the file is
the LIF constructor on its four parameter arrays (which accepts them). -/
def exLifFields : List (String × Val) :=
  [("tau", .arr DType.float64 [2] []), ("r", .arr DType.float64 [2] []), ("v_leak", .arr DType.float64 [2] []),
   ("v_threshold", .arr DType.float64 [2] [])]
def exLif : Node := Node.mk "LIF" exLifFields (typeDict "input" (Val.ofInts [2])) (typeDict "output" (Val.ofInts [2])) (.dict []) [] []

example : ∃ f, write "0.2.0" exLif = .ok f ∧ read f = construct "LIF" exLifFields ∧
    (construct "LIF" exLifFields).toBool = true := by
  have hw : (write "0.2.0" exLif).toBool = true := by decide +kernel
  cases hf : write "0.2.0" exLif with
  | error e => rw [hf] at hw; cases hw
  | ok f =>
    refine ⟨f, rfl, ?_, by decide +kernel⟩
    apply leaf_native_roundtrip "0.2.0" "LIF" exLifFields _ _ (by decide) (by decide) rfl rfl _ f hf
    intro k v hl
    simp only [exLifFields, lookup] at hl
    repeat' split at hl
    all_goals (first | cases hl | skip)
    all_goals exact backVal_array _ _ _ _ (by decide)

/-- Non-vacuity: edges with a duplicate, a self-loop, a dotted and a non-ASCII endpoint. -/
example : (h5Create (edgesVal [("a", "b"), ("a", "b"), ("b", "b"), ("sub.x", "é")])).map
    (fun ds => decodeEdges (h5Load ds)) = some (.ok [("a", "b"), ("a", "b"), ("b", "b"), ("sub.x", "é")]) :=
  edges_roundtrip _

end NirVerif.C01
