import NirVerif.Lemmas.FileForm
import NirVerif.Lemmas.EndToEnd
import NirVerif.Lemmas.GraphBack
import NirVerif.Properties.C13
import NirVerif.Properties.C03

/-! # C01 — the HDF5 round trip returns an equivalent graph

About `Model.write` / `Model.read` (hand-written model of `nir.write` / `nir.read` and of the
h5py contract; tied to the code by the `files` correspondence suite: written trees and
read-back graphs are compared on every run).

What is kernel-checked here is the *transport*: nothing a dictionary holds is lost, renamed,
re-ordered or joined by anything else on the way through the file, at any nesting depth, and
the edge list comes back in order.  That the constructors re-run on the transported values
yield an equivalent node (`int → np.int64`, `tuple → ndarray` …) is covered per primitive by
C05/C19 on the constructor side and, for whole graphs, by the correspondence run and the
strict two-sided comparator of the oracle — not by a single end-to-end theorem. -/
namespace NirVerif.C01
open NirVerif NirVerif.Py NirVerif.Model NirVerif.Lemmas

theorem ensureStr_bytes (s : String) : ensureStr (.bytes s.toUTF8.data.toList) = .ok s := by
  have h : ByteArray.mk s.toUTF8.data.toList.toArray = s.toByteArray := by
    simp
  simp only [ensureStr, h]
  have hv : s.toByteArray.IsValidUTF8 := s.isValidUTF8
  simp [String.fromUTF8?, hv]
  rfl

theorem pairs_flatMap (edges : List Edge) :
    h5Load.pairs (edges.flatMap fun e => [e.1, e.2])
      = edges.map fun e => Val.list [.bytes e.1.toUTF8.data.toList, .bytes e.2.toUTF8.data.toList] := by
  induction edges with
  | nil => rfl
  | cons e rest ih => simp [List.flatMap_cons, h5Load.pairs, ih]

/-- **Edges survive in order**: decoding what the reader returns for the stored `edges`
dataset gives back exactly the edge list — any length, duplicates, self-loops, dotted and
non-ASCII endpoints included. -/
theorem edges_roundtrip (edges : List Edge) :
    (h5Create (edgesVal edges)).map (fun ds => decodeEdges (h5Load ds)) = some (.ok edges) := by
  rw [C03.edges_layout]
  cases edges with
  | nil => simp [h5Load, decodeEdges]
  | cons e rest =>
    simp only [List.isEmpty_cons, Bool.false_eq_true, if_false, Option.map_some, Option.some.injEq]
    simp only [h5Load, pairs_flatMap, decodeEdges]
    generalize (e :: rest) = l
    induction l with
    | nil => rfl
    | cons x xs ih =>
      simp only [List.map_cons, List.mapM_cons, ensureStr_bytes, bind, Except.bind, pure, Except.pure] at ih ⊢
      rw [ih]

/-- **Nothing lost, nothing renamed, at any depth**: every leaf value of the dictionary form
(any path through `nodes/<name>/…`, `metadata/…`) is found at the same path in the dictionary
the reader hands to the constructors. -/
theorem transport (path : List String) (fuel : Nat) (kvs : List (String × Val)) (items : List (String × H5))
    (h : writeRecursiveFuel fuel kvs [] = .ok items) (hne : path ≠ []) (hlast : path.getLast? ≠ some "metadata")
    (v : Val) (hp : getPath (.dict kvs) path = some v) (hleaf : ∀ d, v ≠ .dict d) :
    ∃ ds, h5Create v = some ds ∧ getPath (hdf2dict (.group items)) path = some (h5Load ds) :=
  path_roundtrip path fuel kvs items h hne hlast v hp hleaf

/-- **Nothing added**: a key the dictionary does not have is not in the group either. -/
theorem nothing_added (fuel : Nat) (kvs : List (String × Val)) (items : List (String × H5))
    (h : writeRecursiveFuel fuel kvs [] = .ok items) (k : String) (hk : lookup k kvs = none) :
    lookup k (hdf2dict.hdf2dictItems items) = none := by
  rw [hdf2dict_lookup, write_no_extra fuel kvs [] items h k hk]; rfl

/-- the type tag comes back as the same string (so the same class is rebuilt) -/
theorem type_tag (fuel : Nat) (kvs : List (String × Val)) (items : List (String × H5)) (kind : String)
    (h : writeRecursiveFuel fuel kvs [] = .ok items) (hk : lookup "type" kvs = some (.str kind)) :
    lookup "type" (hdf2dict.hdf2dictItems items) = some (.str kind) := by
  obtain ⟨ds, hc, hl⟩ := write_lookup fuel kvs [] items h "type" (.str kind) hk (by decide) (by intro d hd; cases hd)
  rw [hdf2dict_lookup, hl]
  simp only [h5Create] at hc
  split at hc
  · cases hc
  · cases hc; rfl

/-- **End to end, for every leaf primitive with the generic dictionary form** (all but Input,
Output, Flatten; metadata empty): whenever `nir.write` succeeds, `nir.read` of the file is the
class constructor applied to the *transported* field values — each field's value as
`create_dataset` stores it and `item[()]` returns it (`backVal`), under the same name, nothing
added, nothing dropped, whatever order the file lists them in; the empty metadata is
re-defaulted.  `kw'` is any keyword dictionary with those entries. -/
theorem leaf_end_to_end (version kind : String) (fields : List (String × Val)) (it ot : Val)
    (hw : kind ∈ Generated.whitelist)
    (hk : kind ≠ "NIRGraph" ∧ kind ≠ "Input" ∧ kind ≠ "Output" ∧ kind ≠ "Flatten")
    (hnt : lookup "type" fields = none) (hnm : lookup "metadata" fields = none)
    (hnd : ∀ k v, lookup k fields = some v → ∀ d, v ≠ .dict d)
    (kw' : List (String × Val)) (hkw : ∀ k, lookup k kw' = (lookup k fields).bind backVal)
    (f : H5) (hwr : write version (Node.mk kind fields it ot (.dict []) [] []) = .ok f) :
    read f = construct kind kw' := by
  -- the dictionary form
  have hd := C03.toDict_keys_generic kind fields it ot (.dict []) hk
  simp only [write, hd, bind, Except.bind, pure, Except.pure] at hwr
  generalize hkvs : fields ++ [("metadata", Val.dict []), ("type", Val.str kind)] = kvs at hwr hd
  cases hnode : writeRecursiveFuel (Val.size (.dict kvs) + 1) kvs [] with
  | error e => rw [hnode] at hwr; cases hwr
  | ok node =>
    rw [hnode] at hwr
    simp only [Except.ok.injEq] at hwr
    subst hwr
    -- facts about the dictionary
    have hlk : ∀ k, lookup k kvs = (lookup k fields).or (lookup k [("metadata", Val.dict []), ("type", Val.str kind)]) := by
      intro k; rw [← hkvs, lookup_append]
    have hmeta : ∀ kv ∈ kvs, kv.1 = "metadata" → kv.2 = .dict [] := by
      intro kv hm hkm
      rw [← hkvs] at hm
      rcases List.mem_append.mp hm with h1 | h1
      · exfalso
        have : (lookup "metadata" fields).isSome = true :=
          lookup_isSome_of_mem _ _ (by rw [← hkm]; exact List.mem_map_of_mem h1)
        rw [hnm] at this; cases this
      · simp only [List.mem_cons, List.mem_nil_iff, or_false] at h1
        rcases h1 with rfl | rfl
        · rfl
        · simp at hkm
    have hndk : ∀ k v, lookup k kvs = some v → k ≠ "metadata" → ∀ d, v ≠ .dict d := by
      intro k v hl hkm d hv
      rw [hlk] at hl
      cases hf : lookup k fields with
      | some v' => rw [hf] at hl; simp at hl; subst hl; exact hnd k v' hf d hv
      | none =>
        rw [hf] at hl
        simp only [Option.none_or, lookup] at hl
        split at hl
        · rename_i h1
          have : "metadata" = k := by simpa using h1
          exact hkm this.symm
        · split at hl
          · cases hl; cases hv
          · cases hl
    have hflat := flat_roundtrip _ kvs node hnode hmeta hndk
    have htype : lookup "type" (hdf2dict.hdf2dictItems node) = some (.str kind) :=
      type_tag _ kvs node kind hnode (by rw [← hkvs]; exact C13.lookup_type_append fields _ kind hnt)
    have hnodup : ((hdf2dict.hdf2dictItems node).map Prod.fst).Nodup := by
      rw [hdf2dictItems_keys]; exact write_nodup _ kvs [] node hnode List.nodup_nil
    -- the reader
    simp only [Model.read, h5Get, lookup, beq_self_eq_true, if_true, bind, Except.bind, hdf2dict]
    rw [C18.fromDict_generic _ kind htype hw ⟨hk.2.1, hk.2.2.1, hk.2.2.2, hk.1⟩]
    -- the constructor sees both dictionaries alike
    have hD : ∀ k, lookup k (erase "type" (hdf2dict.hdf2dictItems node)) = lookup k kw' := by
      intro k
      rw [lookup_erase_nodup _ _ _ hnodup, hkw]
      by_cases hkt : k = "type"
      · subst hkt; simp [hnt]
      · simp only [hkt, if_false]
        rw [hflat]
        by_cases hkm : k = "metadata"
        · subst hkm; simp [hnm]
        · simp only [hkm, if_false, hlk]
          cases hf : lookup k fields with
          | some v' => simp
          | none =>
            simp only [Option.none_or, lookup]
            have e1 : ("metadata" == k) = false := by simpa using (Ne.symm hkm)
            have e2 : ("type" == k) = false := by simpa using (Ne.symm hkt)
            simp [e1, e2]
    unfold construct
    cases lookup kind Generated.classFields with
    | none => rfl
    | some spec =>
      simp only
      rw [bindKwargs_congr _ kw' spec (by simp only [hD]) (by intro p _; simp only [bindOne, hD])]

/-- what the transport does to the value kinds that occur as field values -/
theorem backVal_array (dt : DType) (n : Nat) (sh : List Nat) (d : Bytes)
    (hdt : dt.kind ≠ .object ∧ dt.kind ≠ .unicodeU) : backVal (.arr dt (n :: sh) d) = some (.arr dt (n :: sh) d) := by
  obtain ⟨h1, h2⟩ := hdt
  simp only [backVal, h5Create]
  simp [h5Load]

theorem backVal_npscalar (dt : DType) (d : Bytes) (hle : dt.big = false) :
    backVal (.npscalar dt d) = some (.npscalar dt d) := by
  simp [backVal, h5Create, scalarItem, h5Load, hle]

theorem backVal_int (i : Int) (hfit : fitsInt DType.int64 i = true) :
    backVal (.int i) = some (.npscalar DType.int64 (encodeInt DType.int64 i)) := by
  simp only [backVal, h5Create, scalarItem, hfit, if_true, Option.map_some, h5Load]
  rfl

/-- **Corollary (file-native nodes)**: when every field value is one the file returns unchanged
(ndarrays of rank ≥ 1, little-endian numpy scalars, strings — i.e. every node that itself came
out of `nir.read`), the file round trip re-runs the constructor on exactly the node's own
field values: `read ∘ write` agrees with the dictionary round trip of C13. -/
theorem leaf_native_roundtrip (version kind : String) (fields : List (String × Val)) (it ot : Val)
    (hw : kind ∈ Generated.whitelist)
    (hk : kind ≠ "NIRGraph" ∧ kind ≠ "Input" ∧ kind ≠ "Output" ∧ kind ≠ "Flatten")
    (hnt : lookup "type" fields = none) (hnm : lookup "metadata" fields = none)
    (hnative : ∀ k v, lookup k fields = some v → backVal v = some v)
    (f : H5) (hwr : write version (Node.mk kind fields it ot (.dict []) [] []) = .ok f) :
    read f = construct kind fields := by
  apply leaf_end_to_end version kind fields it ot hw hk hnt hnm _ fields _ f hwr
  · intro k v hl d hv
    have := hnative k v hl
    subst hv
    simp [backVal, h5Create] at this
  · intro k
    cases hl : lookup k fields with
    | none => rfl
    | some v => simp [hnative k v hl]

/-- **Exact file round trip of a leaf node**: a node built by the constructor of a class that
stores its parameters unchanged, holding file-native values and empty metadata, is read back from
its own file as *exactly the same node* — fields, value types, derived types and metadata. -/
theorem leaf_exact (version kind : String) (kw : List (String × Val)) (n : Node) (hk : kind ∈ simpleKinds)
    (h : construct kind kw = .ok n)
    (hnot : lookup "input_type" kw = none ∧ lookup "output_type" kw = none)
    (hmeta : n.metadata = .dict [])
    (hnative : ∀ k v, lookup k n.fields = some v → backVal v = some v)
    (f : H5) (hwr : write version n = .ok f) : read f = .ok n := by
  obtain ⟨hkind, hc, he⟩ := construct_kind kind kw n h
  obtain ⟨hnt, hnm⟩ := construct_fields_clean kind kw n hk h
  have hidem := construct_idem kind kw n hk h hnot
  obtain ⟨hw, hg⟩ := simple_generic kind hk
  cases n with
  | mk k f' i o m c e =>
    simp only [Node.kind, Node.children, Node.edges, Node.fields, Node.metadata] at hkind hc he hnt hnm hidem hmeta hnative
    subst hkind hc he hmeta
    rw [leaf_native_roundtrip version k f' i o hw hg hnt hnm hnative f hwr, ← construct_meta_default k f' hnm]
    exact hidem

/-- … and the same for **Conv2d** (stored stride / padding / dilation are pairs). -/
theorem leaf_exact_conv2d (version : String) (kw : List (String × Val)) (n : Node)
    (h : construct "Conv2d" kw = .ok n) (hmeta : n.metadata = .dict [])
    (hnative : ∀ k v, lookup k n.fields = some v → backVal v = some v)
    (f : H5) (hwr : write version n = .ok f) : read f = .ok n := by
  obtain ⟨hkind, hc, he⟩ := construct_kind "Conv2d" kw n h
  obtain ⟨hnt, hnm⟩ := construct_conv2d_clean kw n h
  have hidem := construct_idem_conv2d kw n h
  cases n with
  | mk k f' i o m c e =>
    simp only [Node.kind, Node.children, Node.edges, Node.fields, Node.metadata] at hkind hc he hnt hnm hidem hmeta hnative
    subst hkind hc he hmeta
    rw [leaf_native_roundtrip version "Conv2d" f' i o (by decide) (by decide) hnt hnm hnative f hwr,
      ← construct_meta_default "Conv2d" f' hnm]
    exact hidem

/-! ## end to end for whole (flat) graphs -/

def GenericKind (kind : String) : Prop :=
  kind ∈ Generated.whitelist ∧ kind ≠ "NIRGraph" ∧ kind ≠ "Input" ∧ kind ≠ "Output" ∧ kind ≠ "Flatten"

/-- the children the graph-level theorem covers: Input, Output, Flatten and every primitive with
the generic dictionary form — i.e. every leaf primitive; empty metadata, no dictionary-valued
fields -/
inductive Supported : Node → Prop
  | generic (kind : String) (fields : List (String × Val)) (it ot : Val) (hg : GenericKind kind)
      (hnt : lookup "type" fields = none) (hnm : lookup "metadata" fields = none)
      (hnd : ∀ k v, lookup k fields = some v → ∀ d, v ≠ .dict d) :
      Supported (Node.mk kind fields it ot (.dict []) [] [])
  | input (it ot s : Val) (hit : getItem it "input" = .ok s) (hs : ∀ d, s ≠ .dict d) :
      Supported (Node.mk "Input" [] it ot (.dict []) [] [])
  | output (it ot s : Val) (hot : getItem ot "output" = .ok s) (hs : ∀ d, s ≠ .dict d) :
      Supported (Node.mk "Output" [] it ot (.dict []) [] [])
  | flatten (fields : List (String × Val)) (it ot s : Val) (hit : getItem it "input" = .ok s) (hs : ∀ d, s ≠ .dict d)
      (hnt : lookup "type" fields = none) (hnm : lookup "metadata" fields = none)
      (hnit : lookup "input_type" fields = none)
      (hnd : ∀ k v, lookup k fields = some v → ∀ d, v ≠ .dict d) :
      Supported (Node.mk "Flatten" fields it ot (.dict []) [] [])

/-- `n'` is what the reader rebuilds for the child `n`: the class constructor on the transported
field values (generic primitives), resp. on the transported shape (Input / Output / Flatten) -/
def ChildBack (n n' : Node) : Prop :=
  match n with
  | Node.mk kind fields it ot _ _ _ =>
    if kind = "Input" then
      ∃ s, getItem it "input" = .ok s ∧
        ∀ s', backVal s = some s' → construct "Input" [("input_type", typeDict "input" s')] = .ok n'
    else if kind = "Output" then
      ∃ s, getItem ot "output" = .ok s ∧
        ∀ s', backVal s = some s' → construct "Output" [("output_type", typeDict "output" s')] = .ok n'
    else if kind = "Flatten" then
      ∃ s, getItem it "input" = .ok s ∧
        ∀ s' kw', backVal s = some s' →
          (∀ k, lookup k kw' = if k = "input_type" then some (typeDict "input" s') else (lookup k fields).bind backVal) →
          construct "Flatten" kw' = .ok n'
    else
      ∀ kw', (∀ k, lookup k kw' = (lookup k fields).bind backVal) → construct kind kw' = .ok n'

/-- one supported child, from its dictionary form through its group back to a node -/
theorem child_step (n : Node) (hsup : Supported n) (d : Val) (hd : toDict n = .ok d) :
    ∃ kvs, d = .dict kvs ∧ kvs ≠ [] ∧
      ∀ fuel fuel' items n', writeRecursiveFuel fuel' kvs [] = .ok items →
        fromDictFuel (fuel + 1) (.dict (hdf2dict.hdf2dictItems items)) = .ok n' → ChildBack n n' := by
  cases hsup with
  | generic kind fields it ot hg hnt hnm hnd =>
    obtain ⟨hw, h1, h2, h3, h4⟩ := hg
    rw [C03.toDict_keys_generic kind fields it ot (.dict []) ⟨h1, h2, h3, h4⟩] at hd
    cases hd
    refine ⟨_, rfl, by simp, ?_⟩
    intro fuel fuel' items n' hwr hrd
    have e1 : ¬ kind = "Input" := h2
    have e2 : ¬ kind = "Output" := h3
    have e3 : ¬ kind = "Flatten" := h4
    simp only [ChildBack, e1, e2, e3, if_false]
    intro kw' hkw
    rw [← hrd]
    exact (generic_child_back fuel fuel' kind fields hw ⟨h1, h2, h3, h4⟩ hnt hnm hnd kw' hkw items hwr).symm
  | input it ot s hit hs =>
    simp only [toDict, typeEntry, hit, bind, Except.bind, pure, Except.pure, List.nil_append] at hd
    cases hd
    refine ⟨_, rfl, by simp, ?_⟩
    intro fuel fuel' items n' hwr hrd
    simp only [ChildBack, if_true]
    refine ⟨s, hit, ?_⟩
    intro s' hb
    rw [← hrd]
    exact (io_child_back fuel fuel' "Input" "input_type" "input" (Or.inl ⟨rfl, rfl, rfl⟩) s s' hs hb items hwr).symm
  | output it ot s hot hs =>
    simp only [toDict, typeEntry, hot, bind, Except.bind, pure, Except.pure, List.nil_append] at hd
    cases hd
    refine ⟨_, rfl, by simp, ?_⟩
    intro fuel fuel' items n' hwr hrd
    have e1 : ¬ "Output" = "Input" := by decide
    simp only [ChildBack, e1, if_false, if_true]
    refine ⟨s, hot, ?_⟩
    intro s' hb
    rw [← hrd]
    exact (io_child_back fuel fuel' "Output" "output_type" "output" (Or.inr ⟨rfl, rfl, rfl⟩) s s' hs hb items hwr).symm
  | flatten fields it ot s hit hs hnt hnm hnit hnd =>
    simp only [toDict, typeEntry, hit, bind, Except.bind, pure, Except.pure] at hd
    cases hd
    refine ⟨_, rfl, by simp, ?_⟩
    intro fuel fuel' items n' hwr hrd
    have e1 : ¬ "Flatten" = "Input" := by decide
    have e2 : ¬ "Flatten" = "Output" := by decide
    simp only [ChildBack, e1, e2, if_false, if_true]
    refine ⟨s, hit, ?_⟩
    intro s' kw' hb hkw
    rw [← hrd]
    exact (flatten_child_back fuel fuel' fields hnt hnm hnit hnd s s' hs hb kw' hkw items hwr).symm

/-- **End to end for flat graphs**: for a graph whose children are leaf primitives of any of the
17 classes (any number, any names the file accepts, any edge list — cycles,
duplicates, self-loops; empty metadata), whenever `nir.write` succeeds and `nir.read` returns a
graph, that graph has exactly the same edge list in the same order, empty metadata, the same set
of node names (re-ordered: the file lists links by name), and under every name the node the class
constructor builds from the transported field values of the original node (`ChildBack`). -/
theorem graph_end_to_end (version : String) (children : Nodes) (edges : List Edge) (it ot : Val)
    (hkeys : (children.map Prod.fst).Nodup)
    (hsup : ∀ k n, lookup k children = some n → Supported n)
    (f : H5) (hwr : write version (Node.mk "NIRGraph" [] it ot (.dict []) children edges) = .ok f)
    (g' : Node) (hrd : read f = .ok g') :
    ∃ cs, g' = mkGraph cs edges (.dict []) ∧ (cs.map Prod.fst).Perm (children.map Prod.fst) ∧
      ∀ k n, lookup k children = some n → ∃ n', lookup k cs = some n' ∧ ChildBack n n' := by
  -- the dictionary form of the graph
  simp only [write, toDict, bind, Except.bind, pure, Except.pure] at hwr
  cases hkids : toDict.toDictChildren children with
  | error e => rw [hkids] at hwr; cases hwr
  | ok kids =>
  rw [hkids] at hwr
  simp only at hwr
  generalize hkvs : [("nodes", Val.dict kids), ("edges", edgesVal edges), ("metadata", Val.dict []),
    ("type", Val.str "NIRGraph")] = kvsG at hwr
  cases hnode : writeRecursiveFuel (Val.size (.dict kvsG) + 1) kvsG [] with
  | error e => rw [hnode] at hwr; cases hwr
  | ok node =>
  rw [hnode] at hwr
  simp only [Except.ok.injEq] at hwr
  subst hwr
  obtain ⟨hk1, hk2⟩ := toDictChildren_spec children kids hkids
  -- what the writer stored
  have hlk : ∀ k, lookup k kvsG = if k = "nodes" then some (.dict kids) else if k = "edges" then some (edgesVal edges)
      else if k = "metadata" then some (.dict []) else if k = "type" then some (.str "NIRGraph") else none := by
    intro k
    rw [← hkvs]
    simp only [lookup]
    by_cases h1 : k = "nodes"
    · subst h1; simp
    · have e1 : ("nodes" == k) = false := by simpa using (Ne.symm h1)
      simp only [e1, Bool.false_eq_true, if_false, h1]
      by_cases h2 : k = "edges"
      · subst h2; simp
      · have e2 : ("edges" == k) = false := by simpa using (Ne.symm h2)
        simp only [e2, Bool.false_eq_true, if_false, h2]
        by_cases h3 : k = "metadata"
        · subst h3; simp
        · have e3 : ("metadata" == k) = false := by simpa using (Ne.symm h3)
          simp only [e3, Bool.false_eq_true, if_false, h3]
          by_cases h4 : k = "type"
          · subst h4; simp
          · have e4 : ("type" == k) = false := by simpa using (Ne.symm h4)
            simp [e4, h4]
  obtain ⟨fuelS, sub, hsub, hnodes⟩ := write_lookup_group _ kvsG [] node hnode "nodes" kids (by rw [hlk]; simp) (by simp)
  obtain ⟨ds, hcds, hedges⟩ := write_lookup _ kvsG [] node hnode "edges" (edgesVal edges) (by rw [hlk]; simp) (by decide)
    (by intro d hd; simp [edgesVal] at hd)
  have htype : lookup "type" (hdf2dict.hdf2dictItems node) = some (.str "NIRGraph") :=
    type_back _ kvsG node "NIRGraph" hnode (by rw [hlk]; simp)
  have hmetaG : ∀ kv ∈ kvsG, kv.1 = "metadata" → kv.2 = .dict [] := by
    intro kv hm hkm
    rw [← hkvs] at hm
    simp only [List.mem_cons, List.mem_nil_iff, or_false] at hm
    rcases hm with rfl | rfl | rfl | rfl <;> first | rfl | simp at hkm
  have hmetaNone : lookup "metadata" node = none := by
    rw [write_skip_meta _ kvsG [] node hnode hmetaG]; rfl
  have hotherN : ∀ k, k ≠ "type" → k ≠ "nodes" → k ≠ "edges" → lookup k node = none := by
    intro k h1 h2 h3
    by_cases hm : k = "metadata"
    · rw [hm]; exact hmetaNone
    · rw [write_no_extra _ kvsG [] node hnode k (by rw [hlk]; simp [h1, h2, h3, hm])]; rfl
  have hnodupN : (node.map Prod.fst).Nodup := write_nodup _ kvsG [] node hnode List.nodup_nil
  have hnodupS : (sub.map Prod.fst).Nodup := write_nodup _ kids [] sub hsub List.nodup_nil
  -- the reader
  simp only [Model.read, h5Get, lookup, beq_self_eq_true, if_true, bind, Except.bind, hdf2dict, fromDict] at hrd
  generalize hD : hdf2dict.hdf2dictItems node = D at hrd htype
  have hDn : lookup "nodes" D = some (.dict (hdf2dict.hdf2dictItems sub)) := by
    rw [← hD, hdf2dict_lookup, hnodes]; simp [hdf2dict]
  have hDe : lookup "edges" D = some (h5Load ds) := by
    rw [← hD, hdf2dict_lookup, hedges]; simp [hdf2dict]
  have hDnodup : (D.map Prod.fst).Nodup := by rw [← hD, hdf2dictItems_keys]; exact hnodupN
  have hDother : ∀ k, k ≠ "type" → k ≠ "nodes" → k ≠ "edges" → lookup k D = none := by
    intro k h1 h2 h3
    rw [← hD, hdf2dict_lookup, hotherN k h1 h2 h3]; rfl
  rw [fromDictFuel_graph _ D _ _ htype hDn hDe] at hrd
  cases hcs : ((hdf2dict.hdf2dictItems sub).mapM fun (kv : String × Val) =>
      (fromDictFuel (Val.depth (.dict D)) kv.2).map fun n => (kv.1, n)) with
  | error e => rw [hcs] at hrd; cases hrd
  | ok cs =>
  rw [hcs] at hrd
  have hdec : decodeEdges (h5Load ds) = .ok edges := by
    have := edges_roundtrip edges
    rw [hcds] at this
    simpa using this
  obtain ⟨bound, hb1, hb2⟩ := graph_bound D hDnodup hDother
  simp only [Except.bind, hdec, hb1, hb2] at hrd
  obtain ⟨hcs1, hcs2⟩ := mapM_children_spec _ _ cs hcs
  have hcsnodup : (cs.map Prod.fst).Nodup := by rw [hcs1, hdf2dictItems_keys]; exact hnodupS
  rw [insertAll_nil cs hcsnodup] at hrd
  have hg' : g' = mkGraph cs edges (.dict []) := by cases hrd; rfl
  -- every original child has its group
  have hchild : ∀ k n, lookup k children = some n → ∃ kvs fuel'' items, toDict n = .ok (.dict kvs) ∧
      writeRecursiveFuel fuel'' kvs [] = .ok items ∧ lookup k sub = some (.group items) ∧
      (∀ fuel n', fromDictFuel (fuel + 1) (.dict (hdf2dict.hdf2dictItems items)) = .ok n' → ChildBack n n') := by
    intro k n hl
    obtain ⟨d, hd, hkd⟩ := hk2 k n hl
    obtain ⟨kvs, rfl, hne, hstep⟩ := child_step n (hsup k n hl) d hd
    obtain ⟨fuel'', items, hw, hs⟩ := write_lookup_group _ kids [] sub hsub k kvs hkd (fun h => hne h.2)
    exact ⟨kvs, fuel'', items, hd, hw, hs, fun fuel n' h => hstep fuel fuel'' items n' hw h⟩
  refine ⟨cs, hg', ?_, ?_⟩
  · -- same set of names
    rw [hcs1, hdf2dictItems_keys, ← hk1]
    apply (List.perm_ext_iff_of_nodup hnodupS (by rw [hk1]; exact hkeys)).mpr
    intro k
    constructor
    · intro hm
      by_cases hk : k ∈ kids.map Prod.fst
      · exact hk
      · exfalso
        have h1 := lookup_isSome_of_mem k sub hm
        rw [write_no_extra _ kids [] sub hsub k (lookup_eq_none_of_not_mem k kids hk)] at h1
        cases h1
    · intro hm
      rw [hk1] at hm
      obtain ⟨n, hn⟩ := Option.isSome_iff_exists.mp (lookup_isSome_of_mem k children hm)
      obtain ⟨kvs, fuel'', items, _, _, hs, _⟩ := hchild k n hn
      exact (lookup_isSome_iff_mem k sub).mp (by rw [hs]; rfl)
  · intro k n hl
    obtain ⟨kvs, fuel'', items, _, _, hs, hback⟩ := hchild k n hl
    have hcd : lookup k (hdf2dict.hdf2dictItems sub) = some (.dict (hdf2dict.hdf2dictItems items)) := by
      rw [hdf2dict_lookup, hs]; simp [hdf2dict]
    obtain ⟨n', hn', hfd⟩ := hcs2 k _ hcd
    have hfuel : Val.depth (.dict D) = Val.depth.depthList D + 1 := by simp only [Val.depth]; omega
    rw [hfuel] at hfd
    exact ⟨n', hn', hback _ n' hfd⟩

/-! ## exactness for flat graphs: `read(write(g))` is `g` up to the order of the node dictionary -/

/-- nodes that are read back from their own group as exactly themselves -/
inductive FileExact : Node → Prop
  | simple (kind : String) (kw : List (String × Val)) (n : Node) (hk : kind ∈ simpleKinds)
      (h : construct kind kw = .ok n) (hnot : lookup "input_type" kw = none ∧ lookup "output_type" kw = none)
      (hmeta : n.metadata = .dict []) (hnative : ∀ k v, lookup k n.fields = some v → backVal v = some v) : FileExact n
  | conv2d (kw : List (String × Val)) (n : Node) (h : construct "Conv2d" kw = .ok n)
      (hmeta : n.metadata = .dict []) (hnative : ∀ k v, lookup k n.fields = some v → backVal v = some v) : FileExact n
  | input (s : Val) (hn : backVal s = some s) :
      FileExact (Node.mk "Input" [] (typeDict "input" s) (typeDict "output" s) (.dict []) [] [])
  | output (s : Val) (hn : backVal s = some s) :
      FileExact (Node.mk "Output" [] (typeDict "input" s) (typeDict "output" s) (.dict []) [] [])

theorem not_dict_of_native (v : Val) (h : backVal v = some v) : ∀ d, v ≠ .dict d := by
  intro d hv; subst hv; simp [backVal, h5Create] at h

theorem generic_exact (kind : String) (n : Node) (hkind : n.kind = kind) (hleaf : n.children = [] ∧ n.edges = [])
    (hw : kind ∈ Generated.whitelist)
    (hg : kind ≠ "NIRGraph" ∧ kind ≠ "Input" ∧ kind ≠ "Output" ∧ kind ≠ "Flatten")
    (hnt : lookup "type" n.fields = none) (hnm : lookup "metadata" n.fields = none)
    (hmeta : n.metadata = .dict []) (hnative : ∀ k v, lookup k n.fields = some v → backVal v = some v)
    (hidem : construct kind (n.fields ++ [("metadata", n.metadata)]) = .ok n) :
    Supported n ∧ ∀ n', ChildBack n n' → n' = n := by
  cases n with
  | mk k f i o m c e =>
    simp only [Node.kind, Node.children, Node.edges, Node.fields, Node.metadata] at hkind hleaf hnt hnm hmeta hnative hidem
    obtain ⟨hc, he⟩ := hleaf
    subst hkind hc he hmeta
    refine ⟨Supported.generic k f i o ⟨hw, hg⟩ hnt hnm (fun k v hl => not_dict_of_native v (hnative k v hl)), ?_⟩
    intro n' hcb
    have e1 : ¬ k = "Input" := hg.2.1
    have e2 : ¬ k = "Output" := hg.2.2.1
    have e3 : ¬ k = "Flatten" := hg.2.2.2
    simp only [ChildBack, e1, e2, e3, if_false] at hcb
    have h1 := hcb f (by
      intro key
      cases hl : lookup key f with
      | none => rfl
      | some v => simp [hnative key v hl])
    rw [← construct_meta_default k f hnm, hidem] at h1
    exact (Except.ok.inj h1).symm

theorem fileExact_spec (n : Node) (h : FileExact n) : Supported n ∧ ∀ n', ChildBack n n' → n' = n := by
  cases h with
  | simple kind kw n hk hc hnot hmeta hnative =>
    obtain ⟨hkind, hch, he⟩ := construct_kind kind kw n hc
    obtain ⟨hnt, hnm⟩ := construct_fields_clean kind kw n hk hc
    obtain ⟨hw, hg⟩ := simple_generic kind hk
    exact generic_exact kind n hkind ⟨hch, he⟩ hw hg hnt hnm hmeta hnative (construct_idem kind kw n hk hc hnot)
  | conv2d kw n hc hmeta hnative =>
    obtain ⟨hkind, hch, he⟩ := construct_kind "Conv2d" kw n hc
    obtain ⟨hnt, hnm⟩ := construct_conv2d_clean kw n hc
    exact generic_exact "Conv2d" n hkind ⟨hch, he⟩ (by decide) (by decide) hnt hnm hmeta hnative (construct_idem_conv2d kw n hc)
  | input s hn =>
    refine ⟨Supported.input _ _ s rfl (not_dict_of_native s hn), ?_⟩
    intro n' hcb
    simp only [ChildBack, if_true] at hcb
    obtain ⟨s0, hit, hcons⟩ := hcb
    · have hs : s0 = s := by
        simp only [getItem, typeDict, lookup, beq_self_eq_true, if_true, Except.ok.injEq] at hit
        exact hit.symm
      subst hs
      have h1 := hcons s0 hn
      have h2 : construct "Input" [("input_type", typeDict "input" s0)] =
          .ok (Node.mk "Input" [] (typeDict "input" s0) (typeDict "output" s0) (.dict []) [] []) := rfl
      rw [h2] at h1
      exact (Except.ok.inj h1).symm
  | output s hn =>
    refine ⟨Supported.output _ _ s rfl (not_dict_of_native s hn), ?_⟩
    intro n' hcb
    have e1 : ¬ "Output" = "Input" := by decide
    simp only [ChildBack, e1, if_false, if_true] at hcb
    obtain ⟨s0, hot, hcons⟩ := hcb
    · have hs : s0 = s := by
        simp only [getItem, typeDict, lookup, beq_self_eq_true, if_true, Except.ok.injEq] at hot
        exact hot.symm
      subst hs
      have h1 := hcons s0 hn
      have h2 : construct "Output" [("output_type", typeDict "output" s0)] =
          .ok (Node.mk "Output" [] (typeDict "input" s0) (typeDict "output" s0) (.dict []) [] []) := rfl
      rw [h2] at h1
      exact (Except.ok.inj h1).symm

theorem perm_of_lookup {α} (a b : List (String × α)) (ha : (a.map Prod.fst).Nodup) (hb : (b.map Prod.fst).Nodup)
    (hl : ∀ k, lookup k a = lookup k b) : a.Perm b := by
  have nodup_pairs : ∀ (l : List (String × α)), (l.map Prod.fst).Nodup → l.Nodup := by
    intro l h
    have := List.pairwise_map.mp h
    exact this.imp (fun hne e => hne (by rw [e]))
  apply (List.perm_ext_iff_of_nodup (nodup_pairs a ha) (nodup_pairs b hb)).mpr
  intro kv
  obtain ⟨k, v⟩ := kv
  constructor
  · intro hm
    have := lookup_of_mem_nodup' a ha k v hm
    rw [hl] at this
    exact mem_of_lookup' k v b this
  · intro hm
    have := lookup_of_mem_nodup' b hb k v hm
    rw [← hl] at this
    exact mem_of_lookup' k v a this

/-- **Exact file round trip of flat graphs, up to the order of the node dictionary**: a graph whose
children are constructor-built nodes of the parameter-storing classes or Conv2d with file-native
values, Inputs and Outputs (empty metadata), any edge list: whenever `nir.write` succeeds and
`nir.read` returns a graph, it is the original graph with its node dictionary re-ordered (the
file lists links by name) — every node exactly itself, the edge list exactly itself. -/
theorem graph_file_exact (version : String) (children : Nodes) (edges : List Edge) (it ot : Val)
    (hkeys : (children.map Prod.fst).Nodup)
    (hex : ∀ k n, lookup k children = some n → FileExact n)
    (f : H5) (hwr : write version (Node.mk "NIRGraph" [] it ot (.dict []) children edges) = .ok f)
    (g' : Node) (hrd : read f = .ok g') :
    ∃ cs, g' = mkGraph cs edges (.dict []) ∧ cs.Perm children := by
  obtain ⟨cs, hg, hperm, hch⟩ := graph_end_to_end version children edges it ot hkeys
    (fun k n hl => (fileExact_spec n (hex k n hl)).1) f hwr g' hrd
  refine ⟨cs, hg, ?_⟩
  have hcsn : (cs.map Prod.fst).Nodup := hperm.nodup_iff.mpr hkeys
  apply perm_of_lookup cs children hcsn hkeys
  intro k
  cases hl : lookup k children with
  | some n =>
    obtain ⟨n', hn', hcb⟩ := hch k n hl
    rw [hn', (fileExact_spec n (hex k n hl)).2 n' hcb]
  | none =>
    apply lookup_eq_none_of_not_mem
    intro hm
    have : k ∈ children.map Prod.fst := hperm.mem_iff.mp hm
    have := lookup_isSome_of_mem k children this
    rw [hl] at this; cases this

/-- Non-vacuity of the end-to-end theorems: an LIF node is written, and reading the file is
the LIF constructor on its four parameter arrays (which accepts them). -/
def exLifFields : List (String × Val) :=
  [("tau", .arr DType.float64 [2] []), ("r", .arr DType.float64 [2] []), ("v_leak", .arr DType.float64 [2] []),
   ("v_threshold", .arr DType.float64 [2] [])]
def exLif : Node := Node.mk "LIF" exLifFields (typeDict "input" (Val.ofInts [2])) (typeDict "output" (Val.ofInts [2])) (.dict []) [] []

example : ∃ f, write "0.2.0" exLif = .ok f ∧ read f = construct "LIF" exLifFields ∧
    (construct "LIF" exLifFields).toBool = true := by
  have hw : (write "0.2.0" exLif).toBool = true := by decide +kernel
  cases hf : write "0.2.0" exLif with
  | error e => rw [hf] at hw; cases hw
  | ok f =>
    refine ⟨f, rfl, ?_, by decide +kernel⟩
    apply leaf_native_roundtrip "0.2.0" "LIF" exLifFields _ _ (by decide) (by decide) rfl rfl _ f hf
    intro k v hl
    simp only [exLifFields, lookup] at hl
    repeat' split at hl
    all_goals (first | cases hl | skip)
    all_goals exact backVal_array _ _ _ _ (by decide)

/-- Non-vacuity of `leaf_exact`: the LIF node built by the constructor from four arrays is
written and read back as itself. -/
theorem exLif_built : construct "LIF" exLifFields = .ok exLif := by rfl

example : ∃ f, write "0.2.0" exLif = .ok f ∧ read f = .ok exLif := by
  have hw : (write "0.2.0" exLif).toBool = true := by decide +kernel
  cases hf : write "0.2.0" exLif with
  | error e => rw [hf] at hw; cases hw
  | ok f =>
    refine ⟨f, rfl, ?_⟩
    apply leaf_exact "0.2.0" "LIF" exLifFields exLif (by decide) exLif_built ⟨rfl, rfl⟩ rfl _ f hf
    intro k v hl
    simp only [exLif, Node.fields, exLifFields, lookup] at hl
    repeat' split at hl
    all_goals (first | cases hl | skip)
    all_goals exact backVal_array _ _ _ _ (by decide)

/-- Non-vacuity of `graph_end_to_end`: Input → LIF (with a self-loop) → Output is written and
read back (both evaluated by the kernel), its children meet `Supported`, and the theorem yields
the same edges and the three names. -/
def exIn : Node := Node.mk "Input" [] (typeDict "input" (Val.ofInts [2])) (typeDict "output" (Val.ofInts [2])) (.dict []) [] []
def exOut : Node := Node.mk "Output" [] (typeDict "input" (Val.ofInts [2])) (typeDict "output" (Val.ofInts [2])) (.dict []) [] []
def exChildren : Nodes := [("in", exIn), ("lif", exLif), ("out", exOut)]
def exEdges : List Edge := [("in", "lif"), ("lif", "out"), ("lif", "lif")]

example : ∃ f g' cs, write "0.2.0" (mkGraph exChildren exEdges) = .ok f ∧ read f = .ok g' ∧
    g' = mkGraph cs exEdges (.dict []) ∧ (cs.map Prod.fst).Perm ["in", "lif", "out"] ∧
    ∃ n', lookup "lif" cs = some n' ∧ ChildBack exLif n' := by
  have hw : (write "0.2.0" (mkGraph exChildren exEdges)).toBool = true := by decide +kernel
  have hr : ((write "0.2.0" (mkGraph exChildren exEdges)).bind read).toBool = true := by decide +kernel
  cases hf : write "0.2.0" (mkGraph exChildren exEdges) with
  | error e => rw [hf] at hw; cases hw
  | ok f =>
    rw [hf] at hr
    cases hg : read f with
    | error e => simp only [Except.bind, hg] at hr; cases hr
    | ok g' =>
      have hsup : ∀ k n, lookup k exChildren = some n → Supported n := by
        intro k n hl
        simp only [exChildren, lookup] at hl
        repeat' split at hl
        all_goals (first | cases hl | skip)
        · exact Supported.input _ _ (Val.ofInts [2]) rfl (by intro d h; cases h)
        · exact Supported.generic "LIF" exLifFields _ _ ⟨by decide, by decide, by decide, by decide, by decide⟩ rfl rfl
            (by
              intro k v hl d hv
              simp only [exLifFields, lookup] at hl
              repeat' split at hl
              all_goals (first | cases hl | skip)
              all_goals cases hv)
        · exact Supported.output _ _ (Val.ofInts [2]) rfl (by intro d h; cases h)
      obtain ⟨cs, h1, h2, h3⟩ := graph_end_to_end "0.2.0" exChildren exEdges _ _ (by decide) hsup f hf g' hg
      exact ⟨f, g', cs, rfl, hg, h1, h2, h3 "lif" exLif rfl⟩

/-- Non-vacuity of `graph_file_exact`: the same Input → LIF → Output graph is read back as itself
(node dictionary re-ordered by name). -/
example : ∃ f g' cs, write "0.2.0" (mkGraph exChildren exEdges) = .ok f ∧ read f = .ok g' ∧
    g' = mkGraph cs exEdges (.dict []) ∧ cs.Perm exChildren := by
  have hw : (write "0.2.0" (mkGraph exChildren exEdges)).toBool = true := by decide +kernel
  have hr : ((write "0.2.0" (mkGraph exChildren exEdges)).bind read).toBool = true := by decide +kernel
  cases hf : write "0.2.0" (mkGraph exChildren exEdges) with
  | error e => rw [hf] at hw; cases hw
  | ok f =>
    rw [hf] at hr
    cases hg : read f with
    | error e => simp only [Except.bind, hg] at hr; cases hr
    | ok g' =>
      have hnat : backVal (Val.ofInts [2]) = some (Val.ofInts [2]) := backVal_array _ _ _ _ (by decide)
      have hex : ∀ k n, lookup k exChildren = some n → FileExact n := by
        intro k n hl
        simp only [exChildren, lookup] at hl
        repeat' split at hl
        all_goals (first | cases hl | skip)
        · exact FileExact.input _ hnat
        · refine FileExact.simple "LIF" exLifFields exLif (by decide) exLif_built ⟨rfl, rfl⟩ rfl ?_
          intro k v hl
          simp only [exLif, Node.fields, exLifFields, lookup] at hl
          repeat' split at hl
          all_goals (first | cases hl | skip)
          all_goals exact backVal_array _ _ _ _ (by decide)
        · exact FileExact.output _ hnat
      obtain ⟨cs, h1, h2⟩ := graph_file_exact "0.2.0" exChildren exEdges _ _ (by decide) hex f hf g' hg
      exact ⟨f, g', cs, rfl, hg, h1, h2⟩

/-- Non-vacuity: edges with a duplicate, a self-loop, a dotted and a non-ASCII endpoint. -/
example : (h5Create (edgesVal [("a", "b"), ("a", "b"), ("b", "b"), ("sub.x", "é")])).map
    (fun ds => decodeEdges (h5Load ds)) = some (.ok [("a", "b"), ("a", "b"), ("b", "b"), ("sub.x", "é")]) :=
  edges_roundtrip _

end NirVerif.C01
