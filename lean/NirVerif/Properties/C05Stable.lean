import NirVerif.Properties.C05
import NirVerif.Properties.C01

/-! # C05 (continued) — declared types are stable under the round trips

"The same holds for a node after it has been through a file or dict round trip": for the
classes whose constructor stores its parameters unchanged the node that comes back *is* the
original node (C13 `roundtrip_exact`, C01 `leaf_exact`), so in particular its declared input and
output types are the ones C05 describes. -/
namespace NirVerif.C05
open NirVerif NirVerif.Py NirVerif.Model NirVerif.Lemmas

/-- declared types survive `from_dict(to_dict(n))` -/
theorem stable_dict (kind : String) (kw : List (String × Val)) (n : Node) (hk : kind ∈ simpleKinds)
    (h : construct kind kw = .ok n)
    (hnot : lookup "input_type" kw = none ∧ lookup "output_type" kw = none) :
    ∃ n', (toDict n).bind fromDict = .ok n' ∧ n'.inputType = n.inputType ∧ n'.outputType = n.outputType :=
  ⟨n, C13.roundtrip_exact kind kw n hk h hnot, rfl, rfl⟩

/-- declared types survive `read(write(n))` (file-native parameter values, empty metadata) -/
theorem stable_file (version kind : String) (kw : List (String × Val)) (n : Node) (hk : kind ∈ simpleKinds)
    (h : construct kind kw = .ok n)
    (hnot : lookup "input_type" kw = none ∧ lookup "output_type" kw = none)
    (hmeta : n.metadata = .dict [])
    (hnative : ∀ k v, lookup k n.fields = some v → backVal v = some v)
    (f : H5) (hwr : write version n = .ok f) :
    ∃ n', read f = .ok n' ∧ n'.inputType = n.inputType ∧ n'.outputType = n.outputType :=
  ⟨n, C01.leaf_exact version kind kw n hk h hnot hmeta hnative f hwr, rfl, rfl⟩

end NirVerif.C05
