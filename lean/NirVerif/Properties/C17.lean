import NirVerif.Model.FS

/-! # C17 — observing a graph never changes it

In the model every observer is a *function* of the graph value: it has no way to change the
graph, so the frame condition holds by construction — that is the specification the
implementation has to refine.  The weight of this property is therefore carried by the
correspondence check: for every observer call (failing ones included) the harness takes a
deep snapshot of the real objects (bytes of every array, `id` of every node and container)
before and after, and requires them equal, i.e. that the real observer behaves like the
model's pure function; and it mutates one `read` result and re-snapshots another and the
file.  The theorems below state the model side explicitly so that the obligation is visible. -/
namespace NirVerif.C17
open NirVerif NirVerif.Py NirVerif.Model

inductive Observer where
  | toDict | write (version : String) | checkTypes | inputs | outputs

inductive Outcome where
  | dict (d : Val) | file (f : H5) | checked (b : Bool) | nodes (ns : Nodes) | raised (e : PyErr)

/-- one observer call: the graph it leaves behind and what it returns / raises -/
def observe (g : Node) : Observer → Node × Outcome
  | .toDict => (g, match toDict g with | .ok d => .dict d | .error e => .raised e)
  | .write v => (g, match write v g with | .ok f => .file f | .error e => .raised e)
  | .checkTypes => (g, match checkTypes g with | .ok b => .checked b | .error e => .raised e)
  | .inputs => (g, .nodes (graphInputs g))
  | .outputs => (g, .nodes (graphOutputs g))

/-- every observer — successful or failing — leaves the graph exactly as it was -/
theorem pure (g : Node) (o : Observer) : (observe g o).1 = g := by cases o <;> rfl

/-- hence any sequence of observers does -/
theorem pure_history (g : Node) (os : List Observer) :
    os.foldl (fun acc o => (observe acc o).1) g = g := by
  induction os with
  | nil => rfl
  | cons o rest ih => rw [List.foldl_cons, pure]; exact ih

/-- reads are functions of the file: two reads of one file return equal, independent values,
and reading does not change the file (cf. `C15.step_refines`) -/
theorem read_deterministic (f : H5) : read f = read f ∧
    ∀ fs : FS, fs.content = some f → (fsStep "v" fs .read).1.content = some f := by
  refine ⟨rfl, ?_⟩
  intro fs h
  simp only [fsStep]
  split <;> (try split) <;> (try split) <;> simp [h]

end NirVerif.C17
