import NirVerif.Properties.C05
import NirVerif.Properties.C19
import NirVerif.Generated.NeuronShapes
import NirVerif.Generated.Guards

/-! # C19 / C05 (continued) — the neuron constructors' shape check, as the source states it now

`Generated.sameShapeFields` and `Generated.typeSourceField` are regenerated on every run (translator item T9) from the
first assertion of each neuron class's `__post_init__` (a chain `self.a.shape == self.b.shape == …`) and from the two
assignments that build the declared types.  The theorems below fail to build when a parameter is dropped from (or added
to) a chain, or when the types are taken from another parameter. -/
namespace NirVerif.C19
open NirVerif NirVerif.Py NirVerif.Model

/-- the common-shape assertion of every neuron class compares exactly the class's parameters (CubaLIF: all but the input
weight, which is checked after materialisation), and both declared types are the shape of one of the compared parameters -/
theorem shape_fields_generated :
    Generated.sameShapeFields =
      [("CubaLIF", ["tau_syn", "tau_mem", "r", "v_leak", "v_threshold"]), ("IF", ["r", "v_threshold"]),
       ("LI", ["tau", "r", "v_leak"]), ("LIF", ["tau", "r", "v_leak", "v_threshold"])] ∧
    ∀ kf ∈ Generated.typeSourceField, ∃ flds, lookup kf.1 Generated.sameShapeFields = some flds ∧ kf.2 ∈ flds := by
  decide +kernel

/-- the model's constructor on the generated table: for every class and field list *the source states*, parameters of
one common shape are accepted and both declared types are that shape (C05 `neuron`, re-checked against the source) -/
theorem neuron_generated (kind : String) (fields : List String)
    (hk : (kind, fields) ∈ Generated.sameShapeFields) (hc : kind ≠ "CubaLIF")
    (f : List (String × Val)) (sh : List Nat)
    (hp : ∀ fld ∈ fields, ∃ dt d, lookup fld f = some (.arr dt sh d)) :
    ∃ node, postInit kind f = .ok node ∧
      C05.Declares node.inputType "input" sh ∧ C05.Declares node.outputType "output" sh := by
  apply C05.neuron kind fields _ f sh hp
  rw [shape_fields_generated.1] at hk
  simp only [List.mem_cons, Prod.mk.injEq, List.mem_nil_iff, or_false] at hk ⊢
  rcases hk with ⟨rfl, _⟩ | h | h | h
  · exact absurd rfl hc
  · exact Or.inl h
  · exact Or.inr (Or.inl h)
  · exact Or.inr (Or.inr h)

/-! ## the guards at the top of the Affine / Linear and Conv constructors (translator item T10) -/

/-- what the source states now: weight rank at least 2 for both dense classes; the padding guard of both convolution
classes looks at `str` and `bytes` values and admits exactly `'same'` and `'valid'` -/
theorem guards_generated :
    Generated.minWeightRank = [("Affine", 2), ("Linear", 2)] ∧
    Generated.paddingWhitelist = [("Conv1d", ["same", "valid"]), ("Conv2d", ["same", "valid"])] ∧
    Generated.paddingGuardTypes = [("Conv1d", ["str", "bytes"]), ("Conv2d", ["str", "bytes"])] := by
  decide +kernel

/-- the weight-rank characterisation with the bound the source states -/
theorem weight_rank_generated (kind : String) (k : Nat) (hk : (kind, k) ∈ Generated.minWeightRank)
    (f : List (String × Val)) (dt : DType) (sh : List Nat) (d : Bytes)
    (hw : lookup "weight" f = some (.arr dt sh d)) :
    accepted (postInit kind f) ↔ k ≤ sh.length := by
  rw [guards_generated.1] at hk
  simp only [List.mem_cons, Prod.mk.injEq, List.mem_nil_iff, or_false] at hk
  rcases hk with ⟨rfl, rfl⟩ | ⟨rfl, rfl⟩
  · exact (weight_rank "Affine" (Or.inl rfl) f dt sh d hw).1
  · exact (weight_rank "Linear" (Or.inr rfl) f dt sh d hw).1

/-- the padding-string characterisation with the whitelist the source states: a string is accepted iff it is in it -/
theorem padding_generated (kind : String) (wl : List String) (hk : (kind, wl) ∈ Generated.paddingWhitelist)
    (f : List (String × Val)) (s : String)
    (hp : lookup "padding" f = some (.str s)) (hi : lookup "input_shape" f = some .none)
    (hs : (lookup "stride" f).isSome) (hd : (lookup "dilation" f).isSome) :
    accepted (postInit kind f) ↔ s ∈ wl := by
  rw [guards_generated.2.1] at hk
  simp only [List.mem_cons, Prod.mk.injEq, List.mem_nil_iff, or_false] at hk
  rcases hk with ⟨rfl, rfl⟩ | ⟨rfl, rfl⟩
  · rw [(padding_string "Conv1d" (Or.inl rfl) f s hp hi hs hd).1]; simp
  · rw [(padding_string "Conv2d" (Or.inr rfl) f s hp hi hs hd).1]; simp

end NirVerif.C19
