import NirVerif.Properties.C05
import NirVerif.Properties.C19
import NirVerif.Generated.NeuronShapes

/-! # C19 / C05 (continued) — the neuron constructors' shape check, as the source states it now

`Generated.sameShapeFields` and `Generated.typeSourceField` are regenerated on every run (translator item T9) from the
first assertion of each neuron class's `__post_init__` (a chain `self.a.shape == self.b.shape == …`) and from the two
assignments that build the declared types.  The theorems below fail to build when a parameter is dropped from (or added
to) a chain, or when the types are taken from another parameter. -/
namespace NirVerif.C19
open NirVerif NirVerif.Py NirVerif.Model

/-- the common-shape assertion of every neuron class compares exactly the class's parameters (CubaLIF: all but the input
weight, which is checked after materialisation), and both declared types are the shape of one of the compared parameters -/
theorem shape_fields_generated :
    Generated.sameShapeFields =
      [("CubaLIF", ["tau_syn", "tau_mem", "r", "v_leak", "v_threshold"]), ("IF", ["r", "v_threshold"]),
       ("LI", ["tau", "r", "v_leak"]), ("LIF", ["tau", "r", "v_leak", "v_threshold"])] ∧
    ∀ kf ∈ Generated.typeSourceField, ∃ flds, lookup kf.1 Generated.sameShapeFields = some flds ∧ kf.2 ∈ flds := by
  decide +kernel

/-- the model's constructor on the generated table: for every class and field list *the source states*, parameters of
one common shape are accepted and both declared types are that shape (C05 `neuron`, re-checked against the source) -/
theorem neuron_generated (kind : String) (fields : List String)
    (hk : (kind, fields) ∈ Generated.sameShapeFields) (hc : kind ≠ "CubaLIF")
    (f : List (String × Val)) (sh : List Nat)
    (hp : ∀ fld ∈ fields, ∃ dt d, lookup fld f = some (.arr dt sh d)) :
    ∃ node, postInit kind f = .ok node ∧
      C05.Declares node.inputType "input" sh ∧ C05.Declares node.outputType "output" sh := by
  apply C05.neuron kind fields _ f sh hp
  rw [shape_fields_generated.1] at hk
  simp only [List.mem_cons, Prod.mk.injEq, List.mem_nil_iff, or_false] at hk ⊢
  rcases hk with ⟨rfl, _⟩ | h | h | h
  · exact absurd rfl hc
  · exact Or.inl h
  · exact Or.inr (Or.inl h)
  · exact Or.inr (Or.inr h)

end NirVerif.C19
