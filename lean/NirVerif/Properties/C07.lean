import NirVerif.Lemmas.Flatten
import NirVerif.Generated.Flatten

/-! # C07 — Flatten shape arithmetic matches array-flatten semantics

About `Generated.calcFlattenOutput`, re-derived from `nir/ir/utils.py::calc_flatten_output`
on every run. -/
namespace NirVerif.C07
open NirVerif

/-- For every shape and every valid `(start_dim, end_dim)` pair — negative indices counted
from the end — the source function merges dimensions `s..e` into their product and leaves
all others untouched. -/
theorem flatten_eq_spec (shape : List Nat) (s e : Int) (s' e' : Nat)
    (hs : Spec.normDim shape.length s = s') (he : Spec.normDim shape.length e = e')
    (hse : s' ≤ e') (her : e' < shape.length) :
    Generated.calcFlattenOutput (shape.map Int.ofNat) s e
      = (Spec.flattenShape shape s' e').map Int.ofNat := by
  unfold Generated.calcFlattenOutput Spec.flattenShape
  simp only [Lemmas.slice_map, Py.len, List.length_map]
  have hA : (if (s != 0) = true then (Py.slice shape none (some s)).map Int.ofNat else [])
      = (shape.take s').map Int.ofNat := by
    by_cases h0 : s = 0
    · subst h0
      have : s' = 0 := by unfold Spec.normDim at hs; simp at hs; omega
      simp [this]
    · rw [Lemmas.slice_to shape s s' hs (by omega)]; simp [h0]
  have hE : Spec.normDim shape.length (e + 1) = (e' + 1 : Nat) ∨ e = -1 := by
    unfold Spec.normDim at *
    by_cases h1 : e = -1
    · exact Or.inr h1
    · left; split at he <;> split <;> omega
  have hB : (if (e != -1) = true then [Py.prod ((Py.slice shape (some s) (some (e + 1))).map Int.ofNat)]
        else [Py.prod ((Py.slice shape (some s) none).map Int.ofNat)])
      = [((Spec.prodNat ((shape.drop s').take (e' - s' + 1)) : Nat) : Int)] := by
    by_cases h1 : e = -1
    · subst h1
      have he' : e' + 1 = shape.length := by unfold Spec.normDim at he; simp at he; omega
      rw [Lemmas.slice_from shape s s' hs (by omega)]
      simp only [bne_self_eq_false, Bool.false_eq_true, if_false, Lemmas.prod_map_ofNat]
      congr 3
      exact (List.take_of_length_le (by simp; omega)).symm
    · rcases hE with hE | hE
      · rw [Lemmas.slice_mid shape s (e+1) s' (e'+1) hs hE (by omega) (by omega)]
        simp only [bne_iff_ne, ne_eq, h1, not_false_eq_true, if_true, Lemmas.prod_map_ofNat]
        congr 4; omega
      · exact absurd hE h1
  have hC : (if ((e != -1) && (e != (shape.length : Int) - 1)) = true
        then (Py.slice shape (some (e + 1)) none).map Int.ofNat else [])
      = (shape.drop (e' + 1)).map Int.ofNat := by
    by_cases h1 : e = -1
    · subst h1
      have he' : e' + 1 = shape.length := by unfold Spec.normDim at he; simp at he; omega
      simp [he']
    · by_cases h2 : e = (shape.length : Int) - 1
      · have he' : e' + 1 = shape.length := by unfold Spec.normDim at he; split at he <;> omega
        simp [h2, he']
      · rcases hE with hE | hE
        · rw [Lemmas.slice_from shape (e+1) (e'+1) hE (by omega)]; simp [h1, h2]
        · exact absurd hE h1
  rw [hA, hB, hC]
  simp

/-- The element count is preserved. -/
theorem count (shape : List Nat) (s e : Int) (s' e' : Nat)
    (hs : Spec.normDim shape.length s = s') (he : Spec.normDim shape.length e = e')
    (hse : s' ≤ e') (her : e' < shape.length) :
    Py.prod (Generated.calcFlattenOutput (shape.map Int.ofNat) s e) = Py.prod (shape.map Int.ofNat) := by
  rw [flatten_eq_spec shape s e s' e' hs he hse her, Lemmas.prod_map_ofNat, Lemmas.prod_map_ofNat,
    Lemmas.prodNat_flattenShape shape s' e' hse]

/-- The rank drops by exactly the number of merged dimensions minus one. -/
theorem rank (shape : List Nat) (s e : Int) (s' e' : Nat)
    (hs : Spec.normDim shape.length s = s') (he : Spec.normDim shape.length e = e')
    (hse : s' ≤ e') (her : e' < shape.length) :
    (Generated.calcFlattenOutput (shape.map Int.ofNat) s e).length = shape.length - (e' - s') := by
  rw [flatten_eq_spec shape s e s' e' hs he hse her]
  unfold Spec.flattenShape
  simp; omega

/-- Non-vacuity: shape (2,3,4,5), start 1, end -2  ->  (2,12,5). -/
example : Generated.calcFlattenOutput [2, 3, 4, 5] 1 (-2) = [2, 12, 5] := by decide
example : Spec.normDim 4 (-2) = (2 : Nat) ∧ (1 : Nat) ≤ 2 ∧ 2 < [2, 3, 4, 5].length := by decide

end NirVerif.C07
