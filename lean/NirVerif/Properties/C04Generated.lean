import NirVerif.Properties.C04
import NirVerif.Generated.ReadShape
import NirVerif.Generated.WriteShape

/-! # C04 — the reader's skeleton, as the source states it (translator item T19)

The model's reader (`Model.read`: `h5Load` on every dataset, `fromH5` on every group, then `dict2NIRNode`) is hand-written.
T19 checks on every run that `nir/serialization.py` still has that shape — `read` hands `hdf2dict(f[<root>])` to
`dict2NIRNode`; `hdf2dict` starts from a **fresh** dictionary on each call and walks `items()`, sending every key through
`try_byte_to_str`, every group into a fresh dictionary filled recursively and every dataset through
`try_byte_to_str(item[()])`; `try_byte_to_str` decodes `bytes` and returns anything else unchanged — and regenerates the
literals involved.  The theorem ties them to the writer's (T13): the reader opens the group the writer fills, under the
codec the strings were written in. -/
namespace NirVerif.C04
open NirVerif

theorem reader_generated :
    Generated.readRootName = Generated.rootNodeName ∧ Generated.versionName = Generated.rootVersionName ∧
    Generated.readCodec = "utf8" ∧ Generated.versionCodec = "utf8" ∧
    Generated.readerFreshDictPerCall = true ∧ Generated.readerDecodesKeys = true ∧
    Generated.readerLoadsWholeDataset = true := by
  decide +kernel

end NirVerif.C04
