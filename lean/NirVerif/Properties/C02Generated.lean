import NirVerif.Properties.C02
import NirVerif.Generated.WriteDispatch

/-! # C02 — the writer's dispatch on the value, as the source states it (translator item T18)

`array_bits` is about the model's `h5Create`, whose array case stores dtype, shape and bytes as given.  That the *source*
sends an ndarray to the branch that passes the array's own dtype (`create_dataset(k, data=v, dtype=v.dtype)`), and not to
the string branch, the group branch or the default conversion, is read off `write_recursive` on every run (T18): the
`isinstance` tests in order and what each branch creates. -/
namespace NirVerif.C02
open NirVerif NirVerif.Py NirVerif.Model

/-- the class the source's tests sort a value into (the first `isinstance` test it satisfies) -/
def branchOf : Val → String
  | .str _ => "str"
  | .arr _ _ _ => "np.ndarray"
  | .dict _ => "dict"
  | _ => "else"

theorem dispatch_generated :
    Generated.writeDispatch = [("str", "string"), ("np.ndarray", "own_dtype"), ("dict", "group"), ("else", "default")] := by
  decide +kernel

/-- an ndarray goes to the branch that keeps its own dtype — and there the model stores exactly dtype, shape, bytes -/
theorem array_branch_generated (dt : DType) (sh : List Nat) (d : Bytes) :
    lookup (branchOf (.arr dt sh d)) Generated.writeDispatch = some "own_dtype" ∧
    ∀ ds, h5Create (.arr dt sh d) = some ds → ds = .num dt sh d := by
  refine ⟨by rw [dispatch_generated]; simp only [branchOf]; decide +kernel, ?_⟩
  intro ds h
  simp only [h5Create] at h
  split at h <;> simp_all

/-- strings and dictionaries never reach a numeric conversion; everything else takes the default one (`h5Create`) -/
theorem other_branches_generated :
    (∀ s, lookup (branchOf (.str s)) Generated.writeDispatch = some "string") ∧
    (∀ kvs, lookup (branchOf (.dict kvs)) Generated.writeDispatch = some "group") ∧
    (∀ dt b, lookup (branchOf (.npscalar dt b)) Generated.writeDispatch = some "default") := by
  rw [dispatch_generated]
  refine ⟨fun _ => by simp only [branchOf]; decide +kernel, fun _ => by simp only [branchOf]; decide +kernel,
    fun _ _ => by simp only [branchOf]; decide +kernel⟩

end NirVerif.C02
