import NirVerif.Properties.C13
import NirVerif.Lemmas.DictExactNested

/-! # C13 (continued) — the exact dictionary round trip at every nesting depth

`Lemmas.ExactTree`: a leaf that round-trips exactly (`DictExact`: the 16 leaf classes of `roundtrip_exact*`), or a graph
with unique child names all of whose children are `ExactTree`s — graphs nested to any depth, any edge lists, any
metadata at any level. -/
namespace NirVerif.C13
open NirVerif NirVerif.Py NirVerif.Model NirVerif.Lemmas

/-- **Graphs nested to any depth**: `NIRGraph.from_dict(g.to_dict())` is exactly `g` — every sub-graph with the same
children in the same order, the same edges, the same metadata and the same mirrored interface, every leaf exactly itself. -/
theorem nested_roundtrip_exact (n : Node) (h : ExactTree n) : (toDict n).bind fromDict = .ok n :=
  nested_dict_exact h

/-- one more level: a graph of `ExactTree`s is an `ExactTree` (so the statement composes) -/
theorem nested_graph (children : List (String × Node)) (edges : List Edge) (md : Val)
    (hkeys : (children.map Prod.fst).Nodup) (h : ∀ kn ∈ children, ExactTree kn.2) :
    (toDict (mkGraph children edges md)).bind fromDict = .ok (mkGraph children edges md) :=
  nested_dict_exact (ExactTree.graph children edges md hkeys h)

/-- Non-vacuity: a graph holding a sub-graph that itself holds a sub-graph (three levels; Input → LIF → Output
innermost, metadata at two levels, an edge addressing a port of the sub-graph by its dotted name). -/
example :
    let lif := Node.mk "LIF" [("tau", .arr DType.float64 [2] []), ("r", .arr DType.float64 [2] []),
        ("v_leak", .arr DType.float64 [2] []), ("v_threshold", .arr DType.float64 [2] [])]
        (typeDict "input" (Val.ofInts [2])) (typeDict "output" (Val.ofInts [2])) (.dict []) [] []
    let inn := Node.mk "Input" [] (typeDict "input" (Val.ofInts [2])) (typeDict "output" (Val.ofInts [2])) (.dict []) [] []
    let out := Node.mk "Output" [] (typeDict "input" (Val.ofInts [2])) (typeDict "output" (Val.ofInts [2])) (.dict [("k", .int 1)]) [] []
    let g0 := mkGraph [("in", inn), ("lif", lif), ("out", out)] [("in", "lif"), ("lif", "lif"), ("lif", "out")] (.dict [("note", .str "x")])
    let g1 := mkGraph [("core", g0), ("post", lif)] [("core.out", "post"), ("core", "post")] (.dict [])
    let g2 := mkGraph [("a", inn), ("block", g1)] [("a", "block.core.in")] (.dict [("level", .int 2)])
    (toDict g2).bind fromDict = .ok g2 := by
  intro lif inn out g0 g1 g2
  have hlif : ExactTree lif := ExactTree.leaf _ (dictExact_simple "LIF" [("tau", .arr DType.float64 [2] []),
      ("r", .arr DType.float64 [2] []), ("v_leak", .arr DType.float64 [2] []), ("v_threshold", .arr DType.float64 [2] [])] lif
      (by decide) (by rfl) ⟨rfl, rfl⟩)
  have hin : ExactTree inn := ExactTree.leaf _ (dictExact_input _ _)
  have hout : ExactTree out := ExactTree.leaf _ (dictExact_output _ _)
  have h0 : ExactTree g0 := ExactTree.graph _ _ _ (by decide) (by
    intro kn hkn
    simp only [List.mem_cons, List.mem_nil_iff, or_false] at hkn
    rcases hkn with rfl | rfl | rfl
    · exact hin
    · exact hlif
    · exact hout)
  have h1 : ExactTree g1 := ExactTree.graph _ _ _ (by decide) (by
    intro kn hkn
    simp only [List.mem_cons, List.mem_nil_iff, or_false] at hkn
    rcases hkn with rfl | rfl
    · exact h0
    · exact hlif)
  exact nested_graph _ _ _ (by decide) (by
    intro kn hkn
    simp only [List.mem_cons, List.mem_nil_iff, or_false] at hkn
    rcases hkn with rfl | rfl
    · exact hin
    · exact h1)

end NirVerif.C13
