import NirVerif.Properties.C05Stable
import NirVerif.Generated.DeclaredTypes
import NirVerif.Generated.NeuronShapes

/-! # C05 — the declared types as the constructors spell them (translator item T17)

`Properties/C05.lean` proves that the *model's* `postInit` declares the shapes the mathematics implies.  Here the
right-hand sides of `self.input_type = {"input": np.array(…)}` / `self.output_type = {"output": np.array(…)}` in the
`__post_init__` of the ten parameterised primitives are regenerated from the source as shape expressions
(`Spec.ShapeE`: `self.f.shape`, constant slices and items of it, concatenation) and evaluated with Python's slicing rules:

* `matvec_generated` — for `Affine` and `Linear` and **every** weight shape `batch ++ [m, n]` the generated input expression
  evaluates to `batch ++ [n]` and the output expression to `batch ++ [m]` — what `C05.affine_linear` proves the model
  declares and `Spec.matvecShape` consumes / produces; both are non-empty, so the missing `dtype=int` cannot matter
  (`np.array` of a non-empty tuple of Python ints is int64; of the empty tuple it would be float64 — defect F5);
* `elementwise_generated` — for the eight element-wise primitives both expressions are the whole shape of one parameter,
  with `dtype=int`, and for the four neuron classes with several parameters that parameter is the one T9 reports as the
  type source. -/
namespace NirVerif.C05
open NirVerif NirVerif.Py NirVerif.Spec NirVerif.Generated

theorem slice_front (batch : List Nat) (m n : Nat) : Py.slice (batch ++ [m, n]) none (some (-2)) = batch := by
  have : Py.normBound (batch.length + 2) (-2) = batch.length := by
    simp [Py.normBound]; omega
  simp [Py.slice, this]

theorem slice_last (batch : List Nat) (m n : Nat) : Py.slice (batch ++ [m, n]) (some (-1)) none = [n] := by
  have : Py.normBound (batch.length + 2) (-1) = batch.length + 1 := by
    simp [Py.normBound]; omega
  simp [Py.slice, this]

theorem index_second_last (batch : List Nat) (m n : Nat) : Py.index? (batch ++ [m, n]) (-2) = some m := by
  have h1 : ¬ ((-2 : Int) + ((batch.length : Int) + 2) < 0) := by omega
  have h2 : ((-2 : Int) + ((batch.length : Int) + 2)).toNat = batch.length := by omega
  simp [Py.index?, h1, h2]

/-- Affine / Linear: the regenerated expressions give `batch ++ [n]` / `batch ++ [m]` on every weight shape -/
theorem matvec_generated (cls : String) (hc : cls = "Affine" ∨ cls = "Linear") :
    ∃ ein eout bi bo, lookup cls declaredTypes = some ((ein, bi), (eout, bo)) ∧
      ∀ (batch : List Nat) (m n : Nat) (shapeOf : String → List Nat), shapeOf "weight" = batch ++ [m, n] →
        ein.eval shapeOf = some (batch ++ [n]) ∧ eout.eval shapeOf = some (batch ++ [m]) ∧
        batch ++ [n] ≠ [] ∧ batch ++ [m] ≠ [] := by
  rcases hc with rfl | rfl
  all_goals
    refine ⟨_, _, _, _, by simp [declaredTypes, lookup]; exact ⟨⟨rfl, rfl⟩, rfl, rfl⟩, ?_⟩
    intro batch m n shapeOf hs
    simp [ShapeE.eval, hs, slice_front, slice_last, index_second_last, bind, Option.bind]

/-- the element-wise primitives: both declared types are the whole shape of one parameter, as int64 -/
theorem elementwise_generated :
    ∀ r ∈ [("Scale", "scale"), ("Threshold", "threshold"), ("Delay", "delay"), ("I", "r"), ("IF", "r"), ("LI", "r"),
            ("LIF", "r"), ("CubaLIF", "v_threshold")],
      lookup r.1 declaredTypes = some ((.whole r.2, true), (.whole r.2, true)) := by
  decide

/-- … and for the neuron classes with several parameters it is the parameter T9 names as the type source -/
theorem elementwise_source_generated :
    ∀ r ∈ typeSourceField, lookup r.1 declaredTypes = some ((.whole r.2, true), (.whole r.2, true)) := by
  decide

end NirVerif.C05
