import NirVerif.Properties.C03
import NirVerif.Lemmas.Layout
import NirVerif.Lemmas.GraphBack
import NirVerif.Properties.C01

/-! # C03 (continued) — the whole file, at every depth: exactly the documented members, nothing else

`Lemmas.Encodes n kvs ms` (file `Lemmas/Layout.lean`) says that the links `ms` of a group are exactly the
encoding of the dictionary `kvs`: a dataset per plain entry, a sub-group per dictionary entry (recursively), no
`metadata` member for empty metadata, nothing else, no name twice.  `file_exact` states it for the whole file
`nir.write` produces, for **every** node or graph (any nesting depth, any metadata); the corollaries spell out what
that means for a primitive's group and for a graph's group, in the vocabulary of the published layout. -/
namespace NirVerif.C03
open NirVerif NirVerif.Py NirVerif.Model NirVerif.Lemmas

/-- **The whole file.**  Whenever `nir.write` succeeds, the file holds exactly `version` and `node`, and the `node`
group is exactly the encoding of `to_dict()` of what was written — recursively, at every depth. -/
theorem file_exact (version : String) (g : Node) (f : H5) (h : write version g = .ok f) :
    ∃ kvs ng n, toDict g = .ok (.dict kvs) ∧
      f = .group [("node", .group ng), ("version", .dset (.str version))] ∧ Encodes n kvs ng := by
  unfold write at h
  simp only [bind, Except.bind, pure, Except.pure] at h
  split at h
  · cases h
  · rename_i d hd
    split at h
    · rename_i kvs
      split at h
      · cases h
      · rename_i node hw
        cases h
        exact ⟨kvs, node, _, hd, rfl, write_encodes _ _ _ hw⟩
    · cases h

/-- **A primitive's group** (any class without a class-specific dictionary form; `names` relates the field names to
the documented ones): the `type` dataset names the class; every parameter is a dataset under its own name holding
what `create_dataset` makes of the value; empty metadata leaves no member; and a name that is neither a parameter,
`type` nor `metadata` is **not present**. -/
theorem leaf_group (kind : String) (fields : List (String × Val)) (it ot md : Val)
    (hk : kind ≠ "NIRGraph" ∧ kind ≠ "Input" ∧ kind ≠ "Output" ∧ kind ≠ "Flatten")
    (hf : "metadata" ∉ fields.map Prod.fst ∧ "type" ∉ fields.map Prod.fst)
    (version : String) (f : H5) (h : write version (Node.mk kind fields it ot md [] []) = .ok f) :
    ∃ ng, f = .group [("node", .group ng), ("version", .dset (.str version))] ∧
      (ng.map Prod.fst).Nodup ∧
      lookup "type" ng = some (.dset (.str kind)) ∧
      (∀ k v, lookup k fields = some v → (∀ d, v ≠ .dict d) →
          ∃ ds, h5Create v = some ds ∧ lookup k ng = some (.dset ds)) ∧
      (md = .dict [] → lookup "metadata" ng = none) ∧
      (∀ k, lookup k fields = none → k ≠ "type" → k ≠ "metadata" → lookup k ng = none) := by
  obtain ⟨kvs, ng, n, hd, hfile, henc⟩ := file_exact version _ f h
  rw [toDict_keys_generic kind fields it ot md hk] at hd
  simp only [Except.ok.injEq, Val.dict.injEq] at hd
  subst hd
  cases n with
  | zero => exact absurd henc (by simp [Encodes])
  | succ n =>
    obtain ⟨h1, h2, h3, h4, _⟩ := henc
    have hnf : ∀ k, (k = "metadata" ∨ k = "type") → lookup k fields = none := by
      intro k hk'
      rcases hk' with rfl | rfl
      · exact lookup_eq_none_of_not_mem _ _ hf.1
      · exact lookup_eq_none_of_not_mem _ _ hf.2
    have hlk : ∀ k, lookup k (fields ++ [("metadata", md), ("type", Val.str kind)]) =
        (lookup k fields).or (lookup k [("metadata", md), ("type", Val.str kind)]) := fun k => lookup_append k _ _
    refine ⟨ng, hfile, h1, ?_, ?_, ?_, ?_⟩
    · obtain ⟨ds, hc, hl⟩ := h3 "type" (.str kind)
        (by rw [hlk, hnf "type" (Or.inr rfl)]; simp [lookup]) (by decide) (by intro d hd'; cases hd')
      have : h5Create (.str kind) = some (.str kind) ∨ h5Create (.str kind) = none := by
        by_cases hz : kind.toList.contains (Char.ofNat 0) = true
        · exact Or.inr (by simp only [h5Create, hz, if_true])
        · exact Or.inl (by simp only [h5Create, hz, Bool.false_eq_true, if_false])
      rcases this with h' | h'
      · rw [h'] at hc; cases hc; exact hl
      · rw [h'] at hc; cases hc
    · intro k v hkv hnd
      have hkm : k ≠ "metadata" := by
        intro e; subst e; rw [hnf "metadata" (Or.inl rfl)] at hkv; cases hkv
      exact h3 k v (by rw [hlk, hkv]; rfl) hkm hnd
    · intro hmd
      apply h4
      intro kv hmem hkm
      rcases List.mem_append.mp hmem with hm | hm
      · exact absurd (hkm ▸ List.mem_map_of_mem (f := Prod.fst) hm) hf.1
      · simp only [List.mem_cons, List.mem_nil_iff, or_false] at hm
        rcases hm with rfl | rfl
        · exact hmd
        · simp at hkm
    · intro k hkf hkt hkm
      apply h2
      rw [hlk, hkf]
      simp [lookup, hkt, hkm, Ne.symm hkt, Ne.symm hkm]

/-- **A graph's group** (any children — primitives or nested graphs —, any edge list, any metadata): the `type`
dataset says `NIRGraph`; `edges` is the dataset `edges_layout` describes; `nodes` is a group holding, for every child,
a sub-group under the child's name that is exactly the encoding of the child's own dictionary form (recursively:
`Encodes`), and no link under any other name; and the graph's group holds nothing but `nodes`, `edges`, `type` and
(for non-empty metadata) `metadata`. -/
theorem graph_group (fields : List (String × Val)) (it ot md : Val) (children : Nodes) (edges : List Edge)
    (version : String) (f : H5) (h : write version (Node.mk "NIRGraph" fields it ot md children edges) = .ok f) :
    ∃ ng, f = .group [("node", .group ng), ("version", .dset (.str version))] ∧
      (ng.map Prod.fst).Nodup ∧
      lookup "type" ng = some (.dset (.str "NIRGraph")) ∧
      (∃ ds, h5Create (edgesVal edges) = some ds ∧ lookup "edges" ng = some (.dset ds)) ∧
      (md = .dict [] → lookup "metadata" ng = none) ∧
      (∀ k, k ≠ "nodes" → k ≠ "edges" → k ≠ "type" → k ≠ "metadata" → lookup k ng = none) ∧
      ∃ kids, lookup "nodes" ng = some (.group kids) ∧ (kids.map Prod.fst).Nodup ∧
        (∀ k, lookup k children = none → lookup k kids = none) ∧
        (∀ k c, lookup k children = some c → ∃ ckvs cg n, toDict c = .ok (.dict ckvs) ∧
            lookup k kids = some (.group cg) ∧ Encodes n ckvs cg) := by
  obtain ⟨kvs, ng, n, hd, hfile, henc⟩ := file_exact version _ f h
  simp only [toDict, bind, Except.bind, pure, Except.pure] at hd
  cases hkids : toDict.toDictChildren children with
  | error e => rw [hkids] at hd; cases hd
  | ok kidsD =>
  rw [hkids] at hd
  simp only [Except.ok.injEq, Val.dict.injEq] at hd
  subst hd
  obtain ⟨hk1, hk2⟩ := toDictChildren_spec children kidsD hkids
  cases n with
  | zero => exact absurd henc (by simp [Encodes])
  | succ n =>
  obtain ⟨h1, h2, h3, h4, h5⟩ := henc
  refine ⟨ng, hfile, h1, ?_, ?_, ?_, ?_, ?_⟩
  · obtain ⟨ds, hc, hl⟩ := h3 "type" (.str "NIRGraph") (by simp [lookup]) (by decide) (by intro d hd'; cases hd')
    have : h5Create (.str "NIRGraph") = some (.str "NIRGraph") := by decide
    rw [this] at hc; cases hc; exact hl
  · exact h3 "edges" (edgesVal edges) (by simp [lookup]) (by decide) (by intro d hd'; simp [edgesVal] at hd')
  · intro hmd
    apply h4
    intro kv hmem hkm
    simp only [List.mem_cons, List.mem_nil_iff, or_false] at hmem
    rcases hmem with rfl | rfl | rfl | rfl
    · simp at hkm
    · simp at hkm
    · exact hmd
    · simp at hkm
  · intro k hn he ht hm
    apply h2
    simp [lookup, Ne.symm hn, Ne.symm he, Ne.symm ht, Ne.symm hm]
  · have hne : ¬ ("nodes" = "metadata" ∧ kidsD = []) := by simp
    obtain ⟨kids, hl, hsub⟩ := h5 "nodes" kidsD (by simp [lookup]) hne
    refine ⟨kids, hl, ?_⟩
    cases n with
    | zero => exact absurd hsub (by simp [Encodes])
    | succ n =>
    obtain ⟨g1, g2, _, _, g5⟩ := hsub
    refine ⟨g1, ?_, ?_⟩
    · intro k hk
      apply g2
      apply lookup_eq_none_of_not_mem
      rw [hk1]
      intro hmem
      have := lookup_isSome_of_mem k children hmem
      rw [hk] at this; cases this
    · intro k c hkc
      obtain ⟨d, hdc, hld⟩ := hk2 k c hkc
      -- a node's dictionary form is a dictionary
      have hdict : ∃ ckvs, d = .dict ckvs := by
        cases c with
        | mk kind fs i o m ch ed =>
          simp only [toDict, bind, Except.bind, pure, Except.pure] at hdc
          split at hdc
          · split at hdc
            · cases hdc
            · cases hdc; exact ⟨_, rfl⟩
          all_goals
            first
            | (cases hdc; exact ⟨_, rfl⟩)
            | (split at hdc
               · cases hdc
               · cases hdc; exact ⟨_, rfl⟩)
      obtain ⟨ckvs, rfl⟩ := hdict
      have hne' : ¬ (k = "metadata" ∧ ckvs = []) := by
        rintro ⟨_, rfl⟩
        cases c with
        | mk kind fs i o m ch ed =>
          simp only [toDict, bind, Except.bind, pure, Except.pure] at hdc
          split at hdc
          · split at hdc
            · cases hdc
            · cases hdc
          all_goals
            first
            | (simp at hdc)
            | (split at hdc
               · cases hdc
               · simp at hdc)
      obtain ⟨cg, hcg, henc'⟩ := g5 k ckvs hld hne'
      exact ⟨ckvs, cg, n, hdc, hcg, henc'⟩

/-- Non-vacuity: the Input → LIF (self-loop) → Output graph of C01 with graph-level metadata `{"k": 1}` is written
(evaluated by the kernel), so the hypothesis of `graph_group` is met; the theorem then yields the `nodes` group with
a `lif` sub-group that encodes the LIF dictionary, and no link called `extra`. -/
example : ∃ f, write "0.2.0" (mkGraph C01.exChildren C01.exEdges (.dict [("k", .int 1)])) = .ok f ∧
    ∃ ng kids cg, f = .group [("node", .group ng), ("version", .dset (.str "0.2.0"))] ∧
      lookup "nodes" ng = some (.group kids) ∧ lookup "lif" kids = some (.group cg) ∧
      lookup "extra" kids = none ∧ lookup "extra" ng = none := by
  have hw : (write "0.2.0" (mkGraph C01.exChildren C01.exEdges (.dict [("k", .int 1)]))).toBool = true := by decide +kernel
  cases hf : write "0.2.0" (mkGraph C01.exChildren C01.exEdges (.dict [("k", .int 1)])) with
  | error e => rw [hf] at hw; cases hw
  | ok f =>
    obtain ⟨ng, h0, _, _, _, _, hno, kids, hk, _, hnone, hsome⟩ := graph_group _ _ _ _ _ _ "0.2.0" f hf
    obtain ⟨_, cg, _, _, hcg, _⟩ := hsome "lif" C01.exLif rfl
    exact ⟨f, rfl, ng, kids, cg, h0, hk, hcg, hnone "extra" rfl,
      hno "extra" (by decide) (by decide) (by decide) (by decide)⟩

end NirVerif.C03
