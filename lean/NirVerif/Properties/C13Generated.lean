import NirVerif.Properties.C13Nested
import NirVerif.Generated.DictOverrides

/-! # C13 / C03 / C01 (continued) — the class-specific dictionary entries, as the source states them now

`Generated.dictOverrides` is regenerated on every run (translator item T11) from `Input.to_dict`, `Output.to_dict`
(graph.py) and `Flatten.to_dict` (flatten.py): the key each adds, and which type attribute and port the value is read
from (deep-copied).  `toDict_override_generated` re-checks the model's `toDict` against that table: reading the shape of
an Input from its *output* side, renaming `shape`, or dropping the `deepcopy` breaks the build. -/
namespace NirVerif.C13
open NirVerif NirVerif.Py NirVerif.Model

theorem overrides_generated :
    Generated.dictOverrides = [("Input", "shape", "input_type", "input"), ("Output", "shape", "output_type", "output"),
      ("Flatten", "input_type", "input_type", "input")] := by
  decide +kernel

/-- for every class-specific entry the source states — class `cls` adds `key`, read from port `port` of the type
attribute `attr` — the model's dictionary form of a `cls` node is its fields, `metadata`, `type` and that entry holding
the value found at that port of that side -/
theorem toDict_override_generated (cls key attr port : String)
    (h : (cls, key, attr, port) ∈ Generated.dictOverrides)
    (fields : List (String × Val)) (it ot md s : Val)
    (hs : getItem (if attr = "input_type" then it else ot) port = .ok s) :
    toDict (Node.mk cls fields it ot md [] []) =
      .ok (.dict (fields ++ [("metadata", md), ("type", .str cls), (key, s)])) := by
  rw [overrides_generated] at h
  simp only [List.mem_cons, Prod.mk.injEq, List.mem_nil_iff, or_false] at h
  rcases h with ⟨rfl, rfl, rfl, rfl⟩ | ⟨rfl, rfl, rfl, rfl⟩ | ⟨rfl, rfl, rfl, rfl⟩
  · simp only [if_true] at hs
    simp only [toDict, typeEntry, hs, bind, Except.bind, pure, Except.pure]
  · have e : ¬ ("output_type" = "input_type") := by decide
    simp only [e, if_false] at hs
    simp only [toDict, typeEntry, hs, bind, Except.bind, pure, Except.pure]
  · simp only [if_true] at hs
    simp only [toDict, typeEntry, hs, bind, Except.bind, pure, Except.pure]

end NirVerif.C13
