import NirVerif.Properties.C11
import NirVerif.Lemmas.Construct
import NirVerif.Model.File

/-! # C12 — the graph-level interface always mirrors its Input and Output nodes

About `Model.mkGraph`, `Model.fromList`, `Model.inferTypes` (tied to the code by the `graphs`
correspondence suite with operation histories).  Dict and file round trips rebuild the graph
through `mkGraph` (`fromDict`), so they are covered by `init`; see C13 / C01. -/
namespace NirVerif.C12
open NirVerif NirVerif.Py NirVerif.Model NirVerif.Lemmas

/-- `graph.inputs` / `graph.outputs`: exactly the children that are Input resp. Output. -/
def inputsOf (g : Node) : Nodes := g.children.filter fun kv => kv.2.kind == "Input"
def outputsOf (g : Node) : Nodes := g.children.filter fun kv => kv.2.kind == "Output"

/-- The graph-level dictionaries map exactly those children's names to those children's
*current* types (`None` standing for the empty input map, as `__post_init__` has it). -/
def Mirror (g : Node) : Prop :=
  (g.inputType = if (inputsOf g).isEmpty then Val.none
                 else Val.dict ((inputsOf g).map fun kv => (kv.1, kv.2.inputType))) ∧
  g.outputType = Val.dict ((outputsOf g).map fun kv => (kv.1, kv.2.outputType))

theorem accessors (g : Node) : graphInputs g = inputsOf g ∧ graphOutputs g = outputsOf g := ⟨rfl, rfl⟩

/-- after construction -/
theorem init (children : Nodes) (edges : List Edge) (md : Val) : Mirror (mkGraph children edges md) :=
  ⟨rfl, rfl⟩

/-- after `from_list` -/
theorem fromList_mirror (ns : List Node) (g : Node) (h : fromList ns = .ok g) : Mirror g := by
  cases ns with
  | nil => simp [fromList, throw, throwThe, MonadExceptOf.throw] at h
  | cons first rest =>
    simp only [fromList, bind, Except.bind, pure, Except.pure] at h
    by_cases hf : first.isKind "Input" = true <;>
      by_cases hl : ((first :: rest).getLast?.getD first).isKind "Output" = true <;>
      simp only [hf, hl, if_true, if_false] at h
    · cases h; exact init _ _ _
    · cases hc : construct "Output" [("output_type", ((first :: rest).getLast?.getD first).outputType)] <;>
        simp [hc] at h
      subst h; exact init _ _ _
    · cases hc : construct "Input" [("input_type", first.inputType)] <;> simp [hc] at h
      subst h; exact init _ _ _
    · cases hc : construct "Input" [("input_type", first.inputType)] <;> simp [hc] at h
      cases hc2 : construct "Output" [("output_type", ((first :: rest).getLast?.getD first).outputType)] <;>
        simp [hc2] at h
      subst h; exact init _ _ _

/-- after `infer_types`, whether it returned normally or raised half-way -/
theorem infer_mirror (g : Node) (hg : Mirror g) : Mirror (inferTypes g).1 := by
  unfold inferTypes
  split
  · exact hg
  · cases g with
    | mk k f i o m c e => exact ⟨rfl, rfl⟩

/-- after `from_dict` / `read` (both rebuild a graph through the constructor): whatever the
dictionary, a graph that comes out mirrors its Input/Output children -/
theorem fromDict_mirror (d : Val) (g : Node) (h : fromDict d = .ok g) (hk : g.kind = "NIRGraph") : Mirror g := by
  unfold fromDict at h
  generalize Val.depth d + 1 = fuel at h
  cases fuel with
  | zero => simp [fromDictFuel] at h
  | succ fuel =>
    cases d with
    | dict kvs =>
      simp only [fromDictFuel, bind, Except.bind, pure, Except.pure] at h
      repeat' split at h
      all_goals (try cases h)
      all_goals first
        | exact init _ _ _
        | (exfalso; have := (construct_kind _ _ _ h).1; rw [hk] at this; revert this; decide)
        | (exfalso; have := (construct_kind _ _ _ h).1; rw [hk] at this; simp_all)
        | skip
    | _ => simp [fromDictFuel] at h

/-- after `nir.read` -/
theorem read_mirror (f : H5) (g : Node) (h : Model.read f = .ok g) (hk : g.kind = "NIRGraph") : Mirror g := by
  unfold Model.read at h
  simp only [bind, Except.bind] at h
  split at h
  · cases h
  · exact fromDict_mirror _ g h hk

/-- hence after any history of `from_dict(to_dict(·))`, `read(write(·))` and `infer_types`
(each step either fails, leaving the graph as it was, or yields a graph that mirrors) -/
inductive HistOp where | infer | dictRt | fileRt

def applyOp (g : Node) : HistOp → Node
  | .infer => (inferTypes g).1
  | .dictRt => match (toDict g).bind fromDict with | .ok g' => g' | .error _ => g
  | .fileRt => match (write "v" g).bind Model.read with | .ok g' => g' | .error _ => g

theorem inferTypes_kind (g : Node) : (inferTypes g).1.kind = g.kind := by
  unfold inferTypes
  split
  · rfl
  · cases g; rfl

/-- a node that is a graph mirrors its children (leaf primitives have no graph-level interface) -/
def MirrorIfGraph (g : Node) : Prop := g.kind = "NIRGraph" → Mirror g

theorem history_mirror (ops : List HistOp) (g : Node) (hg : MirrorIfGraph g) :
    MirrorIfGraph (ops.foldl applyOp g) := by
  induction ops generalizing g with
  | nil => exact hg
  | cons op rest ih =>
    apply ih
    cases op with
    | infer =>
      intro hk
      rw [applyOp, inferTypes_kind] at hk
      exact infer_mirror g (hg hk)
    | dictRt =>
      simp only [applyOp]
      cases hd : toDict g with
      | error e => simp [Except.bind]; exact hg
      | ok d =>
        simp only [Except.bind]
        cases hf : fromDict d with
        | error e => exact hg
        | ok g' => exact fun hk => fromDict_mirror d g' hf hk
    | fileRt =>
      simp only [applyOp]
      cases hw : write "v" g with
      | error e => simp [Except.bind]; exact hg
      | ok f =>
        simp only [Except.bind]
        cases hr : Model.read f with
        | error e => exact hg
        | ok g' => exact fun hk => read_mirror f g' hr hk

def iterInfer : Nat → Node → Node
  | 0, g => g
  | k + 1, g => iterInfer k (inferTypes g).1

/-- hence after any number of `infer_types` calls on any graph that mirrors its children
(in particular a freshly built one) -/
theorem infer_history (g : Node) (hg : Mirror g) (k : Nat) : Mirror (iterInfer k g) := by
  induction k generalizing g with
  | zero => exact hg
  | succ k ih => exact ih _ (infer_mirror g hg)

/-- Non-vacuity: the hypothesis `Mirror g` is met by every constructed graph, e.g. one with
an Input and an (untyped) Output child; the theorems then apply to it after inference. -/
example : Mirror (iterInfer 3 (mkGraph
    [("in", Node.mk "Input" [] (typeDict "input" (Val.ofInts [2])) (typeDict "output" (Val.ofInts [2])) (.dict []) [] []),
     ("out", Node.mk "Output" [] (typeDict "input" .none) (typeDict "output" .none) (.dict []) [] [])]
    [("in", "out")])) :=
  infer_history _ (init _ _ _) 3

end NirVerif.C12
