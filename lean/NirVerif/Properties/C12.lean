import NirVerif.Properties.C11

/-! # C12 — the graph-level interface always mirrors its Input and Output nodes

About `Model.mkGraph`, `Model.fromList`, `Model.inferTypes` (tied to the code by the `graphs`
correspondence suite with operation histories).  Dict and file round trips rebuild the graph
through `mkGraph` (`fromDict`), so they are covered by `init`; see C13 / C01. -/
namespace NirVerif.C12
open NirVerif NirVerif.Py NirVerif.Model

/-- `graph.inputs` / `graph.outputs`: exactly the children that are Input resp. Output. -/
def inputsOf (g : Node) : Nodes := g.children.filter fun kv => kv.2.kind == "Input"
def outputsOf (g : Node) : Nodes := g.children.filter fun kv => kv.2.kind == "Output"

/-- The graph-level dictionaries map exactly those children's names to those children's
*current* types (`None` standing for the empty input map, as `__post_init__` has it). -/
def Mirror (g : Node) : Prop :=
  (g.inputType = if (inputsOf g).isEmpty then Val.none
                 else Val.dict ((inputsOf g).map fun kv => (kv.1, kv.2.inputType))) ∧
  g.outputType = Val.dict ((outputsOf g).map fun kv => (kv.1, kv.2.outputType))

theorem accessors (g : Node) : graphInputs g = inputsOf g ∧ graphOutputs g = outputsOf g := ⟨rfl, rfl⟩

/-- after construction -/
theorem init (children : Nodes) (edges : List Edge) (md : Val) : Mirror (mkGraph children edges md) :=
  ⟨rfl, rfl⟩

/-- after `from_list` -/
theorem fromList_mirror (ns : List Node) (g : Node) (h : fromList ns = .ok g) : Mirror g := by
  cases ns with
  | nil => simp [fromList, throw, throwThe, MonadExceptOf.throw] at h
  | cons first rest =>
    simp only [fromList, bind, Except.bind, pure, Except.pure] at h
    by_cases hf : first.isKind "Input" = true <;>
      by_cases hl : ((first :: rest).getLast?.getD first).isKind "Output" = true <;>
      simp only [hf, hl, if_true, if_false] at h
    · cases h; exact init _ _ _
    · cases hc : construct "Output" [("output_type", ((first :: rest).getLast?.getD first).outputType)] <;>
        simp [hc] at h
      subst h; exact init _ _ _
    · cases hc : construct "Input" [("input_type", first.inputType)] <;> simp [hc] at h
      subst h; exact init _ _ _
    · cases hc : construct "Input" [("input_type", first.inputType)] <;> simp [hc] at h
      cases hc2 : construct "Output" [("output_type", ((first :: rest).getLast?.getD first).outputType)] <;>
        simp [hc2] at h
      subst h; exact init _ _ _

/-- after `infer_types`, whether it returned normally or raised half-way -/
theorem infer_mirror (g : Node) (hg : Mirror g) : Mirror (inferTypes g).1 := by
  unfold inferTypes
  split
  · exact hg
  · cases g with
    | mk k f i o m c e => exact ⟨rfl, rfl⟩

def iterInfer : Nat → Node → Node
  | 0, g => g
  | k + 1, g => iterInfer k (inferTypes g).1

/-- hence after any number of `infer_types` calls on any graph that mirrors its children
(in particular a freshly built one) -/
theorem infer_history (g : Node) (hg : Mirror g) (k : Nat) : Mirror (iterInfer k g) := by
  induction k generalizing g with
  | zero => exact hg
  | succ k ih => exact ih _ (infer_mirror g hg)

/-- Non-vacuity: the hypothesis `Mirror g` is met by every constructed graph, e.g. one with
an Input and an (untyped) Output child; the theorems then apply to it after inference. -/
example : Mirror (iterInfer 3 (mkGraph
    [("in", Node.mk "Input" [] (typeDict "input" (Val.ofInts [2])) (typeDict "output" (Val.ofInts [2])) (.dict []) [] []),
     ("out", Node.mk "Output" [] (typeDict "input" .none) (typeDict "output" .none) (.dict []) [] [])]
    [("in", "out")])) :=
  infer_history _ (init _ _ _) 3

end NirVerif.C12
